"""C10 helper: build graphs/jobs from JSON cases, lower them with the REAL graph2job and run every task
with the REAL runner (entrypoint.execute_sequence -> runner.run -> memory.Memory) in-process.

Replaced module globals (no hooks in the repo): cascade.executor.runner.memory.shm_client (fake shared
memory: a dict), cascade.executor.runner.memory.callback and cascade.executor.runner.entrypoint.callback
(recorders of DatasetPublished / TaskFailure).
"""
import inspect

# --------------------------------------------------------------------------- values

RECORD = {}      # task id -> list of (key of the callable, args, kwargs) observed by the callable
CURRENT = [None]  # the task `runner.run` is executing (set by the wrapper around entrypoint.run)


class Tok:
    """An opaque, non-iterable, picklable value produced by a task."""

    def __init__(self, s):
        self.s = s

    def __eq__(self, other):
        return isinstance(other, Tok) and other.s == self.s

    def __hash__(self):
        return hash(("Tok", self.s))

    def __repr__(self):
        return "Tok(%s)" % self.s


def tok(key, k):
    return Tok("%s#%d" % (key, k))


def is_str(a, s):
    """a is the string s (safe for ndarray / list arguments, where == is element-wise or costly)"""
    return isinstance(a, str) and a == s


def _argstr(a):
    if isinstance(a, Tok):
        return a.s
    if a is None or isinstance(a, (str, int)):
        return repr(a)
    return type(a).__name__


def fn_tok(key, args):
    return Tok("%s(%s)" % (key, ",".join(_argstr(a) for a in args)))


def _txt(v):
    """canonical text of a picklable value (contents of lists, tuples, dicts, arrays)"""
    import numpy as np
    if isinstance(v, Tok):
        return repr(v)
    if isinstance(v, np.ndarray):
        return "ndarray[%s](%s)" % (v.dtype, _txt(v.tolist()))
    if isinstance(v, np.generic):
        return "np[%s]:%s" % (v.dtype, _txt(v.item()))
    if isinstance(v, list):
        return "[%s]" % ", ".join(_txt(x) for x in v)
    if isinstance(v, tuple):
        return "(%s)" % ", ".join(_txt(x) for x in v)
    if isinstance(v, dict):
        return "{%s}" % ", ".join("%s: %s" % (_txt(k), _txt(x)) for k, x in v.items())
    if v is None or isinstance(v, (bool, int, float, str, bytes)):
        return repr(v)
    return "<%s>" % type(v).__name__


def enc(v):
    """python value -> canonical JSON value of the model: None | {"s"} | {"i"} | {"t"} (token) | {"d": text} (any other
    picklable value) | {"o": type} (cannot be pickled)"""
    import numpy as np
    if v is None:
        return None
    if isinstance(v, bool):
        return {"d": repr(v)}
    if isinstance(v, str):
        return {"s": v}
    if isinstance(v, int):
        return {"i": v}
    if isinstance(v, Tok):
        return {"t": v.s}
    if inspect.isgenerator(v):
        return {"o": "generator"}
    if isinstance(v, (float, list, tuple, dict, bytes, np.ndarray, np.generic)):
        return {"d": _txt(v)}
    return {"o": type(v).__name__}


def dec(j):
    """value of the case language -> python value. None | {"s"} | {"i"} | {"t"} | {"f": float} | {"b": bool} |
    {"l": [json scalars]} | {"tu": [...]} | {"m": [[k, v]...]} | {"nd": [ints]} | {"ndf": [floats]} (float64 array) |
    {"py": text of a Python literal: None, ints, floats, bools, bytes, dicts, empty and nested containers}"""
    if j is None:
        return None
    if "py" in j:
        import ast
        return ast.literal_eval(j["py"])
    if "ndf" in j:
        import numpy as np
        return np.array(j["ndf"], dtype="float64")
    if "s" in j:
        return j["s"]
    if "i" in j:
        return j["i"]
    if "t" in j:
        return Tok(j["t"])
    if "f" in j:
        return float(j["f"])
    if "b" in j:
        return bool(j["b"])
    if "l" in j:
        return list(j["l"])
    if "tu" in j:
        return tuple(j["tu"])
    if "m" in j:
        return {k: v for k, v in j["m"]}
    if "nd" in j:
        import numpy as np
        return np.array(j["nd"])
    raise ValueError(j)


def _gen(key, m, then_raise=False, vals=None):
    for k in range(m):
        yield tok(key, k) if vals is None else dec(vals[k])
    if then_raise:
        raise RuntimeError("callable-raised")


STR_RESULT = "abcdefghijklmnopqrstuvwxyz"


def result_of(key, kind, m, vals=None):
    """the object a callable of behaviour (kind, m) returns (fresh each time). vals (case-language values): what a `ret`
    callable returns (vals[0]) / what a generator yields, instead of opaque tokens: None, ints, floats, bools, dicts,
    empty containers, nested tuples, bytes, arrays"""
    if kind == "ret":
        return tok(key, 0) if vals is None else dec(vals[0])
    if kind == "gen":
        return _gen(key, m, False, vals)
    if kind == "genraise":
        return _gen(key, m, True, vals)
    if kind == "list":
        return [tok(key, k) for k in range(m)]
    if kind == "tuple":
        return tuple(tok(key, k) for k in range(m))
    if kind == "str":
        return STR_RESULT[:m]
    if kind == "nd":
        import numpy as np
        return np.arange(m)
    raise AssertionError(kind)


def yielded(key, kind, m, vals=None):
    """the values iterating that object gives, in order (None: it is not iterable)"""
    if kind in ("gen", "genraise") and vals is not None:
        return [dec(v) for v in vals[:m]]
    if kind == "ret" and vals is not None:
        v = dec(vals[0])
        try:
            return list(iter(v))
        except TypeError:
            return None
    if kind in ("gen", "genraise", "list", "tuple"):
        return [tok(key, k) for k in range(m)]
    if kind == "str":
        return list(STR_RESULT[:m])
    if kind == "nd":
        import numpy as np
        return list(np.arange(m))
    return None


class Rec:
    """Recording callable. Pickled by reference to this (importable) module, so the copy that
    func_dec creates records into the same RECORD."""

    def __init__(self, key, kind, m, vals=None):
        self.key = key
        self.kind = kind
        self.m = m
        self.vals = vals
        self.__name__ = "f_" + key

    def __call__(self, *args, **kwargs):
        RECORD.setdefault(CURRENT[0], []).append((self.key, list(args), dict(kwargs)))
        if self.kind == "fn":          # the value names the callable and everything it was called with, in order
            return fn_tok(self.key, args)
        if self.kind == "raise":
            raise RuntimeError("callable-raised")
        return result_of(self.key, self.kind, self.m, getattr(self, "vals", None))

    def __repr__(self):
        return "Rec(%s)" % self.key


def _wrap(rec):
    """the same recording callable as a plain function: ONE code object for every node, the behaviour bound as a default
    argument (what `lambda x, k=k: ...` in a loop gives) — callables that share their code but not their defaults are
    different computations"""
    def f(*args, _r=rec, **kwargs):
        return _r(*args, **kwargs)
    f.__name__ = rec.__name__
    f.key, f.kind, f.m = rec.key, rec.kind, rec.m      # what the harness reads off a callable
    return f


_EP_COUNT = [0]


def register_entrypoint(f):
    """makes f a module-level name of THIS module and returns the 'package.module.function' string that
    cascade.low.func.resolve_callable turns back into f"""
    _EP_COUNT[0] += 1
    name = "EP_%d" % (_EP_COUNT[0] % 4096)      # a bounded number of module attributes
    globals()[name] = f
    return __name__ + "." + name


def _callable(case, rec):
    return _wrap(rec) if case.get("fn_wrap") else rec


def result_json(key, beh, vals=None):
    """What the callable of behaviour `beh` returns, for the model."""
    kind, m = beh["kind"], beh.get("m", 0)
    if vals is not None:
        return {"kind": "value", "vals": [enc(vals[0])]}
    bv = beh.get("vals")
    if kind == "ret":
        if bv is not None:
            ys = yielded(key, kind, m, bv)
            if ys is not None:      # the returned object can be iterated (and is no iterator): a list, tuple, dict, str, bytes, array
                return {"kind": "lst", "self": enc(dec(bv[0])), "vals": [enc(y) for y in ys]}
            return {"kind": "value", "vals": [enc(dec(bv[0]))]}
        return {"kind": "value", "vals": [enc(tok(key, 0))]}
    if kind == "gen":
        return {"kind": "gen", "vals": [enc(v) for v in yielded(key, kind, m, bv)]}
    if kind == "genraise":
        return {"kind": "genraise", "vals": [enc(v) for v in yielded(key, kind, m, bv)]}
    if kind in ("list", "tuple", "str", "nd"):
        return {"kind": "lst", "self": enc(result_of(key, kind, m)), "vals": [enc(v) for v in yielded(key, kind, m)]}
    return {"kind": "raises", "vals": []}


# --------------------------------------------------------------------------- fakes

class FakeBuf:
    def __init__(self, store, shmid, l, deser_fun, data=None):
        self.store = store
        self.shmid = shmid
        self.deser_fun = deser_fun
        self.l = l
        self.writing = data is None
        self.ba = bytearray(l) if data is None else bytearray(data)

    def view(self):
        return memoryview(self.ba)

    def close(self):
        if self.writing:
            self.store[self.shmid] = (bytes(self.ba), self.deser_fun)
            self.writing = False


class FakeShm:
    AllocatedBuffer = FakeBuf

    def __init__(self):
        self.store = {}

    def allocate(self, key, l, deser_fun, timeout_sec=60.0):
        return FakeBuf(self.store, key, l, deser_fun)

    def get(self, key, timeout_sec=60.0):
        if key not in self.store:
            raise KeyError("missing-input " + key)
        data, deser_fun = self.store[key]
        return FakeBuf(self.store, key, len(data), deser_fun, data)


class FakePckg:
    def extend(self, packages):
        return None


def classify(detail):
    """TaskFailure.detail (repr of the exception) -> small enum"""
    d = detail or ""
    if "schema declared more outputs" in d or "is shorter than argument" in d:
        return "fewer-results"
    if "produced more results" in d or "is longer than argument" in d:
        return "more-results"
    if "callable-raised" in d:
        return "callable-raised"
    if "missing-input" in d:
        return "missing-input"
    if "no output key" in d:
        return "no-outputs"
    if "is not an iterator" in d:
        return "not-iterator"
    if "is not iterable" in d:
        return "not-iterable"
    if "pickle" in d:
        return "unpicklable"
    return "other:" + d.split("(")[0]


# --------------------------------------------------------------------------- building

def _ser_nodes(graph):
    """Serialised nodes (what node2task sees), as JSON for the model, in dict order."""
    from earthkit.workflows.graph import serialise
    out = []
    for name, node in serialise(graph).items():
        payload = node.get("payload")
        if isinstance(payload, tuple):
            pj = {"args": [enc(a) for a in payload[1]], "kwargs": [[k, enc(v)] for k, v in payload[2].items()]}
        else:
            pj = None
        absent = "payload" not in node
        inputs = []
        for p, other in node["inputs"].items():
            if isinstance(other, str):
                inputs.append([p, other, None])
            else:
                inputs.append([p, other[0], other[1]])
        out.append({"name": name, "payload": pj, "payload_absent": absent, "inputs": inputs, "outputs": list(node["outputs"])})
    return out


def _declared_args(jargs):
    """args of the case language -> (python args, intent per slot: "ph" = the author placed an input there,
    "static" = the author wrote a value)"""
    args, intent = [], []
    for a in jargs:
        if isinstance(a, dict) and "ph" in a:
            args.append(a["ph"])
            intent.append("ph")
        else:
            args.append(dec(a))
            intent.append("static")
    return args, intent


def _spec_args(args, intent, ph, res):
    """what the node declares, slot by slot. A slot where the author placed input p receives p's upstream value.  A value
    the author wrote is received as written -- except that the payload format (func, args, kwargs) has no way to write a
    string equal to one of the node's input names other than as the reference to that input: such a slot IS a reference
    (counted, so that the distribution shows the collision is generated)."""
    out = []
    for a, it in zip(args, intent):
        if it == "ph" and a in ph:
            out.append(("up",) + ph[a])
        elif isinstance(a, str) and a in ph:
            res["static_string_equals_input_name"] = res.get("static_string_equals_input_name", 0) + 1
            out.append(("up",) + ph[a])
        else:
            out.append(("static", a))
    return out


def build(case):
    """-> dict(graph | None, job | None, lower_error, ser, spec, keys, order, fluent_nodes)
    spec: name -> dict(args=[("static", v) | ("up", parent, out)], kwargs={k: ...same...}, outs=[...], beh, key, wellformed)
    """
    from cascade.low.core import DatasetId, JobInstance, Task2TaskEdge, TaskDefinition, TaskInstance
    from earthkit.workflows.graph import Graph
    from earthkit.workflows.graph import Node as BaseNode
    from earthkit.workflows.graph import Output
    kind = case["kind"]
    res = {"graph": None, "job": None, "lower_error": None, "ser": None, "spec": {}, "order": [], "fluent_nodes": [], "coords": []}
    spec = res["spec"]
    if kind == "job":
        tasks = {}
        names = [t["name"] for t in case["tasks"]]
        for t in case["tasks"]:
            beh = t["beh"]
            f = _callable(case, Rec(t["name"], beh["kind"], beh.get("m", 0), beh.get("vals")))
            # how the task names its callable: a cloud-pickled `func` (what graph2job writes), an `entrypoint`
            # 'package.module.function' resolved by runner.run through resolve_callable, or both (func is preferred:
            # the entrypoint then names ANOTHER callable, which must not run)
            how = t.get("entry")
            func_s, entry_s = TaskDefinition.func_enc(f), ""
            if how == "entrypoint":
                func_s, entry_s = None, register_entrypoint(f)
            elif how == "both":
                entry_s = register_entrypoint(Rec(t["name"] + "!entrypoint-must-not-run", "ret", 1))
            definition = TaskDefinition(func=func_s, environment=[], entrypoint=entry_s, input_schema={},
                                        output_schema={o: "Any" for o in t["outs"]})
            tasks[t["name"]] = TaskInstance(definition=definition, static_input_kw={k: dec(v) for k, v in t["kw"]},
                                            static_input_ps={str(i): dec(v) for i, v in t["ps"]})
            spec[t["name"]] = {"ps": {i: ("static", dec(v)) for i, v in t["ps"]}, "kwargs": {k: ("static", dec(v)) for k, v in t["kw"]},
                               "outs": list(t["outs"]), "beh": beh, "key": t["name"], "wellformed": True, "parents": []}
        edges = []
        for s, o, d, ps, kw in case["edges"]:
            edges.append(Task2TaskEdge(source=DatasetId(names[s], o), sink_task=names[d], sink_input_ps=ps, sink_input_kw=kw))
            sp = spec[names[d]]
            sp["parents"].append(names[s])
            if ps is not None:
                if isinstance(sp["ps"].get(ps), tuple) and sp["ps"][ps][0] == "up":
                    sp["wellformed"] = False    # two edges into one parameter: no declared meaning
                sp["ps"][ps] = ("up", names[s], o)
            else:
                if kw in sp["kwargs"] and sp["kwargs"][kw][0] == "up":
                    sp["wellformed"] = False
                sp["kwargs"][kw] = ("up", names[s], o)
        for sp in spec.values():
            n = max(sp["ps"].keys(), default=-1) + 1
            sp["args"] = [sp["ps"].get(i, ("static", None)) for i in range(n)]
        res["job"] = JobInstance(tasks=tasks, edges=edges)
        if case.get("via_gateway"):
            res["job"], res["gateway"] = _via_gateway(res["job"])
            res["gateway_expect_file"] = GATEWAY_EXPECT[0]
        res["order"] = names
        return res

    from cascade.low.into import graph2job
    nodes = []
    if kind == "hand":
        callables = []
        for nd in case["nodes"]:
            beh = nd["beh"]
            if nd.get("share") is not None:
                # the very callable object of an earlier node (the case repeats its behaviour)
                f = callables[nd["share"]]
            else:
                f = _callable(case, Rec(nd["name"], beh["kind"], beh.get("m", 0), beh.get("vals")))
            callables.append(f)
            args, intent = _declared_args(nd["args"])
            kwargs = {k: dec(v) for k, v in nd["kwargs"]}
            payload = (f, args, kwargs) if nd["payload"] == "tuple" else (None if nd["payload"] == "none" else {"func": "nope"})
            ins = {}
            for p, pi, o in nd["inputs"]:
                ins[p] = nodes[pi] if o is None else Output(nodes[pi], o)
            node = BaseNode(nd["name"], outputs=nd["outputs"], payload=payload, **ins)
            nodes.append(node)
            ph = {p: (nodes[pi].name, "0" if o is None else o) for p, pi, o in nd["inputs"]}
            wf = nd["payload"] == "tuple" and all(any(is_str(a, p) for a in args) for p in ph)
            spec[node.name] = {"args": _spec_args(args, intent, ph, res),
                               "kwargs": {k: ("static", v) for k, v in kwargs.items()},
                               "outs": list(nd["outputs"]) if nd["outputs"] else ["0"], "beh": beh, "key": f.key, "wellformed": wf,
                               "parents": [x[0] for x in ph.values()]}
    elif kind == "fluent":
        from earthkit.workflows import fluent
        payload_objs, keys_of = [], []
        for nd in case["nodes"]:
            beh = nd["beh"]
            f = _callable(case, Rec(nd["name"], beh["kind"], beh.get("m", 0), beh.get("vals")))
            args, intent = _declared_args(nd["args"])
            kwargs = {k: dec(v) for k, v in nd["kwargs"]}
            ins = [nodes[pi] if o is None else nodes[pi].get_output(o) for pi, o in nd["inputs"]]
            arg_ins = ins[0] if (nd.get("single") and len(ins) == 1) else ins
            if nd.get("reuse") is not None:
                # the very Payload object an earlier node was built from (the case repeats its args/kwargs/beh):
                # what the constructor did for that node must not show here
                pobj = payload_objs[nd["reuse"]]
            else:
                pobj = fluent.Payload(f, list(args), dict(kwargs))
            payload_objs.append(pobj)
            keys_of.append(keys_of[nd["reuse"]] if nd.get("reuse") is not None else nd["name"])
            try:
                node = fluent.Node(pobj, arg_ins, num_outputs=nd["num_outputs"], name=nd["name"])
            except Exception as e:    # the generator only writes nodes the fluent API documents
                res["lower_error"] = "construct:" + type(e).__name__
                res["construct_failed"] = {"node": nd["name"], "args": [enc(a) for a in args], "n_inputs": len(ins)}
                res["spec"].clear()
                return res
            nodes.append(node)
            # fluent semantics from its documentation/comment: "Insert inputs not already present in args"
            missing = ["input%d" % i for i in range(len(ins)) if not any(is_str(a, "input%d" % i) for a in args)]
            declared, dintent = list(args) + missing, list(intent) + ["ph"] * len(missing)
            ph = {"input%d" % i: (nodes[pi].name, "0" if o is None else o) for i, (pi, o) in enumerate(nd["inputs"])}
            spec[node.name] = {"args": _spec_args(declared, dintent, ph, res),
                               "kwargs": {k: ("static", v) for k, v in kwargs.items()},
                               "outs": [str(i) for i in range(nd["num_outputs"])], "beh": beh, "key": keys_of[-1], "wellformed": True,
                               "parents": [x[0] for x in ph.values()]}
            res["fluent_nodes"].append({"name": node.name, "args": [enc(a) for a in args], "n_inputs": len(ins), "num_outputs": nd["num_outputs"]})
    elif kind == "prog":
        import numpy as np
        from earthkit.workflows import fluent
        s, coords, ms = case["srcs"], case["coords"], case["m"]
        n = len(coords)
        gens = np.empty((s,), dtype=object)
        gvals = case.get("gvals") or [None] * s      # what source i yields instead of opaque tokens (ms[i] values)
        for i in range(s):
            gens[i] = Rec("g%d" % i, "gen", ms[i], gvals[i])
        act = fluent.from_source(gens, yields=("y", list(coords)), dims=["x"], coords={"x": list(range(s))})
        cons = np.empty((s, n), dtype=object)
        for i in range(s):
            for j in range(n):
                cons[i, j] = Rec("c%d_%d" % (i, j), "ret", 1)
        act2 = act.map(cons)
        gnames = {}
        res["yield_refs"] = []      # [generator node, N, position k, (parent, output name) of the real array element at LABEL coords[k]]
        for i in range(s):
            outp = act.nodes.sel(x=i, y=coords[0]).item()
            gnames[i] = outp.parent.name
            for k in range(n):
                el = act.nodes.sel(x=i, y=coords[k]).item()
                res["yield_refs"].append([gnames[i], n, k, [getattr(getattr(el, "parent", None), "name", None), getattr(el, "name", None)]])
            spec[outp.parent.name] = {"args": [], "kwargs": {}, "outs": [str(k) for k in range(n)],
                                      "beh": {"kind": "gen", "m": ms[i]} if gvals[i] is None else {"kind": "gen", "m": ms[i], "vals": gvals[i]},
                                      "key": "g%d" % i, "wellformed": True, "parents": []}
        # the author declared: the k-th yielded value has coordinate coords[k]
        for i in range(s):
            for j in range(n):
                node = act2.nodes.sel(x=i, y=coords[j]).item()
                # the author put payload cons[i, j] at position (i, j): the node found at coordinate (x=i, y=coords[j]) is to
                # run THAT callable (the expectation does not look at what the node carries)
                spec[node.name] = {"args": [("up", gnames[i], "@%d" % j)], "kwargs": {}, "outs": ["0"], "beh": {"kind": "ret", "m": 1},
                                   "key": "c%d_%d" % (i, j), "wellformed": True, "parents": [gnames[i]]}
                res["coords"].append([i, coords[j], node.name])
        res["graph"] = act2.graph()
    elif kind == "fprog":
        try:
            _build_fprog(case, res)
        except Exception as e:      # the generator only writes programs the fluent documentation allows
            res["lower_error"] = "program:" + type(e).__name__
            res["spec"].clear()
            return res
    if kind in ("hand", "fluent"):
        consumed = set()
        for nd in nodes:
            for src in nd.inputs.values():
                consumed.add(src.parent.name)
        sinks = [nd for nd in nodes if nd.name not in consumed]
        res["graph"] = Graph(sinks)
    res["ser"] = _ser_nodes(res["graph"])
    try:
        res["job"] = graph2job(res["graph"])
        # lowering reads the graph: lowering the same graph object again gives the same job
        try:
            again = canon_job(graph2job(res["graph"]))
        except Exception as e:
            again = {"error": type(e).__name__}
        if again != canon_job(res["job"]):
            res["relower"] = again
    except KeyError:
        res["lower_error"] = "keyError"
    except NotImplementedError:
        res["lower_error"] = "notImplemented"
    except Exception as e:   # unexpected: a result to compare, not a crash
        res["lower_error"] = "other:" + type(e).__name__
    if case.get("via_gateway") and res.get("job") is not None:
        res["job"], res["gateway"] = _via_gateway(res["job"])
        res["gateway_expect_file"] = GATEWAY_EXPECT[0]
    # topological order = declaration order for hand/fluent; sources first for prog
    if kind == "fprog":
        pass
    elif kind == "prog":
        res["order"] = [n for n in spec if spec[n]["beh"]["kind"] == "gen"] + [n for n in spec if spec[n]["beh"]["kind"] != "gen"]
    else:
        res["order"] = [nd.name for nd in nodes]
    return res


GATEWAY_EXPECT = [None]     # whether the last job given to _via_gateway had only JSON-native static values (then it MUST travel as a file)


def _via_gateway(job):
    """the job instance as a spawned controller gets it: written by the real gateway `router._spawn_local` (Popen captured)
    and read back by the real `cascade.benchmarks.__main__.get_job`. Jobs the writer cannot encode (non-JSON statics) stay
    as they are. Returns (job, how)."""
    import os
    import uuid
    import cascade.gateway.router as router
    from cascade.gateway.api import JobSpec
    import cascade.benchmarks.__main__ as bm
    argv = []

    def native(v):
        # values JSON writes and reads back unchanged
        if v is None or isinstance(v, (bool, int, float, str)):
            return True
        if isinstance(v, list):
            return all(native(x) for x in v)
        if isinstance(v, dict):
            return all(isinstance(k, str) and native(x) for k, x in v.items())
        return False
    try:
        expect_file = all(native(v) for t in job.tasks.values() for v in list(t.static_input_kw.values()) + list(t.static_input_ps.values()))
    except Exception:
        expect_file = False
    GATEWAY_EXPECT[0] = expect_file

    class _Popen:
        def __init__(self, a, **kw):
            argv.extend(a)
    jid = "ekwc10" + uuid.uuid4().hex[:10]
    saved = router.subprocess.Popen
    router.subprocess.Popen = _Popen
    path = None
    try:
        try:
            router._spawn_local(JobSpec(benchmark_name=None, envvars={}, job_instance=job, workers_per_host=1, hosts=1, use_slurm=False), "tcp://x:1", jid)
        except Exception as e:
            return job, "unencodable:" + type(e).__name__
        path = argv[argv.index("--instance") + 1]
        try:
            job2 = bm.get_job(None, path)
        except Exception as e:
            return job, "unreadable:" + type(e).__name__
        # JSON alters some static values (tuple -> list, ...): that is C17's matter (known findings there); such a job
        # keeps travelling in memory. Everything else (task set, edges, definitions incl. the ORDER of output_schema) counts.
        def statics(j):
            return {t: (repr(sorted(i.static_input_kw.items(), key=repr)), repr(sorted(i.static_input_ps.items(), key=repr))) for t, i in j.tasks.items()}
        try:
            if statics(job2) != statics(job):
                return job, "statics-altered-by-json"
        except Exception:
            return job, "statics-not-comparable"
        return job2, "file"
    finally:
        router.subprocess.Popen = saved
        for pth in (path, f"/tmp/{jid}.json"):
            if pth and os.path.exists(pth):
                os.unlink(pth)


def _build_fprog(case, res):
    """A fluent program over an array of sources: map / reduce (optionally batched) steps that share Payload objects.

    case: dims [n] | [n1, n2]; payloads [{"wrap": "payload"|"callable"|"partial", "args": [...], "kwargs": [...]}];
          steps [{"op": "map", "p": i} | {"op": "reduce", "p": i, "dim": "x"|"y", "batch": b}]
    What is DECLARED for a node of the resulting graph: the inputs the node has in the graph, and the arguments the
    author wrote into the payload it was built from, completed by the inputs the author did not place ("Insert inputs
    not already present in args").  An 'inputK' string with K >= number of inputs is a string the author wrote.
    """
    import functools
    import graphlib

    import numpy as np
    from earthkit.workflows import fluent
    from earthkit.workflows.graph import serialise
    spec = res["spec"]
    dims = list(case["dims"])
    dnames = ["x", "y"][:len(dims)]
    srcs = np.empty(tuple(dims), dtype=object)
    for idx in np.ndindex(*dims):
        srcs[idx] = Rec("s" + "_".join(map(str, idx)), "ret", 1)
    act = fluent.from_source(srcs, dims=dnames, coords={d: list(range(n)) for d, n in zip(dnames, dims)})
    pobjs, user = [], {}
    for pi, p in enumerate(case["payloads"]):
        f = Rec("p%d" % pi, "fn", 1)
        f.batchable = True
        args, intent = _declared_args(p["args"])
        kwargs = {k: dec(v) for k, v in p["kwargs"]}
        user["p%d" % pi] = (args, kwargs, intent)
        if p["wrap"] == "payload":
            pobjs.append(fluent.Payload(f, list(args), dict(kwargs)))
        elif p["wrap"] == "partial":
            pobjs.append(functools.partial(f, *args, **kwargs))
        else:
            pobjs.append(f)
    for st in case["steps"]:
        if st["op"] == "map":
            act = act.map(pobjs[st["p"]])
        else:
            act = act.reduce(pobjs[st["p"]], dim=st["dim"], batch_size=st["batch"])
    graph = act.graph()
    res["graph"] = graph
    ser = serialise(graph)
    parents_of = {}
    for name, node in ser.items():
        ins = node["inputs"]
        k = len(ins)
        refs = []
        for i in range(k):
            other = ins.get("input%d" % i)
            if other is None:
                raise ValueError("node %s has %d inputs but none named input%d" % (name, k, i))
            refs.append((other, "0") if isinstance(other, str) else (other[0], other[1]))
        key = node["payload"][0].key
        args, kwargs, intent = user.get(key, ([], {}, []))
        missing = ["input%d" % i for i in range(k) if not any(is_str(a, "input%d" % i) for a in args)]
        declared, dintent = list(args) + missing, list(intent) + ["ph"] * len(missing)
        ph = {"input%d" % i: refs[i] for i in range(k)}
        spec[name] = {"args": _spec_args(declared, dintent, ph, res),
                      "kwargs": {kk: ("static", v) for kk, v in kwargs.items()}, "outs": ["0"], "beh": {"kind": "ret", "m": 1},
                      "key": key, "wellformed": True, "parents": [r[0] for r in refs]}
        parents_of[name] = sorted({r[0] for r in refs})
        res["fluent_nodes"].append({"name": name, "args": [enc(a) for a in args], "n_inputs": k, "num_outputs": 1})
    order = list(graphlib.TopologicalSorter({n: parents_of[n] for n in sorted(parents_of)}).static_order())
    res["order"] = order
    # the value each node denotes (a source: its token; otherwise the callable applied to the declared arguments)
    for name in order:
        sp = spec[name]
        if sp["key"] in user:
            vals = [spec[a[1]]["vals"][0] if a[0] == "up" else a[1] for a in sp["args"]]
            sp["vals"] = [fn_tok(sp["key"], vals)]
        else:
            sp["vals"] = [tok(sp["key"], 0)]
    # what the author of the program expects of each final node: every source of its coordinates, exactly once
    finals = []
    left = list(act.nodes.dims)
    for idx in np.ndindex(*act.nodes.shape):
        item = act.nodes.data[idx]
        fixed = {d: int(act.nodes.coords[d].values[i]) for d, i in zip(left, idx)}
        want = []
        for sidx in np.ndindex(*dims):
            if all(sidx[dnames.index(d)] == v for d, v in fixed.items()):
                want.append("s" + "_".join(map(str, sidx)) + "#0")
        finals.append([item.name if not hasattr(item, "parent") else item.parent.name, sorted(want)])
    res["finals"] = finals


def canon_job(job):
    tasks = []
    for name, t in job.tasks.items():
        tasks.append({"name": name,
                      "ps": [[int(k), enc(v)] for k, v in t.static_input_ps.items()],
                      "kw": [[k, enc(v)] for k, v in t.static_input_kw.items()],
                      "in_schema": list(t.definition.input_schema.keys()),
                      "out_schema": list(t.definition.output_schema.keys())})
    edges = [[e.source.task, e.source.output, e.sink_task, e.sink_input_ps, e.sink_input_kw] for e in job.edges]
    return {"tasks": tasks, "edges": edges}


# --------------------------------------------------------------------------- running

def ds_key(t, o):
    return t + "\u0000" + o


class Runner:
    """Runs TaskSequences of a job through the real execute_sequence (-> runner.run -> memory.Memory)."""

    def __init__(self, job, mode):
        import cascade.executor.runner.entrypoint as entrypoint
        import cascade.executor.runner.memory as memory
        from cascade.low.core import DatasetId, WorkerId
        from cascade.low.views import param_source
        self.entrypoint = entrypoint
        self.memory = memory
        self.job = job
        self.mode = mode
        self.worker = WorkerId("h0", "w0")
        self.shm = FakeShm()
        self.events = []
        self.handled = []
        self.kept = []          # (task, output, what Memory.local holds under that dataset right after Memory.handle)
        self.started = []       # (task id, what Memory.provide could find when the task started)
        self._saved = (memory.shm_client, memory.callback, entrypoint.callback, entrypoint.run)
        memory.shm_client = self.shm
        memory.callback = lambda addr, msg: self.events.append(msg)
        entrypoint.callback = lambda addr, msg: self.events.append(msg)
        outer = self
        real_run = entrypoint.run

        def run_recorded(taskId, executionContext, mem):
            # the real runner.run, with a note of which task the recording callables are called for
            outer.started.append((taskId, outer.available()))
            CURRENT[0] = taskId
            try:
                return real_run(taskId, executionContext, mem)
            finally:
                CURRENT[0] = None

        entrypoint.run = run_recorded

        class RecMemory(memory.Memory):
            def handle(self, outputId, outputSchema, outputValue, isPublish):
                outer.handled.append([outputId.task, outputId.output, enc(outputValue), bool(isPublish)])
                try:
                    return super().handle(outputId, outputSchema, outputValue, isPublish)
                finally:
                    outer.kept.append([outputId.task, outputId.output, enc(getattr(self, "local", {}).get(outputId, _MISSING))])

        self.RecMemory = RecMemory
        self.mem = RecMemory("cb", self.worker)
        self.shmids = {}
        for name, t in job.tasks.items():
            for o in t.definition.output_schema.keys():
                self.shmids[memory.ds2shmid(DatasetId(name, o))] = (name, o)
        try:
            self.ctx = entrypoint.RunnerContext(workerId=self.worker, job=job, callback="cb", param_source=param_source(job.edges))
            self.ctx_error = None
        except Exception as e:
            self.ctx = None
            self.ctx_error = "type-error" if isinstance(e, TypeError) else "other:" + type(e).__name__

    def close(self):
        self.memory.shm_client, self.memory.callback, self.entrypoint.callback, self.entrypoint.run = self._saved

    def snapshot(self):
        """the worker's memory: local dict, keys of the held buffers, shared memory (decoded with the real des_output)"""
        import cascade.executor.serde as serde
        loc = sorted(([ds.task, ds.output, enc(v)] for ds, v in self.mem.local.items()), key=lambda e: ds_key(e[0], e[1]))
        bufs = sorted(([ds.task, ds.output] for ds in self.mem.bufs), key=lambda e: ds_key(e[0], e[1]))
        shm = []
        cache = self.__dict__.setdefault("_shm_dec", {})
        for sid, (data, fun) in self.shm.store.items():
            t, o = self.shmids.get(sid, ("?" + sid, ""))
            hit = cache.get(sid)
            if hit is None or hit[0] is not data:      # decode every stored byte string once
                hit = cache[sid] = (data, enc(serde.des_output(data, "Any", fun)))
            shm.append([t, o, hit[1]])
        shm.sort(key=lambda e: ds_key(e[0], e[1]))
        return {"loc": loc, "bufs": bufs, "shm": shm}

    def available(self):
        """what Memory.provide can find: the worker's local dict, else the fake shared memory: [[task, out, val]]"""
        snap = self.snapshot()
        out, seen = [], set()
        for t, o, v in snap["loc"] + snap["shm"]:
            if (t, o) not in seen:
                seen.add((t, o))
                out.append([t, o, v])
        return out

    def stored(self, task, output):
        import cascade.executor.serde as serde
        from cascade.low.core import DatasetId
        sid = self.memory.ds2shmid(DatasetId(task, output))
        if sid not in self.shm.store:
            return _MISSING
        data, fun = self.shm.store[sid]
        return serde.des_output(data, "Any", fun)

    def memop(self, kind, task, output):
        """what the worker's loop does between sequences: `provide` (a DatasetPublished for an awaited dataset) or `pop`
        (DatasetPurge). -> dict(kind, ds, before, after, result)"""
        from cascade.low.core import DatasetId
        ds = DatasetId(task, output)
        before = self.snapshot()
        try:
            if kind == "pop":
                self.mem.pop(ds)
                result = None
            else:
                result = enc(self.mem.provide(ds, "Any"))
        except KeyError as e:
            result = "error:missing-input" if "missing-input" in str(e) else "error:other:KeyError"
        except Exception as e:
            result = "error:" + ("corrupted" if "internal data corruption" in str(e) else "other:" + type(e).__name__)
        return {"kind": kind, "ds": [task, output], "before": before, "after": self.snapshot(), "result": result}

    def run_seq(self, tids, publish):
        """one TaskSequence. publish: list of [task, output]. -> dict(before, after, failed, tasks: tid -> dict(started,
        avail, received, handled, error, events, completion))"""
        from cascade.controller.notify import is_last_output_of
        from cascade.executor.msg import DatasetPublished, TaskFailure, TaskSequence
        from cascade.low.core import DatasetId
        if self.mode == "fresh":
            self.mem = self.RecMemory("cb", self.worker)
        for t in tids:
            RECORD.pop(t, None)
        self.events.clear()
        self.handled.clear()
        self.kept.clear()
        self.started.clear()
        before = self.snapshot()
        crash = None
        if self.ctx is None:
            crash = self.ctx_error
        else:
            ts = TaskSequence(worker=self.worker, tasks=list(tids), publish={DatasetId(t, o) for t, o in publish})
            try:
                self.entrypoint.execute_sequence(ts, self.mem, FakePckg(), self.ctx)
            except BaseException as e:   # execute_sequence must report, never raise
                crash = "crash:" + type(e).__name__
        after = self.snapshot()
        fails = [e for e in self.events if isinstance(e, TaskFailure)]
        failed = None
        if crash:
            failed = [None, crash]
        elif fails:
            failed = [fails[0].task, classify(fails[0].detail)]
        started = dict(self.started)
        tasks = {}
        for tid in tids:
            calls = RECORD.get(tid, [])
            received = None
            if calls:
                key, a, k = calls[0]
                received = {"key": key, "args": [enc(x) for x in a], "kwargs": [[kk, enc(v)] for kk, v in k.items()], "calls": len(calls),
                            "all_same": all(c[0] == key and [enc(x) for x in c[1]] == [enc(x) for x in a] and
                                            [[kk, enc(v)] for kk, v in c[2].items()] == [[kk, enc(v)] for kk, v in k.items()] for c in calls)}
            pubs = [e for e in self.events if isinstance(e, DatasetPublished) and e.ds.task == tid]
            completion = []
            for e in pubs:
                try:
                    completion.append(bool(is_last_output_of(e.ds, self.job)))
                except Exception as ex:
                    completion.append("error:" + type(ex).__name__)
            error = None
            if failed is not None and (failed[0] == tid or (failed[0] is None and tid not in started)):
                error = failed[1]
            tasks[tid] = {"started": tid in started, "avail": started.get(tid), "received": received,
                          "complete": all_published_real(self.job, tid, [e.ds.output for e in pubs]),
                          "handled": [h[1:] for h in self.handled if h[0] == tid],
                          "kept": [h[1:] for h in self.kept if h[0] == tid], "error": error,
                          "events": [[e.ds.task, e.ds.output] for e in pubs], "completion": completion}
        return {"tids": list(tids), "publish": [list(p) for p in publish], "before": before, "after": after, "failed": failed,
                "nfailures": len(fails), "tasks": tasks}


_MISSING = object()


def all_published_real(job, task, notices):
    """the answers of the REAL controller.notify.all_outputs_published (the rule by which notify decides that a task is
    complete) to the DatasetPublished notices `notices` (output names) of one task, delivered in this order, starting from
    a controller state that has seen none of them"""
    import types
    from cascade.controller.notify import all_outputs_published
    from cascade.low.core import DatasetId
    state = types.SimpleNamespace(published_outputs={})
    out = []
    for o in notices:
        try:
            out.append(bool(all_outputs_published(state, DatasetId(task, o), job)))
        except Exception as e:
            out.append("error:" + type(e).__name__)
    return out


def is_last_real(job, task, out):
    from cascade.controller.notify import is_last_output_of
    from cascade.low.core import DatasetId
    try:
        return bool(is_last_output_of(DatasetId(task, out), job))
    except Exception as e:
        return "error:" + type(e).__name__
