"""C06 helpers: FakeNet (in-memory zmq sockets with a harness-controlled network), a fake clock
replacing `comms.time`, coroutine threads that run the REAL endpoint loops one iteration at a
time, and shell objects (object.__new__) for Bridge and Executor.

Data path: a pickled DatasetTransmitPayload handed to a PUSH socket by `ReliableSender.send` / `maybe_retry` is framed by the
REAL `comms.send_data` (Syn + header + value), so that payload traffic - first copy, network duplicate, retransmission - reaches
the receiving Listener in the three-frame shape inside ordinary histories.

Nothing here touches /repo: module globals of cascade.executor.comms / bridge are replaced for
the duration of a `installed()` block and restored afterwards.
"""
from __future__ import annotations

import contextlib
import pickle
import threading
import types


# --------------------------------------------------------------------------- fake network

class FakeNet:
    """Packets emitted by PUSH sockets wait in `net` until the harness moves them."""

    def __init__(self):
        self.net = []        # [(dst_addr, (frame bytes, ...))] in emission order
        self.inbox = {}      # bound address -> FakePull
        self.sunk = 0        # packets to addresses nobody listens on (worker ipc, data server)
        self.emitted = []    # log of everything ever emitted to a bound address

    def emit(self, addr, frames):
        frames = tuple(bytes(f) for f in frames)
        if addr in self.inbox:
            self.net.append((addr, frames))
            self.emitted.append((addr, frames))
        else:
            self.sunk += 1

    def arrive(self, k, keep=False):
        addr, frames = self.net[k] if keep else self.net.pop(k)
        self.inbox[addr].queue.append(frames)
        return addr

    def drop(self, k):
        return self.net.pop(k)[0]


class FakePush:
    def __init__(self, sim, addr):
        self.sim, self.addr = sim, addr

    def send_multipart(self, frames):
        frames = tuple(frames)
        if len(frames) == 2 and b"DatasetTransmitPayload" in bytes(frames[1]):
            # the data channel: a DatasetTransmitPayload is not pickled into one frame, it travels as
            # Syn + header + value — the REAL `comms.send_data` does the framing (it opens its own socket,
            # i.e. another FakePush to the same address, and sends three frames)
            try:
                syn = pickle.loads(frames[0])
                m = pickle.loads(frames[1])
            except Exception:  # noqa: BLE001
                syn = m = None
            msg = self.sim.msg
            if isinstance(syn, msg.Syn) and isinstance(m, msg.DatasetTransmitPayload):
                self.sim.comms.send_data(self.addr, m, syn)
                return
        self.sim.net.emit(self.addr, frames)

    def send(self, b):
        self.sim.net.emit(self.addr, (b,))

    def set(self, *a):
        pass

    def connect(self, a):
        pass


class FakePull:
    def __init__(self, sim):
        self.sim = sim
        self.queue = []

    def bind(self, addr):
        self.addr = addr
        self.sim.net.inbox[addr] = self

    def recv_multipart(self):
        owner = getattr(self, "owner", None)
        if owner is not None:
            owner.acts.append(["collect"])      # one `_recv_one` took a frame list off the queue
        return list(self.queue.pop(0))


class FakeCtx:
    def __init__(self, sim):
        self.sim = sim

    def socket(self, kind):
        return FakePull(self.sim)


class _Kill(BaseException):
    """Unwinds a coroutine thread at the end of a case (not an `Exception`: the loops' own
    `except Exception` clauses do not swallow it)."""


class Coro:
    """Runs `fn` in a thread with strict hand-off: the thread only runs inside `start()`/`resume()`.
    Every blocking poll (timeout != 0) hands control back to the harness; `wait` then holds the
    timeout the loop is blocked with (None = no timeout: only an arriving packet wakes it).
    `start()` runs up to the first blocking poll; one `resume()` == one iteration of the loop
    that `fn` executes (from the return of one blocking poll to the entry of the next)."""

    NOT_BLOCKED = object()

    def __init__(self, sim, fn):
        self.sim, self.fn = sim, fn
        self.done = False
        self.result = None
        self.exc = None
        self.kill = False
        self.started = False
        self.wait = Coro.NOT_BLOCKED
        self.go = threading.Semaphore(0)
        self.back = threading.Semaphore(0)
        self.thread = threading.Thread(target=self._run, daemon=True)

    def _run(self):
        self.go.acquire()
        try:
            if self.kill:
                raise _Kill()
            self.result = self.fn()
        except _Kill:
            pass
        except BaseException as e:  # noqa: BLE001 - the result to compare
            self.exc = e
        self.done = True
        self.wait = Coro.NOT_BLOCKED
        self.back.release()

    def _switch(self):
        self.sim.active = self
        self.go.release()
        self.back.acquire()
        self.sim.active = None

    def start(self):
        if not self.started:
            self.started = True
            self.thread.start()
            self._switch()

    def resume(self):
        if self.done:
            return
        if not self.started:
            self.start()
            if self.done:
                return
        self._switch()

    def block(self, timeout):
        """in the coroutine thread, at a blocking poll"""
        self.wait = timeout
        self.back.release()
        self.go.acquire()
        self.wait = Coro.NOT_BLOCKED
        if self.kill:
            raise _Kill()

    def stop(self):
        if self.started and not self.done:
            self.kill = True
            self._switch()
        if self.started:
            self.thread.join(timeout=5)


class FakePoller:
    sim = None  # set per installation (class attribute of a per-sim subclass)

    def register(self, sock, flags=None):
        self.sock = sock

    def poll(self, timeout=None):
        co = self.sim.active
        if timeout != 0:
            owner = getattr(self, "owner", None)
            if owner is not None:
                # the timeout every blocking poll is entered with (translator cross-check)
                owner.poll_timeouts.append((owner.loop, timeout))
            if co is not None and threading.current_thread() is co.thread:
                # `timeout=None` blocks until a packet arrives; a finite timeout until the harness lets time pass
                co.block(timeout)
        return [(self.sock, 1)] if self.sock.queue else []


class FakeClock:
    """Stands in for the `time` module inside comms/bridge: one clock per endpoint (ns)."""

    def __init__(self, sim):
        self.sim = sim

    def time_ns(self):
        return self.sim.clock.get(self.sim.cur, 0)

    def time(self):
        return self.time_ns() / 1e9

    def monotonic_ns(self):
        return self.time_ns()

    def sleep(self, s):
        pass


class LoggingDict(dict):
    """`sender.hosts` with `pop` logged (the Bridge removes hosts on ExecutorExit/Failure)."""

    def __init__(self, log, intern):
        super().__init__()
        self._log, self._intern = log, intern
        self.popped = []

    def pop(self, k, *a):
        self._log.append(["pop", self._intern(k)])
        self.popped.append(k)
        return super().pop(k, *a)


class Batch(list):
    """What the wrapped `recv_messages` returns: a list whose iteration tells the endpoint which
    messages the loop body actually took (`for m in recv_messages(...)`)."""

    def __init__(self, items, ep):
        super().__init__(items)
        self._ep = ep
        self.taken = 0

    def __iter__(self):
        for i in range(len(self)):
            m = list.__getitem__(self, i)
            self.taken = i + 1
            self._ep.on_take(m)
            yield m

    def untaken(self):
        return [list.__getitem__(self, i) for i in range(self.taken, len(self))]


class InlinePool:
    """stands in for DataServer.ds_proc_tp: the submitted job (send_payload / store_payload: shm reads and writes, the data
    server's own send_data - C07's subject) is NOT run; the Future is done at once, so `maybe_clean` / `wait` never block"""

    def __init__(self, *a, **k):
        self.submitted = []

    def submit(self, fn, *args):
        from concurrent.futures import Future
        self.submitted.append((getattr(fn, "__name__", "?"), args))
        f = Future()
        f.set_result(1)
        return f

    def shutdown(self, *a, **k):
        pass


class StubProc:
    exitcode = None
    pid = 1

    def is_alive(self):
        return False

    def join(self, *a):
        pass

    def kill(self):
        pass


# --------------------------------------------------------------------------- simulation

class Sim:
    """One system: endpoints with real Listener/ReliableSender (+ real Bridge/Executor shells)."""

    def __init__(self, comms, bridge_mod, executor_mod, msgmod):
        self.comms, self.bridge_mod, self.executor_mod, self.msg = comms, bridge_mod, executor_mod, msgmod
        self.net = FakeNet()
        self.active = None
        self.cur = 0
        self.clock = {}
        self.eps = []
        self.hostids = {}     # host name -> number
        self.msgids = {}      # repr(message) -> number (non-generated messages get ids >= 1000)
        self.hdrids = {}
        self.junkids = {}

    # ---- installation of the fakes into the real modules
    @contextlib.contextmanager
    def installed(self, max_retries=None):
        comms, bridge_mod = self.comms, self.bridge_mod
        import cascade.executor.data_server as ds_mod
        saved_ds = (ds_mod.time_ns, ds_mod.shm_client.purge, ds_mod.callback)
        saved = (comms.get_socket, comms.get_context, comms.zmq, comms.time, bridge_mod.time,
                 comms.max_retries_per_message)
        sim = self
        poller_cls = type("FakePollerBound", (FakePoller,), {"sim": sim})
        real_zmq = comms.zmq

        class ZmqShim(types.SimpleNamespace):
            def __getattr__(self, k):
                return getattr(real_zmq, k)
        comms.get_socket = lambda addr: FakePush(sim, addr)
        comms.get_context = lambda: FakeCtx(sim)
        comms.zmq = ZmqShim(Poller=poller_cls)
        clock = FakeClock(sim)
        comms.time = clock
        bridge_mod.time = clock
        ds_mod.time_ns = clock.time_ns
        ds_mod.shm_client.purge = lambda key: None      # the shm side of a purge is C07/C08's subject
        if max_retries is not None:
            comms.max_retries_per_message = max_retries
        try:
            yield self
        finally:
            for e in self.eps:
                if e.coro is not None:
                    e.coro.stop()
            (comms.get_socket, comms.get_context, comms.zmq, comms.time, bridge_mod.time,
             comms.max_retries_per_message) = saved
            ds_mod.time_ns, ds_mod.shm_client.purge, ds_mod.callback = saved_ds

    # ---- interning
    @staticmethod
    def addr(a):
        return f"tcp://ep{a}"

    @staticmethod
    def addr_id(s):
        try:
            return int(str(s).rsplit("ep", 1)[1])
        except Exception:  # noqa: BLE001
            return 999

    @staticmethod
    def host_id(name):
        """host names of a case follow a fixed scheme: controller, h<i>, data.h<i>, p<i>"""
        name = str(name)
        if name == "controller":
            return 0
        if name.startswith("data.h") and name[6:].isdigit():
            return 100 + int(name[6:])
        if name[:1] in ("h", "p") and name[1:].isdigit():
            return int(name[1:])
        return 999

    def msg_id(self, m):
        r = repr(m)
        return self.msgids.setdefault(r, 1000 + len(self.msgids))

    def frame_json(self, b):
        msg = self.msg
        try:
            o = pickle.loads(b)
        except Exception:  # noqa: BLE001
            return ["junk", self.junkids.setdefault(bytes(b), len(self.junkids))]
        if isinstance(o, msg.Syn):
            return ["syn", o.idx, self.addr_id(o.addr)]
        if isinstance(o, msg.Ack):
            return ["ack", o.idx]
        if isinstance(o, msg.DatasetTransmitPayloadHeader):
            return ["hdr", self.hdrids.setdefault(repr(o), o.confirm_idx)]
        return ["msg", self.msg_id(o)]

    def parsed_json(self, m):
        msg = self.msg
        if isinstance(m, msg.Ack):
            return ["ack", m.idx]
        if isinstance(m, msg.DatasetTransmitPayload):
            return ["payload", self.hdrids.setdefault(repr(m.header), m.header.confirm_idx), self.frame_json(m.value)]
        return ["msg", self.msg_id(m)]


class Ep:
    """One endpoint: real Listener + real ReliableSender, optionally inside a Bridge/Executor shell."""

    def __init__(self, sim, a, kind, grace_ms, hosts):
        self.sim, self.a, self.kind = sim, a, kind
        comms = sim.comms
        sim.cur = a
        sim.clock.setdefault(a, 0)
        self.acts = []            # actions observed during the current op, in order (Drive/C06.lean `actStep`)
        self.sent = []            # (host name, repr(msg)) accepted by sender.send during the current op
        self.accepted = []        # non-Ack messages returned by `_recv_one` during the current op
        self.handled = []         # messages the loop body took / recv_events returned during the current op
        self.taken_msgs = []      # every message the loop body took during the current op (Acks included)
        self.staged = []          # Events taken inside Bridge.recv_events, not yet returned (spans ops)
        self.collecting = None    # non-Ack messages accepted inside the recv_messages call in progress
        self.batch = None         # the Batch the loop is iterating over
        self.discarded = 0        # accepted messages discarded during the current op
        self.aborted = None       # why the current op's iteration was abandoned
        self.poll_timeouts = []   # (loop, timeout) of every blocking poll
        self.fed = 0              # sender.ack calls during the current op
        self.raised = False
        self.errors = 0
        self.loop = "harness"
        self.coro = None
        self.coro_fn = None
        self.listener = comms.Listener(sim.addr(a))
        self.listener.poller.owner = self
        self.listener.socket.owner = self
        self.sender = comms.ReliableSender(self.listener.address, grace_ms)
        hd = LoggingDict(self.acts, sim.host_id)
        self.sender.hosts = hd
        for name, ad in hosts:
            self.sender.add_host(name, sim.addr(ad))
        self._wrap()
        self.obj = None
        if kind == "bridge":
            self._mk_bridge(hosts)
        elif kind == "executor":
            self._mk_executor()
        elif kind == "dataserver":
            self._mk_dataserver()

    # -- observation wrappers (instance attributes shadowing the methods; no repo change)
    def _wrap(self):
        ep = self
        s, l = self.sender, self.listener
        real_send, real_retry, real_ack = s.send, s.maybe_retry, s.ack
        real_recv, real_one = l.recv_messages, l._recv_one

        def send(host, m):
            ep.acts.append(["send", ep.sim.host_id(host), ep.sim.msg_id(m)])
            w0 = len(ep.sim.net.emitted)
            s0 = ep.sim.net.sunk
            r = real_send(host, m)
            # accepted (did not raise); the idx it travels under is read off the Syn frame it put on the wire
            idx = None
            for _ad, fr in ep.sim.net.emitted[w0:]:
                try:
                    y = pickle.loads(fr[0])
                    if isinstance(y, ep.sim.msg.Syn):
                        idx = y.idx
                except Exception:  # noqa: BLE001
                    pass
            ep.sent.append((host, repr(m), idx))
            return r

        def maybe_retry():
            ep.acts.append(["retry"])
            try:
                return real_retry()
            except ValueError:
                ep.raised = True
                raise

        def ack(idx):
            ep.fed += 1
            return real_ack(idx)

        def recv_messages(*a, **k):
            ep.collecting = []
            try:
                r = real_recv(*a, **k)
            except _Kill:
                raise
            except BaseException:
                # the local `messages` list of recv_messages is gone with the exception
                ep.discarded += len(ep.collecting)
                ep.collecting = None
                raise
            ep.collecting = None
            ep.batch = Batch(r, ep)
            return ep.batch

        def _recv_one(t):
            try:
                m = real_one(t)
            except _Kill:
                raise
            except BaseException:
                ep.errors += 1
                raise
            if m is not None and not isinstance(m, ep.sim.msg.Ack):
                ep.accepted.append(m)
                if ep.collecting is not None:
                    ep.collecting.append(m)
            return m
        s.send, s.maybe_retry, s.ack = send, maybe_retry, ack
        l.recv_messages, l._recv_one = recv_messages, _recv_one

    def _mk_bridge(self, hosts):
        B = self.sim.bridge_mod.Bridge
        comms = self.sim.comms
        b = object.__new__(B)
        b.mlistener = self.listener
        b.sender = self.sender
        b.transmit_idx_counter = 0
        b.heartbeat_checker = {}
        for name, _ in hosts:
            if not name.startswith("data."):
                b.heartbeat_checker[name] = comms.GraceWatcher(4000)
                b.heartbeat_checker[name].step()
        b.environment = None
        real_shutdown = b.shutdown
        ep = self

        def shutdown():
            ep.loop = "Bridge.shutdown"
            return real_shutdown()
        b.shutdown = shutdown
        self.obj = b
        self.loop = "Bridge.recv_events"
        self.coro_fn = b.recv_events

    def _mk_executor(self):
        X = self.sim.executor_mod
        comms = self.sim.comms
        from cascade.low.core import WorkerId
        host = f"h{self.a}"
        x = object.__new__(X.Executor)
        x.host = host
        x.terminating = False
        x.mlistener = self.listener
        x.sender = self.sender
        x.workers = {WorkerId(host, "w0"): StubProc()}
        x.datasets = set()
        x.daddress = f"tcp://nodata{self.a}"
        x.heartbeat_watcher = comms.GraceWatcher(grace_ms=X.heartbeat_grace_ms)
        x.shm_process = StubProc()
        x.data_server = StubProc()
        x.registration = self.sim.msg.ExecutorRegistration(host=host, maddress=self.listener.address,
                                                           daddress=x.daddress, workers=[])
        self.obj = x
        self.loop = "Executor.recv_loop"
        self.coro_fn = x.recv_loop

    def _mk_dataserver(self):
        """the REAL DataServer, built by its own __init__ (module globals replaced for the duration of the call: the
        Listener is this endpoint's, no thread pool, no shm port), running its real recv_loop"""
        import cascade.executor.data_server as D
        import logging.config as lc
        saved = (D.Listener, D.ThreadPoolExecutor, D.shm_api.publish_client_port, lc.dictConfig)
        ep = self
        try:
            D.Listener = lambda addr: ep.listener
            D.ThreadPoolExecutor = InlinePool
            D.shm_api.publish_client_port = lambda port: None
            lc.dictConfig = lambda cfg: None
            d = D.DataServer(maddress=f"tcp://nomaddr{self.a}", daddress=self.listener.address, host=f"h{self.a}", shm_port=0,
                             logging_config={})
        finally:
            D.Listener, D.ThreadPoolExecutor, D.shm_api.publish_client_port, lc.dictConfig = saved
        self.obj = d
        self.loop = "DataServer.recv_loop"
        self.coro_fn = d.recv_loop

    # -- application level: what the loop body takes
    def stages(self, m):
        """inside Bridge.recv_events an Event is only collected; the controller gets it when the call returns"""
        return bool(self.kind == "bridge" and self.loop == "Bridge.recv_events"
                    and isinstance(m, self.sim.bridge_mod.Event))

    def on_take(self, m):
        st = self.stages(m)
        self.acts.append(["take", self.loop, st])
        self.taken_msgs.append(m)
        if isinstance(m, self.sim.msg.Ack):
            return
        if st:
            self.staged.append(m)
        else:
            self.handled.append(m)

    def pending(self):
        b = self.batch.untaken() if self.batch is not None else []
        return b, list(self.staged)

    def commit(self, events):
        """Bridge.recv_events returned `events`"""
        self.acts.append(["commit"])
        self.handled.extend(events)
        self.staged = []

    def abandon(self, cause, loop):
        """the iteration is over and something accepted was neither taken nor returned"""
        b, st = self.pending()
        self.acts.append(["abort"])
        self.discarded += len(st) + sum(1 for m in b if not isinstance(m, self.sim.msg.Ack))
        self.staged = []
        self.batch = None
        self.aborted = (cause, loop)

    # -- state digest (same shape as Drive/C06.lean `digest`)
    def digest(self, wire_from, extra=None):
        sim = self.sim
        s = self.sender
        if getattr(sim, "light", False):
            # oracle-only histories (the long family): no state digest (it is quadratic in the history length)
            return dict({"ep": self.a}, **(extra or {}))
        infl = []
        for idx in sorted(s.inflight):
            r = s.inflight[idx]
            infl.append([idx, sim.host_id(r.host), sim.msg_id(pickle.loads(r.message[1])), r.at // 1_000_000, r.remaining])
        d = {
            "ep": self.a,
            "wire": [[sim.addr_id(ad), [sim.frame_json(f) for f in fr]] for ad, fr in sim.net.emitted[wire_from:]],
            "accepted": [sim.parsed_json(m) for m in self.accepted],
            "handled": [sim.parsed_json(m) for m in self.handled],
            "pending": sum(len(x) for x in self.pending()),
            "discarded": self.discarded,
            "inflight": infl,
            "idx": s.idx,
            "raised": self.raised,
            "errors": self.errors,
            "acked": sorted(self.syn_json(y) for y in self.listener.acked),
            "hosts": sorted(sim.host_id(h) for h in s.hosts),
            "inbox": len(self.listener.socket.queue),
            "netlen": len(sim.net.net),
        }
        if extra:
            d.update(extra)
        return d

    def syn_json(self, y):
        """an element of Listener.acked (a Syn on the unchanged code)"""
        if hasattr(y, "idx") and hasattr(y, "addr"):
            return [y.idx, self.sim.addr_id(y.addr)]
        return [y if isinstance(y, int) else -1, -1]

    def begin(self):
        self.sim.cur = self.a
        del self.acts[:]
        self.accepted = []
        self.handled = []
        self.taken_msgs = []
        self.discarded = 0
        self.aborted = None
        self.poll_timeouts = []
        self.fed = 0
        self.raised = False
        self.errors = 0
        self.sent = []
        del self.sender.hosts.popped[:]
