"""C06 helpers: FakeNet (in-memory zmq sockets with a harness-controlled network), a fake clock
replacing `comms.time`, coroutine threads that run the REAL endpoint loops one iteration at a
time, and shell objects (object.__new__) for Bridge and Executor.

Nothing here touches /repo: module globals of cascade.executor.comms / bridge are replaced for
the duration of a `installed()` block and restored afterwards.
"""
from __future__ import annotations

import contextlib
import pickle
import threading
import types


# --------------------------------------------------------------------------- fake network

class FakeNet:
    """Packets emitted by PUSH sockets wait in `net` until the harness moves them."""

    def __init__(self):
        self.net = []        # [(dst_addr, (frame bytes, ...))] in emission order
        self.inbox = {}      # bound address -> FakePull
        self.sunk = 0        # packets to addresses nobody listens on (worker ipc, data server)
        self.emitted = []    # log of everything ever emitted to a bound address

    def emit(self, addr, frames):
        frames = tuple(bytes(f) for f in frames)
        if addr in self.inbox:
            self.net.append((addr, frames))
            self.emitted.append((addr, frames))
        else:
            self.sunk += 1

    def arrive(self, k, keep=False):
        addr, frames = self.net[k] if keep else self.net.pop(k)
        self.inbox[addr].queue.append(frames)
        return addr

    def drop(self, k):
        return self.net.pop(k)[0]


class FakePush:
    def __init__(self, sim, addr):
        self.sim, self.addr = sim, addr

    def send_multipart(self, frames):
        self.sim.net.emit(self.addr, frames)

    def send(self, b):
        self.sim.net.emit(self.addr, (b,))

    def set(self, *a):
        pass

    def connect(self, a):
        pass


class FakePull:
    def __init__(self, sim):
        self.sim = sim
        self.queue = []

    def bind(self, addr):
        self.addr = addr
        self.sim.net.inbox[addr] = self

    def recv_multipart(self):
        return list(self.queue.pop(0))


class FakeCtx:
    def __init__(self, sim):
        self.sim = sim

    def socket(self, kind):
        return FakePull(self.sim)


class _Kill(BaseException):
    """Unwinds a coroutine thread at the end of a case (not an `Exception`: the loops' own
    `except Exception` clauses do not swallow it)."""


class Coro:
    """Runs `fn` in a thread with strict hand-off: the thread only runs inside `resume()`.
    A blocking poll (timeout != 0) consumes one permit; without a permit it yields to the harness.
    One `resume()` == one iteration of the loop that `fn` executes."""

    def __init__(self, sim, fn):
        self.sim, self.fn = sim, fn
        self.done = False
        self.result = None
        self.exc = None
        self.permits = 0
        self.kill = False
        self.started = False
        self.go = threading.Semaphore(0)
        self.back = threading.Semaphore(0)
        self.thread = threading.Thread(target=self._run, daemon=True)

    def _run(self):
        self.go.acquire()
        try:
            if self.kill:
                raise _Kill()
            self.result = self.fn()
        except _Kill:
            pass
        except BaseException as e:  # noqa: BLE001 - the result to compare
            self.exc = e
        self.done = True
        self.back.release()

    def resume(self):
        if self.done:
            return
        self.permits = 1
        self.sim.active = self
        if not self.started:
            self.started = True
            self.thread.start()
        self.go.release()
        self.back.acquire()
        self.sim.active = None

    def block(self):
        if self.permits > 0:
            self.permits -= 1
            return
        self.back.release()
        self.go.acquire()
        if self.kill:
            raise _Kill()
        self.permits -= 1

    def stop(self):
        if self.started and not self.done:
            self.kill = True
            self.sim.active = self
            self.go.release()
            self.back.acquire()
            self.sim.active = None
        if self.started:
            self.thread.join(timeout=5)


class FakePoller:
    sim = None  # set per installation (class attribute of a per-sim subclass)

    def register(self, sock, flags=None):
        self.sock = sock

    def poll(self, timeout=None):
        co = self.sim.active
        if timeout != 0:
            if co is not None and threading.current_thread() is co.thread:
                co.block()
            owner = getattr(self, "owner", None)
            if owner is not None:
                # a blocking poll is where one iteration of an endpoint loop begins receiving
                owner.acts.append(["recvall", owner.loop])
        return [(self.sock, 1)] if self.sock.queue else []


class FakeClock:
    """Stands in for the `time` module inside comms/bridge: one clock per endpoint (ns)."""

    def __init__(self, sim):
        self.sim = sim

    def time_ns(self):
        return self.sim.clock.get(self.sim.cur, 0)

    def time(self):
        return self.time_ns() / 1e9

    def monotonic_ns(self):
        return self.time_ns()

    def sleep(self, s):
        pass


class LoggingDict(dict):
    """`sender.hosts` with `pop` logged (the Bridge removes hosts on ExecutorExit/Failure)."""

    def __init__(self, log, intern):
        super().__init__()
        self._log, self._intern = log, intern
        self.popped = []

    def pop(self, k, *a):
        self._log.append(["pop", self._intern(k)])
        self.popped.append(k)
        return super().pop(k, *a)


class StubProc:
    exitcode = None
    pid = 1

    def is_alive(self):
        return False

    def join(self, *a):
        pass

    def kill(self):
        pass


# --------------------------------------------------------------------------- simulation

class Sim:
    """One system: endpoints with real Listener/ReliableSender (+ real Bridge/Executor shells)."""

    def __init__(self, comms, bridge_mod, executor_mod, msgmod):
        self.comms, self.bridge_mod, self.executor_mod, self.msg = comms, bridge_mod, executor_mod, msgmod
        self.net = FakeNet()
        self.active = None
        self.cur = 0
        self.clock = {}
        self.eps = []
        self.hostids = {}     # host name -> number
        self.msgids = {}      # repr(message) -> number (non-generated messages get ids >= 1000)
        self.hdrids = {}
        self.junkids = {}

    # ---- installation of the fakes into the real modules
    @contextlib.contextmanager
    def installed(self, max_retries=None):
        comms, bridge_mod = self.comms, self.bridge_mod
        saved = (comms.get_socket, comms.get_context, comms.zmq, comms.time, bridge_mod.time,
                 comms.max_retries_per_message)
        sim = self
        poller_cls = type("FakePollerBound", (FakePoller,), {"sim": sim})
        real_zmq = comms.zmq

        class ZmqShim(types.SimpleNamespace):
            def __getattr__(self, k):
                return getattr(real_zmq, k)
        comms.get_socket = lambda addr: FakePush(sim, addr)
        comms.get_context = lambda: FakeCtx(sim)
        comms.zmq = ZmqShim(Poller=poller_cls)
        clock = FakeClock(sim)
        comms.time = clock
        bridge_mod.time = clock
        if max_retries is not None:
            comms.max_retries_per_message = max_retries
        try:
            yield self
        finally:
            for e in self.eps:
                if e.coro is not None:
                    e.coro.stop()
            (comms.get_socket, comms.get_context, comms.zmq, comms.time, bridge_mod.time,
             comms.max_retries_per_message) = saved

    # ---- interning
    @staticmethod
    def addr(a):
        return f"tcp://ep{a}"

    @staticmethod
    def addr_id(s):
        try:
            return int(str(s).rsplit("ep", 1)[1])
        except Exception:  # noqa: BLE001
            return 999

    @staticmethod
    def host_id(name):
        """host names of a case follow a fixed scheme: controller, h<i>, data.h<i>, p<i>"""
        name = str(name)
        if name == "controller":
            return 0
        if name.startswith("data.h") and name[6:].isdigit():
            return 100 + int(name[6:])
        if name[:1] in ("h", "p") and name[1:].isdigit():
            return int(name[1:])
        return 999

    def msg_id(self, m):
        r = repr(m)
        return self.msgids.setdefault(r, 1000 + len(self.msgids))

    def frame_json(self, b):
        msg = self.msg
        try:
            o = pickle.loads(b)
        except Exception:  # noqa: BLE001
            return ["junk", self.junkids.setdefault(bytes(b), len(self.junkids))]
        if isinstance(o, msg.Syn):
            return ["syn", o.idx, self.addr_id(o.addr)]
        if isinstance(o, msg.Ack):
            return ["ack", o.idx]
        if isinstance(o, msg.DatasetTransmitPayloadHeader):
            return ["hdr", self.hdrids.setdefault(repr(o), o.confirm_idx)]
        return ["msg", self.msg_id(o)]

    def parsed_json(self, m):
        msg = self.msg
        if isinstance(m, msg.Ack):
            return ["ack", m.idx]
        if isinstance(m, msg.DatasetTransmitPayload):
            return ["payload", self.hdrids.setdefault(repr(m.header), m.header.confirm_idx), self.frame_json(m.value)]
        return ["msg", self.msg_id(m)]


class Ep:
    """One endpoint: real Listener + real ReliableSender, optionally inside a Bridge/Executor shell."""

    def __init__(self, sim, a, kind, grace_ms, hosts):
        self.sim, self.a, self.kind = sim, a, kind
        comms = sim.comms
        sim.cur = a
        sim.clock.setdefault(a, 0)
        self.acts = []            # app-level actions observed during the current op
        self.sent = []            # (host name, repr(msg)) accepted by sender.send during the current op
        self.got = []             # messages returned by recv_messages during the current op
        self.fed = 0              # sender.ack calls during the current op
        self.raised = False
        self.errors = 0
        self.loop = "harness"
        self.coro = None
        self.coro_fn = None
        self.listener = comms.Listener(sim.addr(a))
        self.listener.poller.owner = self
        self.sender = comms.ReliableSender(self.listener.address, grace_ms)
        hd = LoggingDict(self.acts, sim.host_id)
        self.sender.hosts = hd
        for name, ad in hosts:
            self.sender.add_host(name, sim.addr(ad))
        self._wrap()
        self.obj = None
        if kind == "bridge":
            self._mk_bridge(hosts)
        elif kind == "executor":
            self._mk_executor()

    # -- observation wrappers (instance attributes shadowing the methods; no repo change)
    def _wrap(self):
        ep = self
        s, l = self.sender, self.listener
        real_send, real_retry, real_ack = s.send, s.maybe_retry, s.ack
        real_recv, real_one = l.recv_messages, l._recv_one

        def send(host, m):
            ep.acts.append(["send", ep.sim.host_id(host), ep.sim.msg_id(m)])
            r = real_send(host, m)
            ep.sent.append((host, repr(m)))       # accepted (did not raise)
            return r

        def maybe_retry():
            ep.acts.append(["retry"])
            try:
                return real_retry()
            except ValueError:
                ep.raised = True
                raise

        def ack(idx):
            ep.fed += 1
            return real_ack(idx)

        def recv_messages(*a, **k):
            r = real_recv(*a, **k)
            ep.got.extend(r)
            return r

        def _recv_one(t):
            try:
                return real_one(t)
            except _Kill:
                raise
            except BaseException:
                ep.errors += 1
                raise
        s.send, s.maybe_retry, s.ack = send, maybe_retry, ack
        l.recv_messages, l._recv_one = recv_messages, _recv_one

    def _mk_bridge(self, hosts):
        B = self.sim.bridge_mod.Bridge
        comms = self.sim.comms
        b = object.__new__(B)
        b.mlistener = self.listener
        b.sender = self.sender
        b.transmit_idx_counter = 0
        b.heartbeat_checker = {}
        for name, _ in hosts:
            if not name.startswith("data."):
                b.heartbeat_checker[name] = comms.GraceWatcher(4000)
                b.heartbeat_checker[name].step()
        b.environment = None
        real_shutdown = b.shutdown
        ep = self

        def shutdown():
            ep.loop = "Bridge.shutdown"
            return real_shutdown()
        b.shutdown = shutdown
        self.obj = b
        self.loop = "Bridge.recv_events"
        self.coro_fn = b.recv_events

    def _mk_executor(self):
        X = self.sim.executor_mod
        comms = self.sim.comms
        from cascade.low.core import WorkerId
        host = f"h{self.a}"
        x = object.__new__(X.Executor)
        x.host = host
        x.terminating = False
        x.mlistener = self.listener
        x.sender = self.sender
        x.workers = {WorkerId(host, "w0"): StubProc()}
        x.datasets = set()
        x.daddress = f"tcp://nodata{self.a}"
        x.heartbeat_watcher = comms.GraceWatcher(grace_ms=X.heartbeat_grace_ms)
        x.shm_process = StubProc()
        x.data_server = StubProc()
        x.registration = self.sim.msg.ExecutorRegistration(host=host, maddress=self.listener.address,
                                                           daddress=x.daddress, workers=[])
        self.obj = x
        self.loop = "Executor.recv_loop"
        self.coro_fn = x.recv_loop

    # -- state digest (same shape as Drive/C06.lean `digest`)
    def digest(self, wire_from, extra=None):
        sim = self.sim
        s = self.sender
        infl = []
        for idx in sorted(s.inflight):
            r = s.inflight[idx]
            infl.append([idx, sim.host_id(r.host), sim.msg_id(pickle.loads(r.message[1])), r.at // 1_000_000, r.remaining])
        d = {
            "ep": self.a,
            "wire": [[sim.addr_id(ad), [sim.frame_json(f) for f in fr]] for ad, fr in sim.net.emitted[wire_from:]],
            "delivered": [sim.parsed_json(m) for m in self.got if not isinstance(m, sim.msg.Ack)],
            "inflight": infl,
            "idx": s.idx,
            "raised": self.raised,
            "errors": self.errors,
            "acked": sorted(self.syn_json(y) for y in self.listener.acked),
            "hosts": sorted(sim.host_id(h) for h in s.hosts),
            "inbox": len(self.listener.socket.queue),
            "netlen": len(sim.net.net),
        }
        if extra:
            d.update(extra)
        return d

    def syn_json(self, y):
        """an element of Listener.acked (a Syn on the unchanged code)"""
        if hasattr(y, "idx") and hasattr(y, "addr"):
            return [y.idx, self.sim.addr_id(y.addr)]
        return [y if isinstance(y, int) else -1, -1]

    def begin(self):
        self.sim.cur = self.a
        del self.acts[:]
        self.got = []
        self.fed = 0
        self.raised = False
        self.errors = 0
        self.sent = []
        del self.sender.hosts.popped[:]
