"""Shared simulation helper of C08/C09 (and of the shm part of C05): the REAL `cascade.shm.dataset.Manager` in-process.

* real `SharedMemory` segments in /dev/shm (a unique name prefix per Manager; most datasets tiny, a few per run larger
  than disk.py's chunk size), real `Disk._page_out/_page_in` on a real temporary directory, the real
  `server.LocalServer.start` dispatch with the real `api.ser/deser` over a scripted datagram socket, and the real
  `cascade.shm.client` layer (`allocate`, `get`, `_send_command` with its wait/retry/timeout loop, `AllocatedBuffer`
  with the close lambdas) talking to that server loop through a fake `socket` / `time` module pair;
* `disk.readers/writers` are ManualPools: the harness decides when the I/O part of a job runs (or fails: REAL failures,
  an unwritable spill directory for page-out, a refused / interrupted segment creation for page-in) and, separately, when
  its callback runs; one op runs a callback in a REAL second thread while the server thread is between reading and
  writing `Manager.free_space` (forced at byte-code level with sys.monitoring);
* `dataset.time` / `dataset.uuid` are deterministic fakes (time = the `t` of the op); STALE_CREATE / STALE_READ are
  module constants and are replaced by small, mostly different values per history;
* after EVERY op: canonical observation of the real state (answer, free space, lock, counter, datasets, segments with
  contents, files, pending jobs) for the comparison with Model/Shm.lean, and the property oracles.  The oracles are
  written from the property text and keep their OWN ledger of allocations (what was granted, what the store asked the
  disk to do, what /dev/shm shows); they do not read Dataset.status.
No hooks in /repo: only module globals are replaced from here.
"""
import functools
import itertools
import os

_counter = itertools.count()
RESIDENT = ("created", "in_memory", "paging_out", "paged_in")
UNSAFE = ("created", "paging_out", "paged_in")
LIVE_PHASES = ("writing", "readable", "out_pending", "in_pending", "limbo")      # ledger: size promised out of shared memory
CHUNK = 4096                     # disk.py `chunk_size` (checked against the source by `source_constants`)
_ORIG_STALE = None               # (STALE_CREATE, STALE_READ) of the source, captured at first use
_ORIG_GET_CAPACITY = None        # dataset.get_capacity of the source, captured before it is stubbed


def _b36(n):
    s = ""
    while True:
        s = "0123456789abcdefghijklmnopqrstuvwxyz"[n % 36] + s
        n //= 36
        if not n:
            return s


@functools.lru_cache(maxsize=1024)
def pattern(tok, size):
    """the bytes a writer with token `tok` (1..250) puts into its buffer: never zero, and NOT periodic in 256 or 4096
    (a chunk written at a wrong offset, or twice, changes the bytes)"""
    return bytes(1 + (tok * 37 + (i % 251) * 11 + i // 251) % 255 for i in range(size))


def decode(b):
    """bytes -> content token of the model: 0 = zero bytes, tok = pattern(tok, len), 256 + 256*m + tok = the first m bytes
    of pattern(tok, .) followed by zeros (a partially filled segment), -1 = anything else"""
    n = len(b)
    if b == bytes(n):
        return 0
    tok = ((b[0] - 1) * 193) % 255 if b[0] else 0
    if not 1 <= tok <= 250:
        return -1
    if b == pattern(tok, n):
        return tok
    m = 0
    while m < n and b[m]:
        m += 1
    if b[:m] == pattern(tok, n)[:m] and b[m:] == bytes(n - m):
        return 256 + 256 * m + tok
    return -1


class _Clock:
    t = 1

    def time_ns(self):
        return self.t


class _Uuid:
    def __init__(self):
        self.cands = []

    def uuid4(self):
        if not self.cands:
            raise RuntimeError("uuid stream exhausted")
        return self.cands.pop(0)


class _Jobs:
    def __init__(self):
        self.next = 0
        self.pending = {}
        self.on_submit = None


class ManualPool:
    def __init__(self, jobs, kind):
        self.jobs, self.kind = jobs, kind

    def submit(self, fn, *args):
        jid = self.jobs.next
        self.jobs.pending[jid] = {"kind": self.kind, "fn": fn, "args": args, "io": None}
        self.jobs.next += 1
        if self.jobs.on_submit:
            self.jobs.on_submit(jid, self.kind, args[0])

    def shutdown(self, **kw):
        pass


class _Detach(BaseException):
    """raised by the scripted server socket when its inbox is empty: leaves LocalServer.start AND server.entrypoint (which
    catches Exception only) without running the exit handler -- the server stays as it is, to be re-entered for the next datagram"""


class _Sock:
    def __init__(self):
        self.inbox, self.sent, self.bound = [], [], None

    def bind(self, addr):
        self.bound = addr

    def recvfrom(self, n):
        if not self.inbox:
            raise _Detach()
        return self.inbox.pop(0)[:n], "client"

    def sendto(self, b, addr):
        self.sent.append(b)

    def close(self):
        pass


def _exc(e):
    return type(e).__name__


def source_constants():
    """constants of the source that the model hard-codes; a changed source is a broken tie, not a crash"""
    import inspect
    import re
    import cascade.shm.client as client
    import cascade.shm.disk as disk
    out = {}
    m = re.search(r"chunk_size\s*=\s*(\d+)", inspect.getsource(disk.Disk._page_in))
    out["chunk_size"] = int(m.group(1)) if m else None
    src = inspect.getsource(client._send_command)
    m = re.search(r"timeout_i\s*=\s*([0-9.]+)", src)
    out["timeout_i"] = float(m.group(1)) if m else None
    m = re.search(r"coeff\s*=\s*([0-9.]+)", src)
    out["coeff"] = float(m.group(1)) if m else None
    return out


def float_attempts(timeout_sec, timeout_i=0.1, coeff=1):
    """number of requests `_send_command` sends when every answer is `wait` (its arithmetic on binary floats)"""
    n = 0
    while timeout_sec > 0:
        n += 1
        timeout_sec -= timeout_i
        timeout_i = min(timeout_i * coeff, timeout_sec)
    return n


# explicit timeouts used by the generator: those for which the float arithmetic of the loop gives the same number of
# attempts as exact arithmetic, ceil(timeout / 0.1) (for e.g. 0.5 s rounding errors leave 2.7e-17 s and a sixth attempt)
TIMEOUTS = [x for x in (0.1, 0.25, 0.3, 0.35, 0.75) if float_attempts(x) == -(-round(x * 1000) // 100)]

EXPECTED_CONSTANTS = {"chunk_size": CHUNK, "timeout_i": 0.1, "coeff": 1.0}
DEFAULT_BUDGET_MS = 60000        # the model's constant for client.allocate/get without a timeout argument


class Real:
    """One real Manager plus the clients' side."""

    def __init__(self, cap, via_server=False, stale=None, avail=None):
        global _ORIG_STALE
        import multiprocessing.resource_tracker as rt
        import cascade.shm.api as api
        import cascade.shm.client as client
        import cascade.shm.dataset as dsm
        import cascade.shm.server as server
        # one process plays server and all clients: the per-process resource tracker bookkeeping
        # of SharedMemory would see double (un)registrations; it is not part of the store
        rt.register = lambda *a, **k: None
        rt.unregister = lambda *a, **k: None
        self.api, self.client, self.dsm = api, client, dsm
        # what findmnt would report for /dev/shm; Manager.__init__ must trim a larger configured capacity to it and use it
        # when none is configured (`avail` None: plenty)
        self.avail = avail if avail is not None else 1 << 40
        _capture_get_capacity(dsm)
        dsm.get_capacity = lambda: self.avail
        self.clock = _Clock()
        self.uuid = _Uuid()
        dsm.time = self.clock
        dsm.uuid = self.uuid
        if _ORIG_STALE is None:
            _ORIG_STALE = (int(dsm.STALE_CREATE), int(dsm.STALE_READ))
        sc, sr = stale if stale else _ORIG_STALE
        dsm.STALE_CREATE, dsm.STALE_READ = sc, sr      # module constants read by Dataset.is_pageoutable at call time
        self.stale_read = int(dsm.STALE_READ)
        self.stale_create = int(dsm.STALE_CREATE)
        self.prefix = "ek%s%s_" % (_b36(os.getpid()), _b36(next(_counter)))
        for n in os.listdir("/dev/shm"):      # leftovers of a dead process that had our pid
            if n.startswith(self.prefix):
                try:
                    os.unlink("/dev/shm/" + n)
                except OSError:
                    pass
        # the store is brought up the way the executor does it: the REAL server.entrypoint(port, capacity, logging_config,
        # prefix) -> LocalServer.__init__ (socket, Manager(prefix, capacity), signal handlers) -> LocalServer.start, over a
        # scripted datagram socket; `capacity` is what Executor.__init__ passes: the configured bytes, None when not configured
        self.server = server
        self.configured = cap if cap else None
        self.boot_error = None
        self.srv = self._boot(self.configured)
        if self.srv is None:
            self.srv = object.__new__(server.LocalServer)
            self.srv.sock = _Sock()
            self.srv.manager = dsm.Manager(self.prefix, capacity=cap)
        self.m = self.srv.manager
        # the capacity the property speaks of: the configured one, never more than what /dev/shm has
        self.cap = min(cap, self.avail) if cap else self.avail
        self.jobs = _Jobs()
        for name, kind in (("readers", "in"), ("writers", "out")):
            getattr(self.m.disk, name).shutdown()
            setattr(self.m.disk, name, ManualPool(self.jobs, kind))
        self.exited = False
        self.via_server = via_server
        os.environ[api.client_port_envvar] = "1"
        self.name2key = {}
        self.last_error = ""

    def _boot(self, capacity, port=1):
        """server.entrypoint up to the first receive on an empty scripted socket; returns the LocalServer it built (found in
        the frames of the _Detach that left it), None + boot_error when the entrypoint did not get that far"""
        import types
        server = self.server
        sock = _Sock()
        server.socket = types.SimpleNamespace(AF_INET=2, SOCK_DGRAM=2, socket=lambda *a, **k: sock)
        server.signal = types.SimpleNamespace(SIGINT=2, SIGTERM=15, signal=lambda signum, handler: None)
        srv = None
        try:
            server.entrypoint(port, capacity, None, self.prefix)
            self.boot_error = "entrypoint returned"
        except _Detach as e:
            tb = e.__traceback__
            while tb is not None:
                x = tb.tb_frame.f_locals.get("self")
                if isinstance(x, server.LocalServer):
                    srv = x
                tb = tb.tb_next
            if srv is None or getattr(srv, "sock", None) is not sock or not hasattr(srv, "manager"):
                self.boot_error, srv = "no server", None
            elif sock.bound != ("0.0.0.0", port):
                self.boot_error = "bound to %r" % (sock.bound,)
        except Exception as e:
            self.boot_error = "exception:" + _exc(e)
        return srv

    # ---------------------------------------------------------------- requests
    def rpc_raw(self, raw):
        """one datagram through the real LocalServer.start loop (request + shutdown command); returns the answer datagram"""
        api = self.api
        self.srv.sock.inbox = [raw, api.ser(api.ShutdownCommand())]
        self.srv.sock.sent = []
        self.srv.start()
        return self.srv.sock.sent[0]

    def _rpc(self, req, raw=None):
        return self.api.deser(self.rpc_raw(raw if raw is not None else self.api.ser(req)))

    @staticmethod
    def _errname(err):
        for n in ("KeyError", "ValueError", "RuntimeError", "TypeError"):
            if err.startswith(n):
                return n
        return "err:" + err[:40]

    def add(self, k, size, deser, raw=None):
        if self.via_server or raw is not None:
            r = self._rpc(self.api.AllocateRequest(key=k, l=size, deser_fun=deser), raw)
            shmid, err = r.shmid if hasattr(r, "shmid") else "", r.error
        else:
            shmid, err = self.m.add(k, size, deser)
        if not err:
            self.name2key[shmid] = k
            return "granted", shmid
        return (err if err in ("conflict", "capacity exceeded", "wait") else self._errname(err)), ""

    def get(self, k, cands, raw=None):
        self.uuid.cands = list(cands)
        if self.via_server or raw is not None:
            r = self._rpc(self.api.GetRequest(key=k), raw)
            if r.error:
                return ("wait" if r.error == "wait" else self._errname(r.error)), None
            return "granted", (r.shmid, r.l, r.rdid, r.deser_fun)
        shmid, l, rdid, deser, err = self.m.get(k)
        if err:
            return err, None
        return "granted", (shmid, l, rdid, deser)

    def close_callback(self, k, rdid):
        if self.via_server:
            r = self._rpc(self.api.CloseCallback(key=k, rdid=rdid))
            if r.error:
                raise {"KeyError": KeyError, "ValueError": ValueError}.get(self._errname(r.error), RuntimeError)(r.error)
            return
        self.m.close_callback(k, rdid)

    def purge(self, k):
        if self.via_server:
            r = self._rpc(self.api.PurgeRequest(key=k))
            return "ok" if not r.error else self._errname(r.error)
        self.m.purge(k)
        return "ok"

    def free_space(self):
        if self.via_server:
            return self._rpc(self.api.FreeSpaceRequest()).free_space
        return self.m.free_space

    # ---------------------------------------------------------------- disk jobs
    def job_io(self, jid, inj):
        """the I/O part of job `jid`: the REAL Disk._page_out/_page_in, with a REAL failure when `inj` asks for one:
        page-out `fail`/`failLate`: the spill directory is not there (open() raises after the segment was attached);
        page-in `fail`: the segment cannot be created (SharedMemory raises ENOSPC, as on a full /dev/shm);
        page-in `failLate`: the segment is created, then the file cannot be opened."""
        import cascade.shm.disk as disk_mod
        j = self.jobs.pending[jid]
        got = []
        args = j["args"][:-1] + (lambda ok: got.append(bool(ok)),)
        root = self.m.disk.root.name
        if inj in ("fail", "failLate") and j["kind"] == "out":
            os.rename(root, root + ".away")
            try:
                j["fn"](*args)
            finally:
                os.rename(root + ".away", root)
        elif inj == "fail":
            def no_space(*a, **k):
                raise OSError(28, "No space left on device")
            orig = disk_mod.SharedMemory
            disk_mod.SharedMemory = no_space
            try:
                j["fn"](*args)
            finally:
                disk_mod.SharedMemory = orig
        elif inj == "failLate":
            path = os.path.join(root, j["args"][0])
            moved = os.path.exists(path)
            if moved:
                os.rename(path, path + ".away")
            try:
                j["fn"](*args)
            finally:
                if moved:
                    os.rename(path + ".away", path)
        else:
            j["fn"](*args)
        j["io"] = got[0] if got else None
        return j["io"]

    def job_io_mid(self, jid, k):
        """the I/O part of page-out job `jid` with a PurgeRequest for `k` served by the main loop while the writer thread is
        inside Disk._page_out between attaching the segment and unlinking it (hook on the `open` of cascade.shm.disk).
        Returns (io result, was the window reached)."""
        import builtins
        import cascade.shm.disk as disk_mod
        j = self.jobs.pending[jid]
        got, reached = [], []
        args = j["args"][:-1] + (lambda ok: got.append(bool(ok)),)

        def hooked_open(*a, **kw):
            f = builtins.open(*a, **kw)
            if not reached:
                reached.append(True)
                self.purge(k)
            return f
        disk_mod.open = hooked_open
        try:
            j["fn"](*args)
        finally:
            del disk_mod.open
        j["io"] = got[0] if got else None
        return j["io"], bool(reached)

    def job_cb(self, jid):
        j = self.jobs.pending.pop(jid)
        j["args"][-1](j["io"])

    def with_window(self, func, attr, fn, in_window, tool=3):
        """run fn() in this thread; when the interpreter is about to execute the STORE_ATTR `attr` inside `func` (i.e. the
        value to store has already been computed from the value read before), call in_window() once.
        Returns (fn's result, was the window reached)."""
        import dis
        import sys
        mon = sys.monitoring
        code = func.__code__
        offs = {i.offset for i in dis.get_instructions(code) if i.opname == "STORE_ATTR" and i.argval == attr}
        fired = []

        def on_ins(c, off):
            if c is code and off in offs and not fired:
                fired.append(True)
                in_window()
        mon.use_tool_id(tool, "ekw-shm")
        try:
            mon.register_callback(tool, mon.events.INSTRUCTION, on_ins)
            mon.set_local_events(tool, code, mon.events.INSTRUCTION)
            return fn(), bool(fired)
        finally:
            mon.set_local_events(tool, code, 0)
            mon.register_callback(tool, mon.events.INSTRUCTION, None)
            mon.free_tool_id(tool)

    def with_call_window(self, code, fn, in_window, tool=3):
        """run fn() in this thread; the first time the function with code object `code` is entered, call in_window() once.
        Returns (fn's result, was the window reached)."""
        import sys
        mon = sys.monitoring
        fired = []

        def on_start(c, off):
            if c is code and not fired:
                fired.append(True)
                in_window()
        mon.use_tool_id(tool, "ekw-shm")
        try:
            mon.register_callback(tool, mon.events.PY_START, on_start)
            mon.set_local_events(tool, code, mon.events.PY_START)
            return fn(), bool(fired)
        finally:
            mon.set_local_events(tool, code, 0)
            mon.register_callback(tool, mon.events.PY_START, None)
            mon.free_tool_id(tool)

    # ---------------------------------------------------------------- observation
    def _dir(self, d, pref):
        out = []
        try:
            names = os.listdir(d)
        except OSError:
            return out
        for n in names:
            if not n.startswith(pref) or n.endswith(".away"):
                continue
            try:
                with open(os.path.join(d, n), "rb") as f:
                    b = f.read()
            except OSError:
                continue
            out.append([self.name2key.get(n, "?" + n), len(b), decode(b)])
        return sorted(out)

    def seg_names(self):
        return {n for n in os.listdir("/dev/shm") if n.startswith(self.prefix)}

    def seg_bytes(self, shmid):
        try:
            with open("/dev/shm/" + shmid, "rb") as f:
                return f.read()
        except OSError:
            return None

    def observe_ds(self):
        m = self.m
        ds = [{"k": k, "status": d.status.name, "size": d.size, "created": d.created, "first": d.retrieved_first,
               "last": d.retrieved_last, "readers": [[r, t] for r, t in d.ongoing_reads.items()],
               "delayed": bool(d.delayed_purge), "deser": d.deser_fun} for k, d in list(m.datasets.items())]
        return ds

    def observe(self):
        m = self.m
        ds = self.observe_ds()
        jobs = [{"id": i, "kind": j["kind"], "k": self.name2key.get(j["args"][0], "?" + j["args"][0]), "io": j["io"]}
                for i, j in sorted(self.jobs.pending.items())]
        return {"free": m.free_space, "cap": m.capacity, "lock": m.pageout_all.locked(), "count": m.pageout_count,
                "ds": ds, "segs": self._dir("/dev/shm", self.prefix), "files": self._dir(m.disk.root.name, self.prefix),
                "jobs": jobs}

    def shutdown(self):
        """Manager.atexit + removal of anything of this run still in /dev/shm; returns the leftovers."""
        left = []
        try:
            root = self.m.disk.root.name
            if not self.exited:
                self.exited = True
                self.m.atexit()
        except Exception:
            root = None
        for n in os.listdir("/dev/shm"):
            if n.startswith(self.prefix):
                left.append(n)
                try:
                    os.unlink("/dev/shm/" + n)
                except OSError:
                    pass
        if root and os.path.isdir(root):
            import shutil
            shutil.rmtree(root, ignore_errors=True)
        return left


# =============================================================================== the client side's module fakes

class _ClientSock:
    def __init__(self, runner):
        self.runner, self.resp = runner, b""

    def settimeout(self, t):      # the real client bounds its wait for the answer (repo fix of Executor.terminate)
        pass

    def connect(self, addr):
        pass

    def send(self, b):
        self.resp = self.runner._client_request(bytes(b))

    def recv(self, n):
        return self.resp[:n]

    def close(self):
        pass


class _SocketModule:
    AF_INET, SOCK_DGRAM = 2, 2

    def __init__(self, runner):
        self.runner = runner

    def socket(self, *a, **k):
        return _ClientSock(self.runner)


class _TimeModule:
    def __init__(self, runner):
        self.runner = runner

    def sleep(self, dt):
        self.runner._client_sleep(dt)

    def time(self):
        return float(self.runner.t)


# =============================================================================== runner

def model_state(obs):
    """what is compared with the model's observable state"""
    return {k: obs[k] for k in ("free", "cap", "lock", "count", "ds", "segs", "files", "jobs")}


OP_DEADLINE_S = 6
ATEXIT_LINE = False     # C05 sets it: every history ends with the server's exit handler, compared with the model's `atexit`
C05_KINDS = ("segments-left-after-atexit",)


class _Blocked(BaseException):
    pass


class Runner:
    """Executes abstract ops on a Real store, keeps the clients' ledger, concretises every op into
    a model line, and evaluates the oracles after every op."""

    def __init__(self, cap, via_server=False, stale=None, avail=None):
        self.real = Real(cap, via_server, stale, avail)
        self.real.jobs.on_submit = self._on_submit
        cap = self.cap = self.real.cap
        # the model computes the capacity from what was configured and what /dev/shm offers (configCapacity); `cap` of the
        # line is the harness' own reading of the property text and is used by the oracles only
        self.lines = [{"op": "init", "cap": cap, "configured": self.real.configured, "avail": self.real.avail,
                       "staleCreate": self.real.stale_create, "staleRead": self.real.stale_read}]
        self.outs = [{"out": "init" if self.real.boot_error is None else "boot:" + self.real.boot_error, "st": model_state(self.real.observe())}]
        # ---- the clients' / oracle's own ledger (never reads Dataset.status)
        self.grants = []       # allocations: {gid,k,size,shmid,tok,buf,closed,closed_ok,phase,...}
        self.readers = []      # {k,rdid,buf,t0,gid,bytes,stale}
        self.jobmeta = {}      # jid -> {kind,k,gid,orphan,key_reused,took_foreign}
        self.purge_pending = {}  # k -> gid of the allocation for which a purge arrived while the harness' readers held it
        self.events = []       # oracle failures: (kind, what, op index, signature) -- one entry per distinct signature
        self.disc = 0          # reported free - (capacity - resident total of the ledger), as of the previous op
        self.disc_status = 0   # the same with the resident total the store's own status fields give
        self.over = {}         # inequality oracles currently violated (reported at the rising edge)
        self.seg_owner = {}    # key -> gid of the allocation whose WRITER created the segment now in /dev/shm under the key's name
        self.unsafe_purge = False    # statistics only
        self.cur = {}          # context of the op being executed (for the signatures)
        self.wire = []         # (request, answer) datagrams of the real client layer during the current op
        self.client_ctx = None
        self.nops = 0
        self.stats = {}
        self.t = 1
        self.rdc = itertools.count()
        # the property's clauses hold from the first instant: the empty store reports the configured capacity as free
        self.cur = {"op": "init", "k": ""}
        self._oracle_state(self.real.observe())
        self.cur = {}

    def _newrd(self, prefix):
        """a fresh reader-id candidate of 8 characters (Manager.get keeps the first 8 of str(uuid4()))"""
        return "%s%07d" % (prefix, next(self.rdc))

    # -- helpers
    def _stat(self, k):
        self.stats[k] = self.stats.get(k, 0) + 1

    def _flag(self, kind, what, **sig):
        sig = dict(sig, kind=kind)
        sig.setdefault("unsafe_purge", False)
        if not any(e[3] == sig for e in self.events):
            self.events.append((kind, what, self.nops, sig))

    def _mech(self, job=None, alloc=None):
        """signature part describing the mechanism of the known purge-in-flight findings FOR THE JOB / ALLOCATION AT HAND:
        `job` is a disk job orphaned by a purge executed while it was pending (its dataset object was dropped, 'calling
        purge in unsafe status'), `alloc` an allocation whose segment was consumed by such a job; `orphan_key_reused`: the
        key had been allocated again before the orphaned job ran, so the job acted on the new allocation."""
        if alloc is not None and job is None and alloc.get("taken_by") is not None:
            job = self.jobmeta.get(alloc["taken_by"])
        if alloc is not None and job is None and alloc.get("dropped_by_orphan") is not None:
            job = self.jobmeta.get(alloc["dropped_by_orphan"])
        if job is not None and job.get("orphan"):
            return {"unsafe_purge": True, "orphan_key_reused": bool(job.get("key_reused"))}
        return {"unsafe_purge": False}

    def _conform_segtot(self, obs):
        """total size of the segments in /dev/shm with the doing of NON-CONFORMING writers taken out, segment by segment: a
        segment created by a writer with more bytes than granted counts with the granted size, one created only after the store
        had given the allocation up (stale writer) does not count (assumption (a) of the property's model, broken by the
        harness on purpose in 5% of the histories; client.allocate creates the segment in the same call with the granted
        size). Only an excess that disappears with this correction is put down to the writer; any other excess in the same
        history is reported."""
        tot = 0
        for k, n, _ in obs["segs"]:
            gid = self.seg_owner.get(k)
            g = self.grants[gid] if gid is not None else None
            if g is not None and g.get("late_write"):
                continue
            if g is not None and g.get("wsize", g["size"]) != g["size"]:
                n = min(n, g["size"])
            tot += n
        return tot

    @property
    def fails(self):
        out = {}
        for e in self.events:
            out.setdefault(e[0], e)
        return out

    @property
    def fail(self):
        """the earliest oracle failure"""
        return min(self.events, key=lambda f: f[2]) if self.events else None

    def first_fail(self, kinds):
        fs = [e for e in self.events if e[0] in kinds]
        return min(fs, key=lambda f: f[2]) if fs else None

    def current_grant(self, k):
        for g in reversed(self.grants):
            if g["k"] == k:
                return g
        return None

    def live_alloc(self, k):
        for g in reversed(self.grants):
            if g["k"] == k and g["phase"] != "gone":
                return g
        return None

    # -- ledger events
    def _follow_orphan(self, g):
        """allocation g was made while an orphaned job of its key was pending, that job has failed meanwhile and g never had a
        segment of its own in /dev/shm at that time: the job's failure callback has purged g BY KEY (nothing had to vanish for
        that). The discrepancy was reported at that callback (known mechanism); from here on the ledger follows the store."""
        jid = g.get("under_orphan")
        if jid is None or g["phase"] != "writing" or jid in self.real.jobs.pending:
            return False
        jm = self.jobmeta.get(jid, {})
        if jm.get("io") is True or jm.get("cb_at") is None or (g.get("wrote_at") is not None and g["wrote_at"] < jm["cb_at"]):
            return False
        self._drop(g, "purge-by-orphaned-job")
        g["dropped_by_orphan"] = jid
        self.disc -= g["size"]
        self._stat("ledger:followed-orphaned-job's-purge")
        return True

    def _on_submit(self, jid, kind, shmid):
        k = self.real.name2key.get(shmid)
        g = self.live_alloc(k) if k is not None else None
        self.jobmeta[jid] = {"id": jid, "kind": kind, "k": k, "gid": g["gid"] if g else None, "orphan": False,
                             "key_reused": False, "took_foreign": None}
        if g is not None:
            if kind == "out":
                if not g.get("made_readable"):
                    g["evicted_unclosed"] = True       # sent to disk although no writer's close had made it readable
                g["phase"] = "out_pending"
            else:
                g["phase"] = "in_pending"

    def _drop(self, g, cause):
        """the store released allocation g (seen from outside: its segment vanished / its failed job left nothing)"""
        if g["phase"] == "gone":
            return
        was = g["phase"]
        g["phase"] = "gone"
        g["drop_cause"] = cause
        g["dropped_open"] = not g["closed"]
        for jid, jm in self.jobmeta.items():
            if jm["gid"] == g["gid"] and jid in self.real.jobs.pending and jm.get("own_cb") != self.nops:
                jm["orphan"] = True              # dropped by a purge while its disk job was still pending
                self.unsafe_purge = True
        self._stat("ledger:drop:%s:%s" % (cause, was))

    def _vanished(self, before, cause, own_job=None):
        """segments that existed before the op and do not exist any more: the allocations they belonged to are released"""
        now = self.real.seg_names()
        for n in before - now:
            k = self.real.name2key.get(n)
            g = self.live_alloc(k) if k is not None else None
            if g is None:
                continue
            if own_job is not None and own_job["gid"] == g["gid"]:
                continue                          # a page-out job unlinking its own segment is not a release
            if own_job is not None:
                # a disk job of an OLDER allocation of this key consumed the segment of the current one
                g["taken_by"] = own_job["id"]
                own_job["took_foreign"] = g["gid"]
                continue
            self._drop(g, cause)
        return now

    def _emit(self, line, out, observe=True):
        self.lines.append(line)
        if not observe:
            self.outs.append({"out": out})
            self.nops += 1
            self._stat("op:" + line["op"])
            return None
        obs = self.real.observe()
        self.outs.append({"out": out, "st": model_state(obs)})
        self.nops += 1
        self._stat("op:" + line["op"])
        self._oracle_state(obs)
        return obs

    # -- oracles on the state after every op (C08 text: usage <= capacity, reported free = capacity - resident)
    def _oracle_state(self, obs):
        cap = self.cap
        cur = self.cur
        segtot = sum(s[1] for s in obs["segs"])
        free = obs["free"]
        resident = sum(g["size"] for g in self.grants if g["phase"] in LIVE_PHASES)
        resident_status = sum(d["size"] for d in obs["ds"] if d["status"] in RESIDENT)
        disc = free - (cap - resident)
        disc_status = free - (cap - resident_status)
        if disc != self.disc or disc_status != self.disc_status:
            basis = "both" if (disc != self.disc and disc_status != self.disc_status) else "ledger" if disc != self.disc else "status"
            mech = self._mech(cur.get("job"), cur.get("alloc"))
            d0, d1 = (self.disc, disc) if disc != self.disc else (self.disc_status, disc_status)
            if mech.get("unsafe_purge") and cur.get("op") == "cb" and cur.get("job") is not None and cur["job"].get("io") is True \
                    and cur["job"].get("took_foreign") is None:
                mech = {"unsafe_purge": True, "orphan_key_reused": False}
            self._flag("free-space-mismatch",
                       f"reported free space {free} != capacity {cap} - resident total {resident} (datasets being written, readable, "
                       f"being paged out or in, by the clients' ledger; {resident_status} by the store's status fields): the difference "
                       f"went from {d0} to {d1} in op {cur.get('op')} {cur.get('k', '')}",
                       op=cur.get("op"), basis=basis, **mech)
        self.disc, self.disc_status = disc, disc_status
        live_names = {x[0] for x in obs["segs"]}
        for k in [k for k in self.seg_owner if k not in live_names]:
            self.seg_owner.pop(k)            # the segment a writer created is gone: a later one under the name is the store's
        slack = max(0, disc)      # every unit of discrepancy has been reported where it arose; the bounds below are relative to it
        segtot_c = self._conform_segtot(obs)
        checks = (("segments-exceed-capacity", segtot, cap, f"segments of the run total {segtot} bytes > capacity {cap}"),
                  ("resident-exceeds-capacity", resident, cap, f"datasets resident in shared memory total {resident} > capacity {cap}"),
                  ("segments-exceed-accounted", segtot, cap - free, f"segments total {segtot} > capacity {cap} - free {free}"))
        for kind, val, bound, what in checks:
            bad = val > bound + slack
            if val > bound and not bad and not self.over.get(kind + "/slack"):
                self._stat("oracle:%s:within-a-discrepancy-already-reported" % kind)
            self.over[kind + "/slack"] = val > bound and not bad
            extra = {}
            if bad and kind.startswith("segments") and not segtot_c > bound + slack:
                extra = {"nonconform_writer": True}      # the whole excess is the non-conforming writers' doing
            if bad and self.over.get(kind) != (True, bool(extra)):
                self._flag(kind, what + f" after op {cur.get('op')} {cur.get('k', '')}", op=cur.get("op"),
                           **self._mech(cur.get("job"), cur.get("alloc")), **extra)
            self.over[kind] = (True, bool(extra)) if bad else None
        # C09: a dataset held by a young reader is neither paged out nor unlinked
        for r in self.readers:
            if r["bytes"] is None or r.get("flagged"):
                continue
            if self.t - r["t0"] > self.real.stale_read:
                r["stale"] = True
                continue
            b = self.real.seg_bytes(r["shmid"])
            if b is not None:
                b = b[:len(r["bytes"])]          # what the reader's view covers
            g = self.grants[r["gid"]] if r["gid"] is not None else None
            phase = g["phase"] if g else None
            if b != r["bytes"] or phase != "readable":
                r["flagged"] = True
                self._flag("reader-unprotected", f"reader {r['rdid']} of {r['k']} (age {self.t - r['t0']}, window {self.real.stale_read}) "
                           f"still holds, but the dataset is {phase} and the segment {'is gone' if b is None else 'changed' if b != r['bytes'] else 'exists'}",
                           op=cur.get("op"), **self._mech(cur.get("job"), g))

    # -- the ops
    def apply(self, op):
        kind = op["op"]
        if getattr(self, "deadlocked", False):
            self._stat("ops-not-run-after-a-request-that-was-never-answered")
            return None          # the store no longer answers (see below, reported as request-never-answered): nothing more can be observed in this history
        if "t" in op:
            self.t = max(self.t, op["t"])
        self.real.clock.t = self.t
        self.cur = {"op": kind, "k": op.get("k", "")}
        # watchdog: every request handler and every disk-job callback of the real Manager runs in this thread, so a
        # handler that blocks (e.g. on a lock it already holds) would hang the check; a blocked request is a request
        # that is never answered, i.e. a violation of the 'eventually granted' clause, and is reported as such
        import signal

        def _on_alarm(*a):
            raise _Blocked()
        old = signal.signal(signal.SIGALRM, _on_alarm)
        # composite ops (a client call with its sleeps, the 'everybody finishes' scenario) consist of dozens of requests and
        # disk-job steps, each followed by a scan of /dev/shm: on a loaded machine they take seconds without anything blocking
        signal.alarm(OP_DEADLINE_S * (20 if kind == "retry" else 8 if kind in ("c_alloc", "c_get", "drainJobs") else 1))
        try:
            return getattr(self, "_op_" + kind)(op)
        except _Blocked:
            self.deadlocked = True
            self._flag("request-never-answered", f"the store did not answer {kind} {op.get('k', '')} within {OP_DEADLINE_S} s "
                       f"(a request handler or disk-job callback blocks forever)")
            self._emit({"op": "blocked-" + kind}, "blocked")
        except Exception as e:   # harness-level surprise from the real code: a result, not a crash
            self._emit({"op": "bad-" + kind}, "exception:" + _exc(e) + ":" + str(e)[:80])
        finally:
            signal.alarm(0)
            signal.signal(signal.SIGALRM, old)
            self.client_ctx = None

    # ---- add
    def _do_add(self, k, size, deser, c=None, raw=None, race=None, race_at="free_space"):
        """one AllocateRequest; `race` = (jid): run the callback of that job in a second thread inside the free_space window
        (race_at `iter`: while page_out_at_least is iterating over Manager.datasets, at its first is_pageoutable call)"""
        self.cur = {"op": "add" if race is None else "race-add" if race_at != "iter" else "race-iter", "k": k}
        pre_free = self.real.m.free_space
        live = self.live_alloc(k)
        raced = False
        try:
            if race is not None and race_at == "iter":
                import threading
                ths = []

                def window():
                    t = threading.Thread(target=self.real.job_cb, args=(race,), daemon=True)
                    t.start()
                    t.join(OP_DEADLINE_S)
                    ths.append(t)
                (out, shmid), raced = self.real.with_call_window(self.real.dsm.Dataset.is_pageoutable.__code__,
                                                                 lambda: self.real.add(k, size, deser, raw), window)
                if any(t.is_alive() for t in ths):
                    raise _Blocked()
                self._stat("race:iteration-window-%s" % ("reached" if raced else "not-reached"))
            elif race is not None:
                (out, shmid), raced = self._raced(self.real.dsm.Manager.add, race, lambda: self.real.add(k, size, deser, raw))
            else:
                out, shmid = self.real.add(k, size, deser, raw)
        except Exception as e:
            out, shmid = "exception:" + _exc(e), ""
            if race is not None and race_at == "iter":
                raced = bool(ths)       # the handler died after the window: the callback has run all the same
        if out == "granted":
            under = None
            for jm in self.jobmeta.values():
                if jm["k"] == k and jm["orphan"] and jm["id"] in self.real.jobs.pending:
                    jm["key_reused"] = True      # allocated again while the orphaned job is still pending
                    under = jm["id"]
            if live is not None and self._follow_orphan(live):
                live = None
            self.grants.append({"gid": len(self.grants), "k": k, "size": size, "shmid": shmid, "tok": None, "buf": None,
                                "closed": False, "closed_ok": False, "phase": "writing", "deser": deser, "under_orphan": under})
        # admission rule (C08 text)
        if out == "granted" and size > pre_free:
            self._flag("granted-early", f"add({k},{size}) granted with free space {pre_free}")
        if out == "granted" and live is not None:
            self._flag("granted-over-existing", f"add({k},{size}) granted although the key is allocated", **self._mech(alloc=live))
        if live is None and size > self.cap and out != "capacity exceeded":
            self._flag("oversize-not-refused", f"add({k},{size}) with capacity {self.cap} answered {out!r}")
        if live is None and pre_free < size <= self.cap and out != "wait":
            self._flag("nofit-not-wait", f"add({k},{size}) with free {pre_free} answered {out!r}")
        self._stat("add:" + out)
        if size == 0:
            self._stat("add:size0:" + out)
        if size > CHUNK:
            self._stat("add:larger-than-chunk:" + out)
        if c is not None:
            self._stat("requests_by_client_%d" % c)
        line = {"op": "add", "k": k, "size": size, "deser": deser, "t": self.t}
        if raced and race_at == "iter":
            # the handler had computed the amount to evict before the callback ran, and the dataset of a failed page-in is no
            # eviction candidate: as a sequence, `add; cb`
            self._emit(line, out, observe=False)
            self.cur = {"op": "race-iter", "k": k, "job": self.jobmeta.get(race)}
            self._after_cb(race, "done")
            return out
        if raced:
            # the callback ran to its end (or up to the lock) before the handler stored the dataset: as a sequence, `cb; add`
            self._after_cb(race, "done", observe=False)
            self.cur = {"op": "race-add", "k": k, "job": self.jobmeta.get(race)}
        self._emit(line, out)
        return out

    def _op_add(self, op):
        raw = None
        if op.get("wire"):
            # the request as the client sends it: the datagram api.ser(AllocateRequest(...)) decoded by the server's api.deser,
            # whatever the history's mode (the 8-byte size field at its boundaries)
            api = self.real.api
            try:
                raw = api.ser(api.AllocateRequest(key=op["k"], l=op["size"], deser_fun="d" + op["k"]))
            except Exception as e:
                self._emit({"op": "bad-add"}, "exception:ser:" + _exc(e))
                return None
            self._stat("add:through-the-wire-encoding")
            self._stat("add:boundary-size:" + boundary_label(op["size"], self.cap))
        return self._do_add(op["k"], op["size"], "d" + op["k"], op.get("c"), raw=raw)

    # ---- the writer's segment
    def _op_cwrite(self, op):
        g = next((g for g in self.grants if g["k"] == op["k"] and g["tok"] is None), None)
        if g is None:
            return None
        tok = op["tok"]
        size = op.get("size", g["size"])      # a size other than the granted one only in `nonconform` histories / witnesses
        self.cur = {"op": "cwrite", "k": g["k"], "alloc": g}
        self._follow_orphan(g)
        try:
            buf = self.real.client.AllocatedBuffer(g["shmid"], size, True, None, g.get("deser", ""))
            buf.view()[:] = pattern(tok, size)
            g["buf"] = buf
            out = "ok"
        except FileExistsError:
            out = "exists"
        except ValueError:
            out = "invalid"                    # SharedMemory refuses size 0
        except Exception as e:
            out = "exception:" + _exc(e)
        g["tok"] = tok
        g["wsize"] = size
        g["wrote_at"] = self.nops
        if out == "ok":
            self.seg_owner[g["k"]] = g["gid"]
        if size != g["size"]:
            self._stat("cwrite:size-differs-from-grant")
        if out == "ok" and g["phase"] != "writing":
            g["late_write"] = True         # created its segment after the store had evicted / dropped the allocation (stale writer)
            self._stat("cwrite:after-eviction-or-drop")
        self._emit({"op": "cwrite", "k": g["k"], "size": size, "tok": tok}, out)
        return out

    # ---- closes
    def _close(self, buf, k, rdid):
        """close of a buffer (real AllocatedBuffer.close -> close callback) or a bare close callback; returns the canonical answer"""
        self.wire = []
        try:
            if buf is not None and getattr(buf, "_ekw_real_cb", False):
                self.client_ctx = {"kind": "close"}
                buf.close()                    # the REAL lambda of client.allocate/get -> close_callback -> _send_command
                sent = [self.real.api.deser(q) for q, _ in self.wire]
                want = self.real.api.CloseCallback(key=k, rdid=rdid)
                if sent != [want]:
                    self._flag("client-protocol", f"closing the buffer of {k} (reader id {rdid!r}) must send exactly {want}; sent {sent}")
            elif buf is not None:
                buf.close_callback = lambda: self.real.close_callback(k, rdid)
                buf.close()
            else:
                self.real.close_callback(k, rdid)
            return "ok"
        except (KeyError, ValueError) as e:
            if self.wire:                      # the real client turns every server error into ValueError(repr of the server's exception)
                return self.real._errname(str(e))
            return _exc(e)
        except Exception as e:
            return "exception:" + _exc(e)
        finally:
            self.client_ctx = None

    def _op_closeW(self, op):
        k = op["k"]
        g = next((g for g in self.grants if g["k"] == k and g["tok"] is not None and not g["closed"]), None)
        if g is None and op.get("bogus"):   # a writer that finishes without having created its segment
            g = next((g for g in self.grants if g["k"] == k and not g["closed"]), None)
        elif g is None:
            return None
        before = self.real.seg_names()
        cur = self.live_alloc(k)
        self.cur = {"op": "closeW", "k": k, "alloc": cur}
        out = self._close(g["buf"] if g else None, k, "")
        if g:
            g["closed"] = True
            g["closed_ok"] = out == "ok" and cur is g
        if out == "ok" and cur is not None:
            cur["made_readable"] = True
            if cur["phase"] == "writing":
                cur["phase"] = "readable"
            if cur is not g:
                # the close of a writer whose allocation is gone landed on the allocation that owns the key now
                cur["closed_by_foreign_writer"] = g["gid"] if g else -1
        self._vanished(before, "delayed-purge-at-close")
        self._emit({"op": "closeW", "k": k}, out)
        return out

    # ---- get
    def _do_get(self, k, cands, c=None, raw=None, attach=True, race=None):
        raced = False
        self.cur = {"op": "get" if race is None else "race-get", "k": k}
        try:
            if race is not None:
                (out, val), raced = self._raced(self.real.dsm.Manager.page_in, race, lambda: self.real.get(k, cands, raw))
            else:
                out, val = self.real.get(k, cands, raw)
        except KeyError:
            out, val = "KeyError", None
        except RuntimeError as e:
            out, val = ("noUuid" if "uuid" in str(e) else "exception:RuntimeError"), None
        except Exception as e:
            out, val = "exception:" + _exc(e), None
        self._stat("get:" + out)
        if c is not None:
            self._stat("requests_by_client_%d" % c)
        rd = None
        if out == "granted":
            shmid, l, rdid, deser = val
            g = self.live_alloc(k)
            self.cur["alloc"] = g
            rd = {"k": k, "rdid": rdid, "buf": None, "t0": self.t, "bytes": None, "shmid": shmid, "stale": False,
                  "gid": g["gid"] if g else None, "l": l, "deser": deser}
            self.readers.append(rd)
            if g is not None and not g.get("closed_ok"):
                self._flag("readable-before-close", f"get({k}) granted although the writer of this allocation has not finished",
                           stale_writer=bool(g.get("evicted_unclosed")),
                           writer_dropped_key_reused=g.get("closed_by_foreign_writer") is not None)
            if attach:
                self._attach(rd, None)
            out = {"size": l, "rdid": rdid, "deser": deser}
        line = {"op": "get", "k": k, "t": self.t, "cands": list(cands)}
        if raced:
            self._after_cb(race, "done", observe=False)
            self.cur = {"op": "race-get", "k": k, "job": self.jobmeta.get(race)}
        self._emit(line, out)
        return out, rd

    def _attach(self, rd, buf):
        """the reader's side of a granted get: attach the segment (or take the buffer the real client.get returned), read"""
        k = rd["k"]
        g = self.grants[rd["gid"]] if rd["gid"] is not None else None
        try:
            if buf is None:
                buf = self.real.client.AllocatedBuffer(rd["shmid"], rd["l"], False, None, rd["deser"])
            rd["buf"] = buf
            rd["bytes"] = bytes(buf.view())
        except Exception as e:
            if g is not None and g["tok"] is not None and g["buf"] is not None:
                self._flag("granted-missing-segment", f"get({k}) granted but attaching {rd['shmid']} failed: {_exc(e)}", **self._mech(alloc=g))
        if g is None or g["tok"] is None or g["buf"] is None or g.get("wsize", g["size"]) != g["size"]:
            pass    # the writer of this allocation did not (manage to) write, or not with the granted size: no content claim
        elif rd["bytes"] is not None and rd["bytes"] != pattern(g["tok"], g["size"]):
            want = pattern(g["tok"], g["size"])
            first = next((i for i in range(min(len(want), len(rd["bytes"]))) if want[i] != rd["bytes"][i]), min(len(want), len(rd["bytes"])))
            self._flag("content-mismatch", f"get({k}) returned {len(rd['bytes'])} bytes, written {g['size']} bytes; first difference at offset {first} "
                       f"(read {rd['bytes'][first:first + 4].hex()}, written {want[first:first + 4].hex()})", **self._mech(alloc=g))

    def _op_get(self, op):
        out, _ = self._do_get(op["k"], op["cands"], op.get("c"))
        return out

    def _op_closeR(self, op):
        if op.get("bogus"):
            k, rdid = op["k"], op["rdid"]
            before = self.real.seg_names()
            self.cur = {"op": "closeR", "k": k, "alloc": self.live_alloc(k)}
            out = self._close(None, k, rdid)
            self._vanished(before, "delayed-purge-at-close")
            self._emit({"op": "closeR", "k": k, "rdid": rdid}, out)
            return out
        if not self.readers:
            return None
        r = self.readers.pop(op["idx"] % len(self.readers))
        k = r["k"]
        before = self.real.seg_names()
        self.cur = {"op": "closeR", "k": k, "alloc": self.grants[r["gid"]] if r["gid"] is not None else None}
        out = self._close(r["buf"], k, r["rdid"])
        if out != "ok" and r["gid"] is not None:
            # the close was refused (the dataset had been evicted under this reader): the store keeps the reader registered
            self.grants[r["gid"]]["zombie_readers"] = self.grants[r["gid"]].get("zombie_readers", 0) + 1
        self._vanished(before, "delayed-purge-at-close")
        obs = self._emit({"op": "closeR", "k": k, "rdid": r["rdid"]}, out)
        pend = self.purge_pending.get(k)
        if pend is not None and pend == r["gid"] and not any(x["k"] == k and x["gid"] == r["gid"] for x in self.readers):
            self.purge_pending.pop(k)
            g = self.grants[r["gid"]]
            if g["phase"] != "gone":
                self._flag("delayed-purge-lost", f"purge({k}) arrived during a read; the last reader closed (answer {out}) but the dataset is still "
                           f"there ({g['phase']})", stale_reader_close_refused=bool((r["stale"] and out != "ok") or (g.get("zombie_readers") and out == "ok")),
                           **self._mech(alloc=g))
        return out

    def _op_purge(self, op):
        k = op["k"]
        g = self.live_alloc(k)
        self.cur = {"op": "purge", "k": k, "alloc": g}
        d = self.real.m.datasets.get(k)
        if d is not None and not d.ongoing_reads and d.status.name in UNSAFE:
            self._stat("purge:unsafe-status")          # statistics of the generator only
        held = [r for r in self.readers if r["k"] == k and g is not None and r["gid"] == g["gid"] and r["bytes"] is not None]
        if g is not None and held and g["phase"] == "readable":
            # a purge during a read (all readers of the allocation are ours, none of them closed yet)
            self.purge_pending[k] = g["gid"]
            self._stat("purge:during-read")
        before = self.real.seg_names()
        try:
            out = self.real.purge(k)
        except Exception as e:
            out = "exception:" + _exc(e)
        self._vanished(before, "purge-request")
        self._emit({"op": "purge", "k": k}, out)
        return out

    def _op_freeSpace(self, op):
        self.cur = {"op": "freeSpace", "k": ""}
        try:
            out = self.real.free_space()
        except Exception as e:
            out = "exception:" + _exc(e)
        self._emit({"op": "freeSpace"}, out)
        return out

    # ---- disk jobs
    def _op_io(self, op):
        ids = [i for i, j in sorted(self.real.jobs.pending.items()) if j["io"] is None]
        if not ids:
            return None
        jid = ids[op["idx"] % len(ids)]
        inj = op.get("inj", "ok")
        job = self.real.jobs.pending[jid]
        jm = self.jobmeta.get(jid, {"id": jid, "gid": None, "k": None})
        self.cur = {"op": "io", "job": jm, "k": jm.get("k") or ""}
        before = self.real.seg_names()
        if op.get("mid_purge") and job["kind"] == "out" and inj == "ok":
            # a purge served while the writer thread is between write and unlink: of the job's own key or of another one
            k = self.real.name2key.get(job["args"][0])
            if op.get("mid_key") is not None:
                k = op["mid_key"]
            if k is not None:
                d = self.real.m.datasets.get(k)
                if d is not None and not d.ongoing_reads and d.status.name in UNSAFE:
                    self._stat("purge:unsafe-status")
                g = self.live_alloc(k)
                had = g is not None and g["shmid"] in before
                try:
                    out, reached = self.real.job_io_mid(jid, k)
                except Exception as e:
                    out, reached = "exception:" + _exc(e), True
                jm["io"] = out
                now = self.real.seg_names()
                if reached and g is not None and had and g["shmid"] not in now and (g["gid"] != jm["gid"] or out is not True):
                    jm["own_cb"] = None
                    self._drop(g, "purge-request-mid-io")    # the purge went through (the job's own unlink then failed)
                self._vanished(before, None, own_job=jm)
                self._stat("io-mid-purge:%s:%s:%s" % ("window" if reached else "no-window", "own-key" if k == jm.get("k") else "other-key", out))
                self._emit({"op": "ioMid", "id": jid, "k": k} if reached else {"op": "io", "id": jid, "inj": "ok"}, out)
                return out
        try:
            out = self.real.job_io(jid, inj)
        except Exception as e:
            out = "exception:" + _exc(e)
        jm["io"] = out
        self._vanished(before, None, own_job=jm)
        self._stat("io:%s:%s:%s" % (job["kind"], inj, out))
        if jm.get("gid") is not None and self.grants[jm["gid"]]["size"] > CHUNK:
            self._stat("io:%s:%s:%s:dataset-larger-than-chunk" % (job["kind"], inj, out))
        self._emit({"op": "io", "id": jid, "inj": inj}, out)
        return out

    def _after_cb(self, jid, out, observe=True):
        """ledger + model line after the callback of job jid has run"""
        jm = self.jobmeta.get(jid, {"id": jid, "gid": None, "k": None, "kind": None, "io": None})
        jm["cb_at"] = self.nops
        self.cur = {"op": self.cur.get("op") if str(self.cur.get("op", "")).startswith("race") else "cb", "job": jm, "k": jm.get("k") or ""}
        g = self.grants[jm["gid"]] if jm.get("gid") is not None else None
        if g is not None and g["phase"] != "gone" and not jm.get("orphan"):
            if jm["io"] is True:
                g["phase"] = "on_disk" if jm["kind"] == "out" else "readable"
            elif g["shmid"] in self.real.seg_names():
                g["phase"] = "limbo"             # failed job, the segment is still there: still resident
            else:
                jm["own_cb"] = self.nops
                self._drop(g, "failed-" + ("page-out" if jm["kind"] == "out" else "page-in"))
        self._emit({"op": "cb", "id": jid}, out, observe=observe)

    def _op_cb(self, op):
        ids = [i for i, j in sorted(self.real.jobs.pending.items()) if j["io"] is not None]
        if not ids:
            return None
        jid = ids[op["idx"] % len(ids)]
        jm = self.jobmeta.get(jid, {"id": jid, "gid": None, "k": None})
        self.cur = {"op": "cb", "job": jm, "k": jm.get("k") or ""}
        before = self.real.seg_names()
        try:
            self.real.job_cb(jid)
            out = "done"
        except Exception as e:
            out = "exception:" + _exc(e)
        if jm.get("orphan"):
            # the failure callback of an orphaned job purges BY KEY: whatever it released belongs to a newer allocation
            now = self.real.seg_names()
            for n in before - now:
                g = self.live_alloc(self.real.name2key.get(n))
                if g is not None:
                    g["dropped_by_orphan"] = jid
                    self._drop(g, "purge-by-orphaned-job")
        else:
            own = self.grants[jm["gid"]] if jm.get("gid") is not None else None
            now = self.real.seg_names()
            for n in before - now:
                g = self.live_alloc(self.real.name2key.get(n))
                if g is not None and g is not own:
                    self._drop(g, "purge-by-job")
        self._after_cb(jid, out)
        return out

    def _raced(self, func, jid, fn, attr="free_space"):
        """fn() (a request handled by the server thread = this thread) with the callback of disk job `jid` run by a REAL second
        thread at the moment the server thread has read Manager.<attr> (free_space, pageout_count) inside `func` and not yet
        written it back"""
        import threading
        ths = []

        def window():
            t = threading.Thread(target=self.real.job_cb, args=(jid,), daemon=True)
            t.start()
            t.join(0.05)          # either it ran to completion, or it blocks on the lock the server thread holds
            ths.append(t)
        res, fired = self.real.with_window(func, attr, fn, window)
        for t in ths:
            t.join(OP_DEADLINE_S)
            if t.is_alive():
                raise _Blocked()
        self._stat("race:%swindow-%s" % ("" if attr == "free_space" else attr + "-", "reached" if fired else "not-reached"))
        return res, fired

    def _op_race(self, op):
        """an AllocateRequest / GetRequest racing the callback of a completed disk job at the free_space update"""
        ids = [i for i, j in sorted(self.real.jobs.pending.items()) if j["io"] is not None and not self.jobmeta.get(i, {}).get("orphan")]
        if not ids:
            return None
        jid = ids[op["idx"] % len(ids)]
        if op.get("via") == "cb":
            # two callbacks of page-out jobs in two pool threads: the second arrives while the first is between reading and
            # writing free_space (both sites are under pageout_one)
            # `attr` pageout_count: the same for the counter of the batch (`pageout_count -= 1; if pageout_count == 0:
            # pageout_all.release()`, success and failure branch): a lost decrement leaves pageout_all held for ever
            attr = op.get("attr", "free_space")
            if attr == "pageout_count":
                outs = [i for i in ids if self.real.jobs.pending[i]["kind"] == "out"]
                if len(outs) >= 2:
                    ids = outs        # two page-out jobs of the batch in flight: both callbacks touch the counter
                    jid = ids[op["idx"] % len(ids)]
            if len(ids) < 2:
                return None
            jid2 = ids[(ids.index(jid) + 1 + op.get("idx2", 0) % (len(ids) - 1)) % len(ids)]
            func = self.real.jobs.pending[jid]["args"][-1]
            self.cur = {"op": "race-cb", "job": self.jobmeta.get(jid), "k": ""}
            _, fired = self._raced(func, jid2, lambda: self.real.job_cb(jid), attr)
            for j in ((jid, jid2) if fired else (jid,)):
                self.cur["op"] = "race-cb"
                self._after_cb(j, "done", observe=(j == (jid2 if fired else jid)))
            return "done"
        if op.get("via") == "purge":
            # a PurgeRequest that really releases (dataset in memory, no reader) on the server thread, racing the callback of a
            # SUCCESSFUL page-out at the STORE_ATTR free_space inside Manager.purge (every site of the update has its own window)
            ids = [i for i in ids if self.real.jobs.pending[i]["kind"] == "out" and self.real.jobs.pending[i]["io"] is True]
            k = op["k"]
            d = self.real.m.datasets.get(k)
            if not ids or d is None or d.status.name != "in_memory" or d.ongoing_reads:
                return None
            jid = ids[op["idx"] % len(ids)]
            g = self.live_alloc(k)
            self.cur = {"op": "race-purge", "k": k, "alloc": g}
            before = self.real.seg_names()
            try:
                out, fired = self._raced(self.real.dsm.Manager.purge, jid, lambda: self.real.purge(k))
            except _Blocked:
                raise
            except Exception as e:
                out, fired = "exception:" + _exc(e), False
            self._vanished(before, "purge-request")
            self._stat("race:purge-site-window-%s" % ("reached" if fired else "not-reached"))
            if fired:
                self._after_cb(jid, "done", observe=False)
                self.cur = {"op": "race-purge", "k": k, "alloc": g, "job": self.jobmeta.get(jid)}
            self._emit({"op": "purge", "k": k}, out)
            return out
        if op.get("via") == "iter":
            # an AllocateRequest that does not fit (page_out_at_least runs) racing the callback of a FAILED page-in job,
            # which pops its dataset from Manager.datasets in a pool thread
            ids = [i for i in ids if self.real.jobs.pending[i]["kind"] == "in" and self.real.jobs.pending[i]["io"] is False]
            if not ids:
                return None
            jid = ids[op["idx"] % len(ids)]
            return self._do_add(op["k"], op["size"], "d" + op["k"], race=jid, race_at="iter")
        if op.get("via") == "get":
            out, _ = self._do_get(op["k"], op["cands"], race=jid)
            return out
        return self._do_add(op["k"], op["size"], "d" + op["k"], race=jid)

    def _op_drainJobs(self, op):
        self.drain()
        return "drained"

    def drain(self):
        """complete every pending disk job successfully (what waiting long enough means)"""
        for _ in range(1000):
            if not self.real.jobs.pending:
                return
            if self._op_io({"op": "io", "idx": 0, "inj": "ok"}) is None:
                self._op_cb({"op": "cb", "idx": 0})

    # ---- the real client layer
    def _install_client(self):
        c = self.real.client
        c.socket = _SocketModule(self)
        c.time = _TimeModule(self)

    def _client_request(self, raw):
        """a datagram sent by the real cascade.shm.client: served by the real LocalServer loop; Allocate/Get requests are ops of
        the history (model line, oracles), close callbacks are recorded for the enclosing close op"""
        api = self.real.api
        ctx = self.client_ctx or {}
        try:
            req = api.deser(raw)
        except Exception:
            req = None
        if ctx.get("kind") in ("alloc", "get") and isinstance(req, (api.AllocateRequest, api.GetRequest)):
            if ctx["kind"] == "get" and not isinstance(req, api.GetRequest) or ctx["kind"] == "alloc" and not isinstance(req, api.AllocateRequest):
                self._flag("client-protocol", f"client.{ctx['kind']} sent {req}")
            i = len(ctx["sched"])
            holder = []
            orig = self.real.rpc_raw

            def capture(b):
                r = orig(b)
                holder.append(r)
                return r
            self.real.rpc_raw = capture
            try:
                if isinstance(req, api.AllocateRequest):
                    entry = {"t": self.t, "env": ctx["env_lines"], "cands": []}
                    ctx["sched"].append(entry)
                    ctx["env_lines"] = []
                    ctx["asked"].append(("alloc", req.key, req.l, req.deser_fun))
                    out = self._do_add(req.key, req.l, req.deser_fun, raw=raw)
                    ctx["last_granted"] = out == "granted"
                else:
                    cands = [self._newrd("c")]
                    entry = {"t": self.t, "env": ctx["env_lines"], "cands": cands}
                    ctx["sched"].append(entry)
                    ctx["env_lines"] = []
                    ctx["asked"].append(("get", req.key))
                    out, rd = self._do_get(req.key, cands, raw=raw, attach=False)
                    ctx["last_granted"] = rd is not None
                    if rd is not None:
                        ctx["rd_rec"] = rd
            finally:
                self.real.rpc_raw = orig
            self.wire.append((raw, holder[0] if holder else b""))
            return holder[0] if holder else b""
        resp = self.real.rpc_raw(raw)
        self.wire.append((raw, resp))
        return resp

    def _client_sleep(self, dt):
        """time.sleep inside _send_command's wait loop: other clients and the disk threads make their steps"""
        ctx = self.client_ctx
        if ctx is None or ctx.get("kind") not in ("alloc", "get"):
            return
        ctx["slept"].append(round(dt * 1000))
        self.t += 1
        self.real.clock.t = self.t
        n0 = len(self.lines)
        i = len(ctx["slept"]) - 1
        env = ctx["op"].get("env", "drain")
        if env == "drain":
            self.drain()
        elif isinstance(env, list) and i < len(env):
            for e in env[i]:
                if e["op"] == "io":
                    self._op_io(e)
                elif e["op"] == "cb":
                    self._op_cb(e)
        self.cur = {"op": ctx["op"]["op"], "k": ctx["op"].get("k", "")}
        ctx["env_lines"] = ctx["env_lines"] + [l for l in self.lines[n0:] if l["op"] in ("io", "cb")]
        if any(l["op"] not in ("io", "cb") for l in self.lines[n0:]):
            ctx["impure_env"] = True

    def _client_call(self, kind, op, fn):
        self._install_client()
        ctx = {"kind": kind, "op": op, "sched": [], "env_lines": [], "asked": [], "slept": []}
        self.wire = []
        self._emit({"op": "clientBegin"}, "begin", observe=False)
        self.client_ctx = ctx
        res, val = None, None
        c = self.real.client
        try:
            val = fn()
            res = "granted"
        except c.ConflictError:
            res = "conflict"
        except TimeoutError:
            res = "timeout"
        except _Blocked:
            raise
        except Exception as e:
            s = str(e)
            if ctx.get("last_granted"):
                # the grant came; creating / attaching the segment failed on the client's side
                res = "granted"
                val = "exists" if isinstance(e, FileExistsError) else "invalid" if isinstance(e, ValueError) else None
            elif isinstance(e, ValueError):
                res = s if s == "capacity exceeded" else self.real._errname(s)
            else:
                res = "exception:" + _exc(e)
        finally:
            self.client_ctx = None
        self.cur = {"op": op["op"], "k": op.get("k", "")}
        tmo = op.get("timeout")
        line = {"op": "clientEnd", "kind": kind, "k": op["k"], "budget": None if tmo is None else round(tmo * 1000), "sched": ctx["sched"],
                "tail": ctx["env_lines"]}
        if kind == "alloc":
            line.update(size=op["size"], deser="d" + op["k"])
        expect = {"res": res, "attempts": len(ctx["sched"]), "same": True}
        if ctx.get("impure_env"):
            expect = None
        self._emit(line, expect, observe=False)
        self._stat("client:%s:%s:attempts=%s" % (kind, res, min(len(ctx["sched"]), 5)))
        if tmo is None:
            self._stat("client:%s:default-timeout" % kind)
        return res, val, ctx

    def _op_c_alloc(self, op):
        """the writer's side as the workers do it: client.allocate (AllocateRequest, repeated while the answer is `wait`) which
        creates the segment; then the bytes are written"""
        k, size, tok = op["k"], op["size"], op["tok"]
        deser = "d" + k
        c = self.real.client
        args = (k, size, deser) + (() if op.get("timeout") is None else (op["timeout"],))
        n0 = len(self.grants)
        res, val, ctx = self._client_call("alloc", op, lambda: c.allocate(*args))
        want = [("alloc", k, size, deser)] * len(ctx["asked"])
        if ctx["asked"] != want:
            self._flag("client-protocol", f"client.allocate({k},{size}) sent {ctx['asked']}")
        g = self.grants[-1] if len(self.grants) > n0 else None
        if g is not None and res == "granted":
            self.cur["alloc"] = g
            out = "ok"
            if val == "exists":
                out = "exists"
            elif val == "invalid":
                out = "invalid"
            else:
                buf = val
                buf._ekw_real_cb = True
                try:
                    if buf.l != size or len(buf.view()) != size:
                        self._flag("client-protocol", f"client.allocate({k},{size}) returned a buffer of {len(buf.view())} bytes")
                    buf.view()[:] = pattern(tok, len(buf.view()))
                except Exception as e:
                    out = "exception:" + _exc(e)
                g["buf"] = buf
            g["tok"] = tok
            g["wsize"] = size
            if out == "ok":
                self.seg_owner[k] = g["gid"]
            seg = self.real.seg_bytes(g["shmid"])
            if out == "ok" and seg is not None and len(seg) != size:
                self._flag("client-protocol", f"client.allocate({k},{size}) created a segment of {len(seg)} bytes")
            self._emit({"op": "cwrite", "k": k, "size": size, "tok": tok}, out)
        if op.get("claim") and res not in ("granted", "conflict"):
            self._flag("never-granted", f"client.allocate({k},{size}) with {'the default' if op.get('timeout') is None else op['timeout']} timeout ended with {res!r} "
                       f"after {len(ctx['sched'])} request(s) although every client had finished and all disk jobs completed between the attempts", api="client")
        return res

    def _op_c_get(self, op):
        k = op["k"]
        c = self.real.client
        args = (k,) + (() if op.get("timeout") is None else (op["timeout"],))
        res, val, ctx = self._client_call("get", op, lambda: c.get(*args))
        want = [("get", k)] * len(ctx["asked"])
        if ctx["asked"] != want:
            self._flag("client-protocol", f"client.get({k}) sent {ctx['asked']}")
        rd = ctx.get("rd_rec")
        if rd is not None:
            buf = val if res == "granted" and val not in ("exists", "invalid", None) else None
            if buf is not None:
                buf._ekw_real_cb = True
                if buf.l != rd["l"] or buf.deser_fun != rd["deser"]:
                    self._flag("client-protocol", f"client.get({k}) returned l={buf.l} deser={buf.deser_fun!r} for the answer l={rd['l']} deser={rd['deser']!r}")
                self._attach(rd, buf)
            else:
                # the grant came but the client could not attach: same claim as for a bare get
                g = self.grants[rd["gid"]] if rd["gid"] is not None else None
                if g is not None and g["tok"] is not None and g["buf"] is not None:
                    self._flag("granted-missing-segment", f"client.get({k}) granted but attaching {rd['shmid']} failed ({res})", **self._mech(alloc=g))
        if op.get("claim") and res == "timeout":
            self._flag("never-granted", f"client.get({k}) with {'the default' if op.get('timeout') is None else op['timeout']} timeout ended with {res!r} after "
                       f"{len(ctx['sched'])} request(s) although every client had finished and all disk jobs completed between the attempts",
                       api="client-get", **self._mech(alloc=self.live_alloc(k)))
        return res

    # ---- eventually granted
    def _op_retry(self, op):
        """C09 text: a request that can be satisfied by evicting idle datasets is eventually granted.
        Every client finishes what it holds, the disk jobs complete; then every dataset the store still holds must be
        readable again after finitely many retries, and an allocation of ANY size up to the capacity must be granted
        (everything is idle, so everything is evictable)."""
        k, size = op["k"], op["size"]
        for g in list(self.grants):
            if g["tok"] is None:       # every writer finishes, also those whose allocation the store has given up meanwhile
                self._op_cwrite({"op": "cwrite", "k": g["k"], "tok": 1 + g["gid"] % 250})
        for g in list(self.grants):
            if not g["closed"] and g["tok"] is not None:
                self._op_closeW({"op": "closeW", "k": g["k"]})
        while self.readers:
            self._op_closeR({"op": "closeR", "idx": 0})
        self.drain()
        # (1) stay reachable: a get of a dataset that is still held by the store (ledger) does not answer `wait` forever
        live = [g for g in self.grants if g["phase"] != "gone" and g.get("made_readable")]
        for j in range(min(op.get("probe", 1), len(live))):
            g = live[(op.get("pick", 0) + j) % len(live)]
            if g["phase"] == "gone":
                continue          # released meanwhile (e.g. its page-out failed: marked bad)
            self.cur = {"op": "retry-get", "k": g["k"], "alloc": g}
            out = None
            if op.get("client"):
                out = self._op_c_get({"op": "c_get", "k": g["k"], "env": "drain", "claim": True})
                if out == "granted":
                    self._op_closeR({"op": "closeR", "idx": len(self.readers) - 1})
                continue
            for attempt in range(5):
                self.t += 1
                self.real.clock.t = self.t
                out, rd = self._do_get(g["k"], [self._newrd("p")])
                if out != "wait":
                    break
                self.drain()
            if out == "wait":
                self._flag("never-granted", f"get({g['k']}) still answered 'wait' after 5 attempts with all disk jobs completed in between "
                           f"(ledger: {g['phase']}, size {g['size']}, capacity {self.cap})", api="get", **self._mech(alloc=g))
            elif isinstance(out, dict):
                self._op_closeR({"op": "closeR", "idx": len(self.readers) - 1})
            self._stat("retry:get:" + (out if isinstance(out, str) else "granted"))
        self.drain()
        # (2) the allocation
        exists = self.live_alloc(k) is not None
        claim = (not exists) and size <= self.cap
        self._stat("retry:" + ("claim" if claim else "noclaim"))
        self.cur = {"op": "retry-add", "k": k}
        if op.get("client"):
            out = self._op_c_alloc({"op": "c_alloc", "k": k, "size": size, "tok": 1 + self.nops % 250, "env": "drain", "claim": claim})
            if claim:
                self._stat("retry:granted" if out == "granted" else "retry:refused")
            return out
        out = None
        for attempt in range(4):
            self.t += 1
            self.real.clock.t = self.t
            out = self._op_add({"op": "add", "k": k, "size": size})
            if out != "wait":
                break
            self.drain()
        if claim and out == "wait":
            resident = sum(g["size"] for g in self.grants if g["phase"] in LIVE_PHASES)
            self._flag("never-granted", f"add({k},{size}) still answered 'wait' after 4 attempts with every client finished and all disk jobs completed in "
                       f"between; capacity {self.cap}, resident by the ledger {resident}", api="add")
        if claim:
            self._stat("retry:granted" if out == "granted" else "retry:refused")
        return out

    def _close_handles(self):
        for g in self.grants:
            if g["buf"] is not None and g["buf"].shm is not None:
                try:
                    g["buf"].shm.close()
                except Exception:
                    pass
        for r in self.readers:
            if r["buf"] is not None and r["buf"].shm is not None:
                try:
                    r["buf"].shm.close()
                except Exception:
                    pass

    def _op_atexit(self, op):
        """the shm server's exit handler (ShutdownCommand / SIGTERM -> Manager.atexit) at the end of the history, with
        whatever readers, writers, delayed purges and disk jobs the history left behind (C05: no segment may survive)"""
        self._close_handles()
        self.real.exited = True
        self.real.m.atexit()
        segs = self.real._dir("/dev/shm", self.real.prefix)
        full = self.real.observe_ds()
        self.lines.append({"op": "atexit"})
        self.outs.append({"out": "atexit", "st": {"segs": segs, "ds": full}})
        self.nops += 1
        self._stat("op:atexit")
        prev = next((o for o in reversed(self.outs[:-1]) if "st" in o), None)
        if prev and any(d["readers"] for d in prev["st"]["ds"]):
            self._stat("atexit:with-registered-readers")
        if segs:
            # mechanism: is every left-over segment one that a LATE WRITER created after the store had already released
            # that allocation (stale `created` dataset evicted / dropped while its writer had not even created the segment)?
            # The Manager never learns of such a segment, so its exit handler cannot unlink it.
            late = []
            for name, *_ in segs:
                gs = [g for g in self.grants if g.get("shmid") == name or g.get("k") == name]
                late.append(bool(gs) and gs[-1].get("phase") == "gone" and bool(gs[-1].get("dropped_open")))
            self._flag("segments-left-after-atexit", f"after Manager.atexit the segments {[x[0] for x in segs]} are still in /dev/shm "
                       f"(datasets still known: {[(d['k'], d['status'], len(d['readers'])) for d in full]})",
                       late_writer_segment=all(late))

    def finish(self):
        if ATEXIT_LINE and not getattr(self, "deadlocked", False):
            self.apply({"op": "atexit"})
        self._close_handles()
        return self.real.shutdown()


# =============================================================================== generator

HUGE_SIZES = (2 ** 31 - 1, 2 ** 31, 2 ** 32, 2 ** 63 - 1, 2 ** 63, 2 ** 64 - 1)      # around the signed / unsigned limits of the 8-byte `l` field


def boundary_sizes(cap):
    return (0, 1, max(cap - 1, 0), cap, cap + 1) + HUGE_SIZES


def boundary_label(size, cap):
    for v, n in ((2 ** 31 - 1, "2^31-1"), (2 ** 31, "2^31"), (2 ** 32, "2^32"), (2 ** 63 - 1, "2^63-1"), (2 ** 63, "2^63"), (2 ** 64 - 1, "2^64-1")):
        if size == v:
            return n
    return "0" if size == 0 else "capacity" if size == cap else "capacity+1" if size == cap + 1 else "capacity-1" if size == cap - 1 else "1" if size == 1 else "other"


def gen_and_run(rng, cfg):
    """Generate a history adaptively while running it on the real store.
    cfg: cap, nkeys, nclients, nops, via_server, unsafe (allow purge in transitional status), jumps, stale, big, nonconform"""
    run = Runner(cfg["cap"], cfg["via_server"], cfg.get("stale"), cfg.get("avail"))
    ops = []
    keys = ["k%d" % i for i in range(cfg["nkeys"])]
    cap = run.cap
    rd = itertools.count()
    t = 1
    stale_max = max(run.real.stale_read, run.real.stale_create)
    stale_min = min(run.real.stale_read, run.real.stale_create)
    def step():
        nonlocal t
        if True:
            t = max(t, run.t)
            t += rng.randint(1, 5)
            if cfg["jumps"] and rng.random() < 0.04:
                r = rng.random()
                # beyond both windows, or between the two (only one kind of staleness applies)
                t += (stale_max + rng.randint(0, 50)) if r < 0.6 or stale_max == stale_min else rng.randint(stale_min + 1, stale_max)
            real = run.real
            status = {k: d.status.name for k, d in real.m.datasets.items()}
            unwritten = [g for g in run.grants if g["tok"] is None and g["phase"] != "gone"]
            unclosed = [g for g in run.grants if g["tok"] is not None and not g["closed"]]
            pend_io = [j for j in real.jobs.pending.values() if j["io"] is None]
            pend_cb = [j for j in real.jobs.pending.values() if j["io"] is not None]
            c09 = cfg.get("profile") == "c09"
            w = [("add", 12 if c09 else 15), ("get", 20 if c09 else 12), ("purge", 8 if c09 else 6), ("freeSpace", 1 if c09 else 3),
                 ("cwrite", 30 if unwritten else 0), ("closeW", 14 if unclosed else 0),
                 ("closeR", (8 if c09 else 10) if run.readers else 0), ("io", 14 if pend_io else 0), ("cb", 16 if pend_cb else 0),
                 ("bogus", 1), ("retry", 2 if c09 else 1), ("c_alloc", 4), ("c_get", (5 if c09 else 3) if status else 0),
                 ("race", 6 if pend_cb else 0)]
            kind = rng.choices([x for x, _ in w], [y for _, y in w])[0]
            k = rng.choice(keys)

            def a_size():
                r = rng.random()
                if r < 0.02:
                    return 0
                if cfg.get("big") and r < 0.5:
                    return rng.choice([CHUNK, CHUNK + 1, 2 * CHUNK, 2 * CHUNK + 1, rng.randint(CHUNK + 1, max(CHUNK + 2, min(cap, 3 * CHUNK)))])
                return rng.randint(1, max(1, min(cap, 64) // 2)) if r < 0.6 else rng.randint(1, min(cap, 64) if cfg.get("big") else cap) if r < 0.93 else cap + rng.randint(1, 3)

            def env_steps():
                """what the other clients' disk jobs do during one sleep of the waiting client"""
                r = rng.random()
                if r < 0.55:
                    return "drain"
                return [[{"op": rng.choice(["io", "io", "cb"]), "idx": rng.randrange(3), "inj": rng.choice(["ok", "ok", "ok", "fail"])}
                         for _ in range(rng.randint(0, 3))] for _ in range(rng.randint(0, 4))]
            if kind == "add":
                op = {"op": "add", "c": rng.randrange(cfg.get("nclients", 1)), "k": k, "size": a_size(), "t": t}
                if rng.random() < 0.12:
                    op.update(size=rng.choice(boundary_sizes(cap)), wire=True)
            elif kind == "get":
                if rng.random() < 0.7 and status:
                    k = rng.choice(sorted(status))
                cands = []
                d = real.m.datasets.get(k)
                if d is not None and d.ongoing_reads and rng.random() < 0.3:
                    cands.append(rng.choice(sorted(d.ongoing_reads)))
                cands.append("r%07d" % next(rd))
                op = {"op": "get", "c": rng.randrange(cfg.get("nclients", 1)), "k": k, "t": t, "cands": cands}
            elif kind == "purge":
                if rng.random() < 0.8 and status:
                    k = rng.choice(sorted(status))
                d = real.m.datasets.get(k)
                if d is not None and not d.ongoing_reads and d.status.name in UNSAFE and not cfg["unsafe"]:
                    return
                op = {"op": "purge", "k": k}
            elif kind == "freeSpace":
                op = {"op": "freeSpace"}
            elif kind == "cwrite":
                g = rng.choice(unwritten)
                op = {"op": "cwrite", "k": g["k"], "tok": rng.randint(1, 250)}
                if cfg.get("nonconform") and rng.random() < 0.4:
                    op["size"] = max(1, g["size"] + rng.choice([-2, -1, 1, 3, CHUNK]))     # not what client.allocate does
            elif kind == "closeW":
                op = {"op": "closeW", "k": rng.choice(unclosed)["k"]}
            elif kind == "closeR":
                op = {"op": "closeR", "idx": rng.randrange(8)}
            elif kind == "io":
                r = rng.random()
                op = {"op": "io", "idx": rng.randrange(4), "inj": "ok" if r < 0.8 else "fail" if r < 0.92 else "failLate"}
                if r < 0.25:
                    # a purge served while the writer thread of the job is between write and unlink
                    ids = [i for i, j in sorted(real.jobs.pending.items()) if j["io"] is None]
                    job = real.jobs.pending[ids[op["idx"] % len(ids)]]
                    own = real.name2key.get(job["args"][0])
                    others = [x for x in sorted(status) if x != own]
                    od = real.m.datasets.get(own) if own is not None else None
                    mk = own if (cfg["unsafe"] and rng.random() < 0.5) or not others or (od is not None and od.ongoing_reads and rng.random() < 0.8) else rng.choice(others)
                    d = real.m.datasets.get(mk) if mk is not None else None
                    unsafe_target = d is not None and not d.ongoing_reads and d.status.name in UNSAFE
                    if mk is not None and (cfg["unsafe"] or not unsafe_target):
                        op["mid_purge"] = True
                        op["mid_key"] = mk
            elif kind == "cb":
                op = {"op": "cb", "idx": rng.randrange(4)}
            elif kind == "bogus":
                r = rng.random()
                if r < 0.4:
                    op = {"op": "closeR", "bogus": True, "k": k, "rdid": "zz%06d" % rng.randrange(3)}
                elif r < 0.7:
                    op = {"op": "closeW", "bogus": True, "k": k}
                else:
                    op = {"op": "get", "k": "nokey", "t": t, "cands": ["r%07d" % next(rd)]}
            elif kind == "c_alloc":
                op = {"op": "c_alloc", "k": k, "size": a_size(), "tok": rng.randint(1, 250), "t": t, "env": env_steps()}
                if rng.random() < 0.1:
                    op["size"] = rng.choice(boundary_sizes(cap))       # client.allocate always goes through the wire encoding
                if op["k"] in status or op["size"] > real.m.free_space or rng.random() < 0.3:
                    op["timeout"] = rng.choice(TIMEOUTS)      # the default (60 s = 600 attempts) only where the grant is due at once
            elif kind == "c_get":
                k = rng.choice(sorted(status))
                op = {"op": "c_get", "k": k, "t": t, "env": env_steps()}
                if status.get(k) != "in_memory" or rng.random() < 0.3:
                    op["timeout"] = rng.choice(TIMEOUTS)
            elif kind == "race":
                ondisk = [x for x in sorted(status) if status[x] == "on_disk"]
                failed_in = [j for j in pend_cb if j["kind"] == "in" and j["io"] is False]
                if failed_in and rng.random() < 0.7:
                    free = real.m.free_space
                    fresh = [x for x in keys if x not in status] or ["z%d" % next(rd)]
                    op = {"op": "race", "via": "iter", "k": rng.choice(fresh), "size": rng.randint(min(free + 1, cap), cap),
                          "idx": rng.randrange(4), "t": t}
                elif any(j["kind"] == "out" and j["io"] is True for j in pend_cb) and rng.random() < 0.3 and \
                        [x for x in sorted(status) if status[x] == "in_memory" and not real.m.datasets[x].ongoing_reads]:
                    idle = [x for x in sorted(status) if status[x] == "in_memory" and not real.m.datasets[x].ongoing_reads]
                    op = {"op": "race", "via": "purge", "k": rng.choice(idle), "idx": rng.randrange(4), "t": t}
                elif len(pend_cb) >= 2 and rng.random() < 0.5:
                    op = {"op": "race", "via": "cb", "idx": rng.randrange(4), "idx2": rng.randrange(4), "t": t}
                    if rng.random() < 0.6:
                        op["attr"] = "pageout_count"
                elif ondisk and rng.random() < 0.4:
                    op = {"op": "race", "via": "get", "k": rng.choice(ondisk), "cands": ["r%07d" % next(rd)], "idx": rng.randrange(4), "t": t}
                else:
                    free = real.m.free_space
                    fresh = [x for x in keys if x not in status] or ["z%d" % next(rd)]
                    op = {"op": "race", "k": rng.choice(fresh), "size": rng.randint(1, max(1, min(free, 64))), "idx": rng.randrange(4), "t": t}
            else:
                op = {"op": "retry", "k": "n%d" % rng.randrange(3), "size": rng.randint(1, cap), "t": t, "probe": rng.randint(0, 2),
                      "pick": rng.randrange(6), "client": rng.random() < 0.4}
            op.setdefault("t", t)
            ops.append(op)
            run.apply(op)

    def do(op):
        """a scripted op of the life-cycle family"""
        nonlocal t
        t = max(t, run.t) + 1
        op["t"] = t
        ops.append(op)
        return run.apply(op)

    def until(mk, ok, tries=5):
        out = None
        for _ in range(tries):
            out = do(mk())
            if ok(out):
                return out
            if out != "wait":
                return out
            do({"op": "drainJobs"})
            if rng.random() < 0.3:
                step()
        return out

    def lifecycle():
        """one key lives several lives: written, evicted by memory pressure, read back (page-in), purged, and allocated again
        with the SAME size and different bytes -- the spill file of the previous life is still on disk"""
        key, press = "L", "LP"
        size = rng.randint(1, cap) if not cfg.get("big") or rng.random() < 0.5 else rng.randint(CHUNK + 1, cap)
        for life in range(rng.randint(2, 4)):
            tok = rng.randint(1, 250)
            if until(lambda: {"op": "add", "k": key, "size": size}, lambda o: o == "granted") != "granted":
                return
            do({"op": "cwrite", "k": key, "tok": tok})
            do({"op": "closeW", "k": key})
            for cycle in range(rng.randint(1, 2)):
                if rng.random() < 0.4:
                    step()
                # memory pressure: an allocation of the whole capacity evicts everything idle
                if until(lambda: {"op": "add", "k": press, "size": cap}, lambda o: o == "granted") == "granted":
                    do({"op": "cwrite", "k": press, "tok": rng.randint(1, 250)})
                    do({"op": "closeW", "k": press})
                    do({"op": "purge", "k": press})
                if rng.random() < 0.4:
                    step()
                out = until(lambda: {"op": "get", "k": key, "cands": ["L%07d" % next(rd)]}, lambda o: isinstance(o, dict))
                if isinstance(out, dict):
                    idx = next((i for i, r in enumerate(run.readers) if r["k"] == key), None)
                    if idx is not None:
                        do({"op": "closeR", "idx": idx})
            do({"op": "purge", "k": key})
            run._stat("lifecycle:lives-completed")

    def two_batch():
        """two idle datasets are evicted in ONE batch (pageout_count 2) and the two callbacks meet in two pool threads: the
        second arrives while the first is between reading and writing pageout_count (or free_space); either job may have failed"""
        if cap < 2:
            return
        s1 = rng.randint(1, cap - 1)
        s2 = rng.randint(1, cap - s1)
        for key, size in (("B1", s1), ("B2", s2)):
            if do({"op": "add", "k": key, "size": size}) != "granted":
                return
            do({"op": "cwrite", "k": key, "tok": rng.randint(1, 250)})
            do({"op": "closeW", "k": key})
            if rng.random() < 0.3:
                out = do({"op": "get", "k": key, "cands": ["B%07d" % next(rd)]})
                if isinstance(out, dict):
                    do({"op": "closeR", "idx": len(run.readers) - 1})
        if do({"op": "add", "k": "BP", "size": cap}) != "wait":
            return
        for _ in range(2):
            r = rng.random()
            do({"op": "io", "idx": 0, "inj": "ok" if r < 0.7 else "fail"})
        do({"op": "race", "via": "cb", "idx": rng.randrange(2), "idx2": 0, "attr": "pageout_count" if rng.random() < 0.75 else "free_space"})
        run._stat("family:two-callbacks-of-one-batch")

    def iter_race():
        """a page-in fails; its callback (which pops the dataset from Manager.datasets) runs in a second thread while the server
        thread iterates over Manager.datasets for an allocation that does not fit"""
        if cap < 2:
            return
        s1 = rng.randint(1, cap - 1)
        if do({"op": "add", "k": "I1", "size": s1}) != "granted":
            return
        do({"op": "cwrite", "k": "I1", "tok": rng.randint(1, 250)})
        do({"op": "closeW", "k": "I1"})
        if do({"op": "add", "k": "I2", "size": cap}) != "wait":
            return
        do({"op": "drainJobs"})
        if do({"op": "add", "k": "I2", "size": cap - s1}) != "granted":
            return
        do({"op": "cwrite", "k": "I2", "tok": rng.randint(1, 250)})
        if rng.random() < 0.7:
            do({"op": "closeW", "k": "I2"})
        if do({"op": "get", "k": "I1", "cands": ["I%07d" % next(rd)]}) != "wait":
            return
        do({"op": "io", "idx": 0, "inj": rng.choice(["fail", "failLate"])})
        do({"op": "race", "via": "iter", "k": "I3", "size": rng.randint(1, cap), "idx": 0})
        run._stat("family:failed-page-in-callback-during-eviction-scan")

    try:
        # every history: allocate requests with the size field at the limits of its 8-byte encoding, as datagrams
        for size in rng.sample(HUGE_SIZES, 2):
            do({"op": "add", "c": 0, "k": rng.choice(keys), "size": size, "wire": True})
        if cfg.get("lifecycle"):
            lifecycle()
        if cfg.get("family") == "two_batch":
            two_batch()
        elif cfg.get("family") == "iter_race":
            iter_race()
        for _ in range(cfg["nops"] if not cfg.get("lifecycle") else cfg["nops"] // 4):
            step()
        if cfg.get("final_retry"):
            op = {"op": "retry", "k": "final", "size": rng.randint(max(1, cap // 2), cap), "t": max(t, run.t) + 1, "probe": 4,
                  "pick": rng.randrange(6), "client": rng.random() < 0.4}
            ops.append(op)
            run.apply(op)
    finally:
        left = run.finish()
    return ops, run, left


def replay_history(case):
    """Run a recorded history {cap, via_server, stale, ops} on a fresh real store."""
    stale = case.get("stale")
    run = Runner(case["cap"], case.get("via_server", False), tuple(stale) if stale else None, case.get("avail"))
    try:
        for op in case["ops"]:
            run.apply(op)
    finally:
        left = run.finish()
    return run, left


def shrink(case, sig, budget_s=120):
    """Greedy removal of ops that keeps an oracle failure with the same signature."""
    def fails(ops):
        r, _ = replay_history({**case, "ops": ops})
        return any(e[3] == sig for e in r.events)
    cur = list(case["ops"])
    if not fails(cur):
        return case
    changed = True
    import time as _time
    t_end = _time.time() + (min(40, budget_s) if sig.get("kind") == "request-never-answered" else budget_s)
    # first cut the tail after the failing op (cheap, and the only affordable step when every replay costs an op deadline)
    while len(cur) > 1 and _time.time() < t_end and fails(cur[:-1]):
        cur = cur[:-1]
    while changed and _time.time() < t_end:
        changed = False
        for i in range(len(cur) - 1, -1, -1):
            if _time.time() >= t_end:
                break
            cand = cur[:i] + cur[i + 1:]
            if fails(cand):
                cur = cand
                changed = True
    return {**case, "ops": cur}


# =============================================================================== batches (used by c08.py / c09.py)

C08_KINDS = ("segments-exceed-capacity", "resident-exceeds-capacity", "free-space-mismatch", "segments-exceed-accounted",
             "granted-early", "granted-over-existing", "oversize-not-refused", "nofit-not-wait", "request-never-answered")
C09_KINDS = ("granted-missing-segment", "content-mismatch", "readable-before-close", "reader-unprotected",
             "delayed-purge-lost", "never-granted", "request-never-answered", "client-protocol")


def random_cfg(rng, maxops, maxkeys, profile):
    big = rng.random() < 0.05
    r = rng.random()
    # STALE_CREATE / STALE_READ: the source's values (equal), or small and different ones
    stale = None if r < 0.35 else (rng.choice([40, 120, 400]), rng.choice([60, 200, 900]))
    cap = rng.randint(CHUNK + 1, 5 * CHUNK) if big else rng.randint(1, 64)
    r2 = rng.random()
    # what /dev/shm offers: plenty (70%), or an amount around the configured capacity (Manager.__init__ trims), or no capacity configured
    avail = None if r2 < 0.7 or big else rng.randint(1, 2 * cap)
    if avail is not None and rng.random() < 0.15:
        cap = 0          # capacity=None/0: the store takes what /dev/shm offers
    return {"cap": cap, "big": big, "avail": avail,
            "nkeys": rng.randint(1, maxkeys), "nclients": rng.randint(1, 4),
            "nops": rng.randint(5, maxops), "via_server": rng.random() < 0.5, "unsafe": rng.random() < 0.12,
            "nonconform": rng.random() < 0.05, "stale": stale, "lifecycle": rng.random() < 0.08,
            "jumps": rng.random() < (0.45 if profile == "c09" else 0.25),
            "final_retry": rng.random() < (0.8 if profile == "c09" else 0.4), "profile": profile,
            "family": _family(rng.random())}


def _family(r):
    """scripted openings (the random ops follow): thread-level meetings that random histories reach too rarely"""
    return "two_batch" if r < 0.10 else "iter_race" if r < 0.17 else None


def compare_with_model(ctx, runs, drive="C08"):
    """runs: list of (case, Runner). One Lean driver process for all histories; op-by-op comparison."""
    import json
    from ekw.core import lean_drive
    lines = []
    for _, run in runs:
        lines += [json.dumps(l) for l in run.lines]
    res = lean_drive(drive, lines)
    k = 0
    for case, run in runs:
        ctx.traces += 1
        for i, (l, o) in enumerate(zip(run.lines, run.outs)):
            try:
                mo = json.loads(res[k + i])
            except Exception:
                mo = {"out": "unparsable:" + (res[k + i] if k + i < len(res) else "<missing>")[:80]}
            st = mo.get("st", {})
            mo2 = {"out": mo.get("out")}
            if "st" in o:
                mo2["st"] = {kk: st.get(kk) for kk in o["st"]}
            if l.get("op") == "clientEnd":
                ctx.count("client_calls_compared_as_a_whole" if o["out"] is not None else "client_calls_NOT_compared_as_a_whole")
                ctx.extra["shm_client_calls"] = ctx.extra.get("shm_client_calls", 0) + 1
            if o["out"] is None and "st" not in o:
                # a client call whose sleeps contained more than disk-job steps (its requests were compared one by one, the
                # call as a whole is not); counted, and more than a handful is a broken tie
                ctx.extra["shm_client_calls_skipped"] = ctx.extra.get("shm_client_calls_skipped", 0) + 1
                continue
            if mo2 != o:
                diff = [kk for kk in o.get("st", {}) if mo2.get("st", {}).get(kk) != o["st"][kk]]
                ctx.disagree("shm-op %d %s (differs: out=%s %s)" % (i, l.get("op"), mo2["out"] != o["out"], diff),
                             {**case, "ops": case["ops"], "first_bad_model_line": i, "model_lines": run.lines[:i + 1][-12:]},
                             mo2, o)
                break
        k += len(run.lines)
    skipped, calls = ctx.extra.get("shm_client_calls_skipped", 0), ctx.extra.get("shm_client_calls", 0)
    if skipped > max(3, calls // 50) and not ctx.extra.get("shm_skip_reported"):
        ctx.extra["shm_skip_reported"] = True
        ctx.disagree("client calls not compared as a whole", {"skipped": skipped, "client_calls": calls}, "at most max(3, 2%)", skipped)


def check_source_constants(ctx):
    try:
        got = source_constants()
    except Exception as e:
        got = {"error": _exc(e)}
    if got != EXPECTED_CONSTANTS:
        ctx.disagree("source-constants", {"expected": EXPECTED_CONSTANTS}, EXPECTED_CONSTANTS, got)


def _capture_get_capacity(dsm):
    global _ORIG_GET_CAPACITY
    if _ORIG_GET_CAPACITY is None and getattr(dsm.get_capacity, "__module__", None) == dsm.__name__:
        _ORIG_GET_CAPACITY = dsm.get_capacity


def check_get_capacity(ctx):
    """what the store takes as 'available in /dev/shm' (the input `avail` of the model): the REAL dataset.get_capacity with
    subprocess.run replaced: it must ask findmnt for the AVAIL column of /dev/shm IN BYTES and return the number of the
    second output line; without findmnt (macOS) the documented 128 GiB"""
    import types
    import cascade.shm.dataset as dsm
    _capture_get_capacity(dsm)
    f = _ORIG_GET_CAPACITY
    if f is None:
        ctx.count("get_capacity:not-available-for-probing")
        return
    asked = []
    orig = dsm.subprocess.run
    try:
        for out, want in ((b"AVAIL\n12345\n", 12345), (b"      AVAIL\n 67108864\n", 67108864), (None, 128 * 1024 ** 3),
                          (b"AVAIL\n%d\n" % (n := ctx.rng.randint(1, 1 << 45)), n)):
            def fake_run(args, **kw):
                asked.append(list(args))
                if out is None:
                    raise FileNotFoundError(args[0])
                return types.SimpleNamespace(stdout=out, stderr=b"", returncode=0)
            dsm.subprocess.run = fake_run
            try:
                got = f()
            except Exception as e:
                got = "exception:" + _exc(e)
            ctx.count("get_capacity:" + ("no-findmnt" if out is None else "findmnt-two-lines"))
            if got != want:
                ctx.disagree("get-capacity", {"findmnt_stdout": None if out is None else out.decode()}, want, got)
                return
    finally:
        dsm.subprocess.run = orig
    bad = [a for a in asked if not (a[:1] == ["findmnt"] and "-b" in a and "AVAIL" in a and a[-1] == "/dev/shm")]
    if bad:
        ctx.disagree("get-capacity-command", {}, ["findmnt", "-b", "-o", "AVAIL", "/dev/shm"], bad[0])


def executor_capacity(shm_vol_gb, avail):
    """How the capacity configured at the executor reaches the store: the REAL cascade.executor.executor.Executor.__init__
    (Listener, ReliableSender, process context, atexit and the port publication replaced) is asked which process it starts
    with the shm server's entrypoint as target; that target is then CALLED with exactly those arguments over a scripted
    socket holding one FreeSpaceRequest and the ShutdownCommand (get_capacity() stubbed to `avail`).
    Returns (capacity of the Manager it built, the free space the empty store answered)."""
    import types
    import cascade.executor.executor as xmod
    import cascade.shm.api as api
    import cascade.shm.dataset as dsm
    import cascade.shm.server as server
    from cascade.low.core import JobInstance
    started = []

    class _P:
        def __init__(self, *a, **k):
            self.target, self.args, self.kwargs = k.get("target"), tuple(k.get("args", ())), dict(k.get("kwargs", {}))
            self.pid, self.exitcode = 1, None

        def start(self):
            started.append(self)

        def is_alive(self):
            return False

        def join(self, *a):
            pass

        def kill(self):
            pass

    class _L:
        def __init__(self, address):
            self.address = address

    class _S:
        def __init__(self, *a):
            pass

        def add_host(self, *a):
            pass

    saved = (xmod.Listener, xmod.ReliableSender, xmod.get_context, xmod.atexit, xmod.shm_api)
    xmod.Listener, xmod.ReliableSender = _L, _S
    xmod.get_context = lambda kind: types.SimpleNamespace(Process=_P)
    xmod.atexit = types.SimpleNamespace(register=lambda f: None)
    xmod.shm_api = types.SimpleNamespace(publish_client_port=lambda p: None)
    try:
        xmod.Executor(JobInstance(tasks={}, edges=[]), "ctrl", 1, "h0", 12345, shm_vol_gb)
    finally:
        xmod.Listener, xmod.ReliableSender, xmod.get_context, xmod.atexit, xmod.shm_api = saved
    procs = [p for p in started if p.target is xmod.shm_server]
    if len(procs) != 1 or xmod.shm_server is not server.entrypoint:
        return "shm server processes started: %d" % len(procs), None
    proc = procs[0]
    sock = _Sock()
    sock.inbox = [api.ser(api.FreeSpaceRequest()), api.ser(api.ShutdownCommand())]
    managers = []
    orig_init = dsm.Manager.__init__

    def spy(self, *a, **k):
        orig_init(self, *a, **k)
        managers.append(self)
        for name in ("readers", "writers"):
            getattr(self.disk, name).shutdown()
    server.socket = types.SimpleNamespace(AF_INET=2, SOCK_DGRAM=2, socket=lambda *a, **k: sock)
    server.signal = types.SimpleNamespace(SIGINT=2, SIGTERM=15, signal=lambda signum, handler: None)
    old_cap, old_dc = dsm.get_capacity, server.logging.config.dictConfig
    dsm.get_capacity = lambda: avail
    server.logging.config.dictConfig = lambda cfg: None      # the executor passes its logging configuration
    dsm.Manager.__init__ = spy
    try:
        proc.target(*proc.args, **proc.kwargs)
    except _Detach:
        pass
    finally:
        dsm.Manager.__init__ = orig_init
        dsm.get_capacity, server.logging.config.dictConfig = old_cap, old_dc
    answer = api.deser(sock.sent[0]).free_space if sock.sent else None
    return (managers[0].capacity if len(managers) == 1 else "managers built: %d" % len(managers)), answer


def check_executor_capacity(ctx):
    """the executor's shm_vol_gb (GiB; None / 0 = not configured) -> bytes -> server.entrypoint -> Manager.capacity and the answer
    to a FreeSpaceRequest of the empty store, for values around what /dev/shm offers; expected from the property text:
    the configured bytes, never more than what is available, all of it when nothing is configured"""
    G = 1024 ** 3
    for gb, avail in ((None, 5 * G), (0, 3 * G), (1, 5 * G), (2, 2 * G), (3, 2 * G + 17), (64, 200 * G), (1, G - 1),
                      (ctx.rng.randint(1, 300), ctx.rng.randint(1, 300 * G))):
        want = min(gb * G, avail) if gb else avail
        try:
            got = executor_capacity(gb, avail)
        except Exception as e:
            got = ("exception:" + _exc(e) + ":" + str(e)[:80], None)
        ctx.count("executor_capacity_path:" + ("not-configured" if not gb else "trimmed" if gb * G > avail else "configured"))
        if got != (want, want):
            ctx.disagree("executor-capacity-path", {"shm_vol_gb": gb, "available_bytes": avail}, [want, want], list(got))
            ctx.violation({"kind": "capacity-not-as-configured", "unsafe_purge": False}, {"executor_probe": True, "shm_vol_gb": gb, "avail": avail},
                          f"an executor configured with shm_vol_gb={gb} (with {avail} bytes available in /dev/shm) started a store whose "
                          f"(capacity, free space reported when empty) is {got}, expected {want} bytes")
            return


def run_batch(ctx, kinds, profile, n, maxops, maxkeys, corpus_glob, chunk=300):
    """Corpus cases first, then n random histories (in chunks, one Lean driver process per chunk); oracle
    violations of `kinds` are reported (shrunk), every trace is compared with the model after every op."""
    import glob
    import json
    from ekw.core import CORPUS_DIR, load_known, match_known
    check_source_constants(ctx)
    if "free-space-mismatch" in kinds:
        check_get_capacity(ctx)
        check_executor_capacity(ctx)
    known = load_known()
    seen = {}
    todo = n
    first = True
    while first or todo > 0:
        cases = []
        if first:
            for f in sorted(glob.glob(str(CORPUS_DIR / corpus_glob))):
                case = json.load(open(f))
                case = case.get("case", case)
                run, left = replay_history(case)
                cases.append((case, run, left))
                ctx.count("corpus_witnesses_replayed")
            first = False
        blocked = 0
        for _ in range(min(chunk, todo)):
            cfg = random_cfg(ctx.rng, maxops, maxkeys, profile)
            ops, run, left = gen_and_run(ctx.rng, cfg)
            cases.append(({"cap": cfg["cap"], "via_server": cfg["via_server"], "stale": cfg["stale"], "avail": cfg["avail"], "ops": ops}, run, left))
            ctx.count("histories_capacity_" + ("plenty_available" if cfg["avail"] is None else "not_configured" if not cfg["cap"] else
                                               "trimmed_to_available" if cfg["avail"] < cfg["cap"] else "below_available"))
            ctx.count("histories_with_datasets_larger_than_chunk" if cfg["big"] else "histories_small_datasets")
            if cfg["lifecycle"]:
                ctx.count("histories_life_cycles_of_one_key")
            ctx.count("histories_stale_constants_of_source" if cfg["stale"] is None else
                      "histories_stale_create_%s_stale_read" % ("<" if cfg["stale"][0] < cfg["stale"][1] else ">" if cfg["stale"][0] > cfg["stale"][1] else "="))
            blocked += 1 if getattr(run, "deadlocked", False) else 0
            if getattr(run, "deadlocked", False):
                ctx.count("histories_cut_short_by_a_request_never_answered")
            if cfg.get("family"):
                ctx.count("histories_opening_" + cfg["family"])
            if blocked >= 4:
                todo = 0            # a store that stops answering: each further history costs a full op deadline and shows the same
                break
        todo -= min(chunk, todo)
        runs = []
        for case, run, left in cases:
            runs.append((case, run))
            st = run.stats
            nontrivial = st.get("op:cb", 0) > 0 or st.get("add:wait", 0) > 0 or st.get("get:granted", 0) > 0
            ctx.case({"cap": case["cap"], "via_server": case.get("via_server", False), "n_ops": len(case["ops"]), "ops": case["ops"][:10]},
                     nontrivial=nontrivial)
            ctx.count("histories")
            ctx.count("histories_via_server_dispatch" if case.get("via_server") else "histories_direct_manager")
            ctx.count("model_steps_compared", run.nops)
            if run.unsafe_purge:
                ctx.count("histories_with_disk_job_orphaned_by_purge")
            for kk, v in st.items():
                ctx.count(kk, v)
            if left:
                ctx.count("histories_leaving_segments_after_atexit")
            for ev in run.events:
                if ev[0] not in kinds:
                    continue
                sig = ev[3]
                if sig.get("nonconform_writer"):
                    ctx.count("oracle:" + sig["kind"] + ":writer-did-not-conform (assumption broken by the harness on purpose)")
                    continue
                key = json.dumps(sig, sort_keys=True)
                seen[key] = seen.get(key, 0) + 1
                ctx.count("oracle:" + sig["kind"] + (":orphaned-job" if sig.get("unsafe_purge") else ""))
                if seen[key] > 2:
                    continue            # same signature again: already reported with a shrunk input
                if match_known(ctx.prop, sig, known) is not None and seen[key] > 1:
                    continue
                # shrinking costs real time (every candidate is replayed on the real store): a few signatures per run, the rest as found
                ctx.extra["shm_shrinks"] = ctx.extra.get("shm_shrinks", 0) + 1
                small = shrink(case, sig, budget_s=ctx.budget(30, 120)) if ctx.extra["shm_shrinks"] <= ctx.budget(5, 20) else case
                r2, _ = replay_history(small)
                f2 = next((e for e in r2.events if e[3] == sig), ev)
                ctx.violation(sig, small, f2[1])
        compare_with_model(ctx, runs)
        if len(ctx.disagreements) > 50:
            break                   # the tie is broken; more of the same adds nothing


def replay_print(payload, kinds):
    case = payload["case"]
    if case.get("executor_probe"):
        G = 1024 ** 3
        gb, avail = case["shm_vol_gb"], case["avail"]
        want = min(gb * G, avail) if gb else avail
        got = executor_capacity(gb, avail)
        print(f"Executor(shm_vol_gb={gb}), /dev/shm offers {avail}: Manager.capacity, free space answered = {got}; expected {want}")
        print("oracle:", "capacity-not-as-configured" if got != (want, want) else None)
        return 1 if got != (want, want) else 0
    run, left = replay_history(case)
    for l, o in zip(run.lines, run.outs):
        st = o.get("st", {})
        print({k: v for k, v in l.items() if k != "sched"}, "->", o["out"], "| free", st.get("free"), "lock", st.get("lock"), "count", st.get("count"),
              [(d["k"], d["status"], d["size"], len(d["readers"])) for d in st.get("ds", [])], "segs", st.get("segs"))
    fs = [e for e in run.events if e[0] in kinds]
    for f in fs:
        print("oracle:", f[:3], f[3])
    if not fs:
        print("oracle: None")
    return 1 if fs else 0
