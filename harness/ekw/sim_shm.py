"""Shared simulation helper of C08/C09: the REAL `cascade.shm.dataset.Manager` in-process.

* real `SharedMemory` segments in /dev/shm (tiny sizes, a unique name prefix per Manager),
  real `Disk._page_out/_page_in` on a real temporary directory, real `client.AllocatedBuffer`
  for the writer/reader side, optionally the real `server.LocalServer.start` dispatch with the
  real `api.ser/deser` over a scripted datagram socket;
* `disk.readers/writers` are ManualPools: the harness decides when the I/O part of a job runs
  (or fails) and, separately, when its callback runs;
* `dataset.time` / `dataset.uuid` are deterministic fakes (time = the `t` of the op);
* after EVERY op: canonical observation of the real state (answer, free space, lock, counter,
  datasets, segments with contents, files, pending jobs) for the comparison with Model/Shm.lean,
  and the property oracles (written from the property text, not from the model).
No hooks in /repo: only module globals are replaced from here.
"""
import itertools
import os

_counter = itertools.count()
RESIDENT = ("created", "in_memory", "paging_out", "paged_in")
UNSAFE = ("created", "paging_out", "paged_in")


def _b36(n):
    s = ""
    while True:
        s = "0123456789abcdefghijklmnopqrstuvwxyz"[n % 36] + s
        n //= 36
        if not n:
            return s


def pattern(tok, size):
    return bytes((tok * 37 + i * 11) % 256 for i in range(size))


def decode(b):
    """bytes -> content token (0 = zero bytes, -1 = unknown)"""
    if b == bytes(len(b)):
        return 0
    tok = (b[0] * 173) % 256
    return tok if tok and b == pattern(tok, len(b)) else -1


class _Clock:
    t = 1

    def time_ns(self):
        return self.t


class _Uuid:
    def __init__(self):
        self.cands = []

    def uuid4(self):
        if not self.cands:
            raise RuntimeError("uuid stream exhausted")
        return self.cands.pop(0)


class _Jobs:
    def __init__(self):
        self.next = 0
        self.pending = {}


class ManualPool:
    def __init__(self, jobs, kind):
        self.jobs, self.kind = jobs, kind

    def submit(self, fn, *args):
        self.jobs.pending[self.jobs.next] = {"kind": self.kind, "fn": fn, "args": args, "io": None}
        self.jobs.next += 1

    def shutdown(self, **kw):
        pass


class _Sock:
    def __init__(self):
        self.inbox, self.sent = [], []

    def recvfrom(self, n):
        return self.inbox.pop(0), "client"

    def sendto(self, b, addr):
        self.sent.append(b)

    def close(self):
        pass


def _exc(e):
    return type(e).__name__


class Real:
    """One real Manager plus the clients' side."""

    def __init__(self, cap, via_server=False):
        import multiprocessing.resource_tracker as rt
        import cascade.shm.api as api
        import cascade.shm.client as client
        import cascade.shm.dataset as dsm
        import cascade.shm.server as server
        # one process plays server and all clients: the per-process resource tracker bookkeeping
        # of SharedMemory would see double (un)registrations; it is not part of the store
        rt.register = lambda *a, **k: None
        rt.unregister = lambda *a, **k: None
        self.api, self.client, self.dsm = api, client, dsm
        dsm.get_capacity = lambda: 1 << 40
        self.clock = _Clock()
        self.uuid = _Uuid()
        dsm.time = self.clock
        dsm.uuid = self.uuid
        self.stale_read = int(dsm.STALE_READ)
        self.stale_create = int(dsm.STALE_CREATE)
        self.prefix = "ek%s%s_" % (_b36(os.getpid()), _b36(next(_counter)))
        for n in os.listdir("/dev/shm"):      # leftovers of a dead process that had our pid
            if n.startswith(self.prefix):
                try:
                    os.unlink("/dev/shm/" + n)
                except OSError:
                    pass
        self.cap = cap
        self.m = dsm.Manager(self.prefix, capacity=cap)
        self.jobs = _Jobs()
        for name, kind in (("readers", "in"), ("writers", "out")):
            getattr(self.m.disk, name).shutdown()
            setattr(self.m.disk, name, ManualPool(self.jobs, kind))
        self.exited = False
        self.via_server = via_server
        if via_server:
            self.srv = object.__new__(server.LocalServer)
            self.srv.sock = _Sock()
            self.srv.manager = self.m
        self.name2key = {}

    # ---------------------------------------------------------------- requests
    def _rpc(self, req):
        """one request through the real LocalServer.start loop (request + shutdown command)"""
        api = self.api
        self.srv.sock.inbox = [api.ser(req), api.ser(api.ShutdownCommand())]
        self.srv.sock.sent = []
        self.srv.start()
        return api.deser(self.srv.sock.sent[0])

    @staticmethod
    def _errname(err):
        for n in ("KeyError", "ValueError", "RuntimeError", "TypeError"):
            if err.startswith(n):
                return n
        return "err:" + err[:40]

    def add(self, k, size, deser):
        if self.via_server:
            r = self._rpc(self.api.AllocateRequest(key=k, l=size, deser_fun=deser))
            shmid, err = r.shmid if hasattr(r, "shmid") else "", r.error
        else:
            shmid, err = self.m.add(k, size, deser)
        if not err:
            self.name2key[shmid] = k
            return "granted", shmid
        return (err if err in ("conflict", "capacity exceeded", "wait") else self._errname(err)), ""

    def get(self, k, cands):
        self.uuid.cands = list(cands)
        if self.via_server:
            r = self._rpc(self.api.GetRequest(key=k))
            if r.error:
                return ("wait" if r.error == "wait" else self._errname(r.error)), None
            return "granted", (r.shmid, r.l, r.rdid, r.deser_fun)
        shmid, l, rdid, deser, err = self.m.get(k)
        if err:
            return err, None
        return "granted", (shmid, l, rdid, deser)

    def close_callback(self, k, rdid):
        if self.via_server:
            r = self._rpc(self.api.CloseCallback(key=k, rdid=rdid))
            if r.error:
                raise {"KeyError": KeyError, "ValueError": ValueError}.get(self._errname(r.error), RuntimeError)(r.error)
            return
        self.m.close_callback(k, rdid)

    def purge(self, k):
        if self.via_server:
            r = self._rpc(self.api.PurgeRequest(key=k))
            return "ok" if not r.error else self._errname(r.error)
        self.m.purge(k)
        return "ok"

    def free_space(self):
        if self.via_server:
            return self._rpc(self.api.FreeSpaceRequest()).free_space
        return self.m.free_space

    # ---------------------------------------------------------------- disk jobs
    def job_io(self, jid, inj):
        j = self.jobs.pending[jid]
        got = []
        args = j["args"][:-1] + (lambda ok: got.append(bool(ok)),)
        if inj == "fail" or (inj == "failLate" and j["kind"] == "out"):
            got.append(False)
        elif inj == "failLate":
            path = os.path.join(self.m.disk.root.name, j["args"][0])
            moved = os.path.exists(path)
            if moved:
                os.rename(path, path + ".away")
            try:
                j["fn"](*args)
            finally:
                if moved:
                    os.rename(path + ".away", path)
        else:
            j["fn"](*args)
        j["io"] = got[0] if got else None
        return j["io"]

    def job_io_mid(self, jid, k):
        """the I/O part of page-out job `jid` with a PurgeRequest for `k` served by the main loop while the writer thread is
        inside Disk._page_out between attaching the segment and unlinking it (hook on the `open` of cascade.shm.disk).
        Returns (io result, was the window reached)."""
        import builtins
        import cascade.shm.disk as disk_mod
        j = self.jobs.pending[jid]
        got, reached = [], []
        args = j["args"][:-1] + (lambda ok: got.append(bool(ok)),)

        def hooked_open(*a, **kw):
            f = builtins.open(*a, **kw)
            if not reached:
                reached.append(True)
                self.purge(k)
            return f
        disk_mod.open = hooked_open
        try:
            j["fn"](*args)
        finally:
            del disk_mod.open
        j["io"] = got[0] if got else None
        return j["io"], bool(reached)

    def job_cb(self, jid):
        j = self.jobs.pending.pop(jid)
        j["args"][-1](j["io"])

    # ---------------------------------------------------------------- observation
    def _dir(self, d, pref):
        out = []
        for n in os.listdir(d):
            if not n.startswith(pref) or n.endswith(".away"):
                continue
            try:
                with open(os.path.join(d, n), "rb") as f:
                    b = f.read()
            except OSError:
                continue
            out.append([self.name2key.get(n, "?" + n), len(b), decode(b)])
        return sorted(out)

    def seg_bytes(self, shmid):
        try:
            with open("/dev/shm/" + shmid, "rb") as f:
                return f.read()
        except OSError:
            return None

    def observe_ds(self):
        m = self.m
        ds = [{"k": k, "status": d.status.name, "size": d.size, "created": d.created, "first": d.retrieved_first,
               "last": d.retrieved_last, "readers": [[r, t] for r, t in d.ongoing_reads.items()],
               "delayed": bool(d.delayed_purge), "deser": d.deser_fun} for k, d in m.datasets.items()]
        return ds

    def observe(self):
        m = self.m
        ds = self.observe_ds()
        jobs = [{"id": i, "kind": j["kind"], "k": self.name2key.get(j["args"][0], "?" + j["args"][0]), "io": j["io"]}
                for i, j in sorted(self.jobs.pending.items())]
        return {"free": m.free_space, "cap": m.capacity, "lock": m.pageout_all.locked(), "count": m.pageout_count,
                "ds": ds, "segs": self._dir("/dev/shm", self.prefix), "files": self._dir(m.disk.root.name, self.prefix),
                "jobs": jobs}

    def shutdown(self):
        """Manager.atexit + removal of anything of this run still in /dev/shm; returns the leftovers."""
        left = []
        try:
            root = self.m.disk.root.name
            if not self.exited:
                self.exited = True
                self.m.atexit()
        except Exception:
            root = None
        for n in os.listdir("/dev/shm"):
            if n.startswith(self.prefix):
                left.append(n)
                try:
                    os.unlink("/dev/shm/" + n)
                except OSError:
                    pass
        if root and os.path.isdir(root):
            import shutil
            shutil.rmtree(root, ignore_errors=True)
        return left


# =============================================================================== runner

def model_state(obs):
    """what is compared with the model's observable state"""
    return {k: obs[k] for k in ("free", "cap", "lock", "count", "ds", "segs", "files", "jobs")}


OP_DEADLINE_S = 6
ATEXIT_LINE = False     # C05 sets it: every history ends with the server's exit handler, compared with the model's `atexit`
C05_KINDS = ("segments-left-after-atexit",)


class _Blocked(BaseException):
    pass


class Runner:
    """Executes abstract ops on a Real store, keeps the clients' ledger, concretises every op into
    a model line, and evaluates the oracles after every op."""

    def __init__(self, cap, via_server=False):
        self.real = Real(cap, via_server)
        self.cap = cap
        self.lines = [{"op": "init", "cap": cap, "staleCreate": self.real.stale_create, "staleRead": self.real.stale_read}]
        self.outs = [{"out": "init", "st": model_state(self.real.observe())}]
        self.grants = []       # {gid,k,size,shmid,deser,tok,buf,closed,gone}
        self.readers = []      # {k,rdid,buf,t0,gid,bytes,stale}
        self.purge_pending = {}  # k -> True if a purge arrived while the harness' readers held k
        self.unsafe_purge = False
        self.fails = {}        # kind -> (kind, what, op index): first oracle failure of each kind
        self.stale_evicted = set()   # keys whose dataset was sent to disk while still `created` (stale writer)
        self.dropped_open = set()    # keys whose dataset vanished (purge, failed page-out) while its writer had not closed
        self.orphans = set()         # keys whose dataset vanished while a disk job for it was still pending
        self.orphan_key_reused = False
        self.prev_status = {}
        self.nops = 0
        self.stats = {}
        self.t = 1

    # -- helpers
    def _stat(self, k):
        self.stats[k] = self.stats.get(k, 0) + 1

    def _flag(self, kind, what, **sig):
        if kind not in self.fails:
            sig = dict(sig, kind=kind, unsafe_purge=self.unsafe_purge)
            if self.unsafe_purge:
                # the mechanism of the known purge-in-flight findings: the key of a dataset dropped while its disk job was
                # still pending has been allocated again before that job ran (the orphaned job then acts on the new allocation)
                sig["orphan_key_reused"] = self.orphan_key_reused
            self.fails[kind] = (kind, what, self.nops, sig)

    @property
    def fail(self):
        """the earliest oracle failure"""
        return min(self.fails.values(), key=lambda f: f[2]) if self.fails else None

    def first_fail(self, kinds):
        fs = [f for k, f in self.fails.items() if k in kinds]
        return min(fs, key=lambda f: f[2]) if fs else None

    def current_grant(self, k):
        for g in reversed(self.grants):
            if g["k"] == k:
                return g
        return None

    def _emit(self, line, out):
        obs = self.real.observe()
        self.lines.append(line)
        self.outs.append({"out": out, "st": model_state(obs)})
        self.nops += 1
        self._stat("op:" + line["op"])
        self._oracle_state(obs)
        return obs

    # -- oracles on the state after every op (C08 text: usage <= capacity, reported free)
    def _oracle_state(self, obs):
        cap = self.cap
        segtot = sum(s[1] for s in obs["segs"])
        if segtot > cap:
            self._flag("segments-exceed-capacity", f"segments of the run total {segtot} bytes > capacity {cap}")
        resident = sum(d["size"] for d in obs["ds"] if d["status"] in RESIDENT)
        free = obs["free"]
        if resident > cap:
            self._flag("resident-exceeds-capacity", f"datasets resident in shared memory total {resident} > capacity {cap}")
        if free != cap - resident:
            self._flag("free-space-mismatch", f"reported free space {free} != capacity {cap} - resident total {resident}")
        elif segtot > cap - free:
            self._flag("segments-exceed-accounted", f"segments total {segtot} > capacity {cap} - free {free}")
        # C09: a dataset held by a young reader is neither paged out nor unlinked
        status = {d["k"]: d["status"] for d in obs["ds"]}
        for k, st in status.items():
            if st == "paging_out" and self.prev_status.get(k) == "created":
                self.stale_evicted.add(k)
        for k in list(self.stale_evicted):
            if k not in status:
                self.stale_evicted.discard(k)
        # an allocation dropped by the store while its writer is still writing: that writer's later close is keyed by
        # the key only, so it lands on whatever allocation owns the key then (root cause of C09-purge-created-key-reuse)
        for k in self.prev_status:
            if k not in status and any(g["k"] == k and not g["closed"] for g in self.grants):
                self.dropped_open.add(k)
        pending_keys = {j["k"] for j in obs["jobs"]}
        for k in self.prev_status:
            if k not in status and k in pending_keys:
                self.orphans.add(k)
        self.orphans &= pending_keys
        if any(k in status and self.prev_status.get(k) is None for k in self.orphans):
            self.orphan_key_reused = True      # allocated again while the orphaned job is still pending
        self.prev_status = status
        for r in self.readers:
            if r["bytes"] is None:
                continue
            if self.t - r["t0"] > self.real.stale_read:
                r["stale"] = True
                continue
            b = self.real.seg_bytes(r["shmid"])
            if b != r["bytes"] or status.get(r["k"]) != "in_memory":
                self._flag("reader-unprotected", f"reader {r['rdid']} of {r['k']} (age {self.t - r['t0']}) still holds, but status is "
                           f"{status.get(r['k'])} and the segment {'is gone' if b is None else 'changed' if b != r['bytes'] else 'exists'}")

    # -- the ops
    def apply(self, op):
        kind = op["op"]
        if getattr(self, "deadlocked", False):
            return None          # the store no longer answers (see below): nothing more can be observed in this history
        if "t" in op:
            self.t = max(self.t, op["t"])
        self.real.clock.t = self.t
        # watchdog: every request handler and every disk-job callback of the real Manager runs in this thread, so a
        # handler that blocks (e.g. on a lock it already holds) would hang the check; a blocked request is a request
        # that is never answered, i.e. a violation of the 'eventually granted' clause, and is reported as such
        import signal

        def _on_alarm(*a):
            raise _Blocked()
        old = signal.signal(signal.SIGALRM, _on_alarm)
        signal.alarm(OP_DEADLINE_S)
        try:
            return getattr(self, "_op_" + kind)(op)
        except _Blocked:
            self.deadlocked = True
            self._flag("request-never-answered", f"the store did not answer {kind} {op.get('k', '')} within {OP_DEADLINE_S} s "
                       f"(a request handler or disk-job callback blocks forever)")
            self._emit({"op": "blocked-" + kind}, "blocked")
        except Exception as e:   # harness-level surprise from the real code: a result, not a crash
            self._emit({"op": "bad-" + kind}, "exception:" + _exc(e) + ":" + str(e)[:80])
        finally:
            signal.alarm(0)
            signal.signal(signal.SIGALRM, old)

    def _op_add(self, op):
        k, size = op["k"], op["size"]
        pre = self.real.observe()
        try:
            out, shmid = self.real.add(k, size, "d" + k)
        except Exception as e:
            out, shmid = "exception:" + _exc(e), ""
        if out == "granted":
            self.grants.append({"gid": len(self.grants), "k": k, "size": size, "shmid": shmid, "tok": None,
                                "buf": None, "closed": False})
        # admission rule (C08 text)
        exists = any(d["k"] == k for d in pre["ds"])
        if out == "granted" and size > pre["free"]:
            self._flag("granted-early", f"add({k},{size}) granted with free space {pre['free']}")
        if out == "granted" and exists:
            self._flag("granted-over-existing", f"add({k},{size}) granted although the key exists")
        if not exists and size > self.cap and out != "capacity exceeded":
            self._flag("oversize-not-refused", f"add({k},{size}) with capacity {self.cap} answered {out!r}")
        if not exists and pre["free"] < size <= self.cap and out != "wait":
            self._flag("nofit-not-wait", f"add({k},{size}) with free {pre['free']} answered {out!r}")
        self._stat("add:" + out)
        if "c" in op:
            self._stat("requests_by_client_%d" % op["c"])
        self._emit({"op": "add", "k": k, "size": size, "deser": "d" + k, "t": self.t}, out)
        return out

    def _op_cwrite(self, op):
        g = next((g for g in self.grants if g["k"] == op["k"] and g["tok"] is None), None)
        if g is None:
            return None
        tok = op["tok"]
        try:
            buf = self.real.client.AllocatedBuffer(g["shmid"], g["size"], True, None, g.get("deser", ""))
            buf.view()[:] = pattern(tok, g["size"])
            g["buf"] = buf
            out = "ok"
        except FileExistsError:
            out = "exists"
        except Exception as e:
            out = "exception:" + _exc(e)
        g["tok"] = tok
        self._emit({"op": "cwrite", "k": g["k"], "size": g["size"], "tok": tok}, out)
        return out

    def _close(self, buf, k, rdid):
        try:
            if buf is not None:
                buf.close_callback = lambda: self.real.close_callback(k, rdid)
                buf.close()
            else:
                self.real.close_callback(k, rdid)
            return "ok"
        except (KeyError, ValueError) as e:
            return _exc(e)
        except Exception as e:
            return "exception:" + _exc(e)

    def _op_closeW(self, op):
        k = op["k"]
        g = next((g for g in self.grants if g["k"] == k and g["tok"] is not None and not g["closed"]), None)
        if g is None and op.get("bogus"):   # a writer that finishes without having created its segment
            g = next((g for g in self.grants if g["k"] == k and not g["closed"]), None)
        elif g is None:
            return None
        out = self._close(g["buf"] if g else None, k, "")
        if g:
            g["closed"] = True
            g["closed_ok"] = out == "ok"
        self._emit({"op": "closeW", "k": k}, out)
        return out

    def _op_get(self, op):
        k = op["k"]
        try:
            out, val = self.real.get(k, op["cands"])
        except KeyError:
            out, val = "KeyError", None
        except RuntimeError as e:
            out, val = ("noUuid" if "uuid" in str(e) else "exception:RuntimeError"), None
        except Exception as e:
            out, val = "exception:" + _exc(e), None
        self._stat("get:" + out)
        if "c" in op:
            self._stat("requests_by_client_%d" % op["c"])
        if out == "granted":
            shmid, l, rdid, deser = val
            g = self.current_grant(k)
            rd = {"k": k, "rdid": rdid, "buf": None, "t0": self.t, "bytes": None, "shmid": shmid, "stale": False}
            try:
                buf = self.real.client.AllocatedBuffer(shmid, l, False, None, deser)
                rd["buf"] = buf
                rd["bytes"] = bytes(buf.view())
            except Exception as e:
                if g is not None and g["tok"] is not None and g["buf"] is not None:
                    self._flag("granted-missing-segment", f"get({k}) granted but attaching {shmid} failed: {_exc(e)}")
            self.readers.append(rd)
            if g is None or g["tok"] is None:
                pass    # nothing was written by a writer we know: no content claim
            elif rd["bytes"] is not None and rd["bytes"] != pattern(g["tok"], g["size"]):
                self._flag("content-mismatch", f"get({k}) returned {rd['bytes'][:8].hex()}.. ({len(rd['bytes'])} bytes), "
                           f"written {pattern(g['tok'], g['size'])[:8].hex()}.. ({g['size']} bytes)")
            if g is not None and not g.get("closed_ok"):
                self._flag("readable-before-close", f"get({k}) granted although the writer of this allocation has not finished",
                           stale_writer=k in self.stale_evicted, writer_dropped_key_reused=k in self.dropped_open)
            out = {"size": l, "rdid": rdid, "deser": deser}
        self._emit({"op": "get", "k": k, "t": self.t, "cands": op["cands"]}, out)
        return out

    def _op_closeR(self, op):
        if op.get("bogus"):
            k, rdid = op["k"], op["rdid"]
            out = self._close(None, k, rdid)
            self._emit({"op": "closeR", "k": k, "rdid": rdid}, out)
            return out
        if not self.readers:
            return None
        r = self.readers.pop(op["idx"] % len(self.readers))
        k = r["k"]
        out = self._close(r["buf"], k, r["rdid"])
        if out != "ok" or r["stale"]:
            self.purge_pending.pop(k, None)     # a stale reader is outside the protection clause
        obs = self._emit({"op": "closeR", "k": k, "rdid": r["rdid"]}, out)
        if self.purge_pending.get(k) and not any(x["k"] == k for x in self.readers):
            self.purge_pending.pop(k)
            if any(d["k"] == k for d in obs["ds"]) or any(s[0] == k for s in obs["segs"]):
                self._flag("delayed-purge-lost", f"purge({k}) arrived during a read; the last reader closed but the dataset is still there")
        return out

    def _op_purge(self, op):
        k = op["k"]
        pre = self.real.observe()
        d = next((d for d in pre["ds"] if d["k"] == k), None)
        if d is not None and not d["readers"] and d["status"] in UNSAFE:
            self.unsafe_purge = True
            self._stat("purge:unsafe-status")
        held = [r for r in self.readers if r["k"] == k]
        if d is not None and held and d["readers"]:
            if all(not r["stale"] and r["bytes"] is not None for r in held) and len(held) == len(d["readers"]):
                self.purge_pending[k] = True
                self._stat("purge:during-read")
        try:
            out = self.real.purge(k)
        except Exception as e:
            out = "exception:" + _exc(e)
        self._emit({"op": "purge", "k": k}, out)
        return out

    def _op_freeSpace(self, op):
        try:
            out = self.real.free_space()
        except Exception as e:
            out = "exception:" + _exc(e)
        self._emit({"op": "freeSpace"}, out)
        return out

    def _op_io(self, op):
        ids = [i for i, j in sorted(self.real.jobs.pending.items()) if j["io"] is None]
        if not ids:
            return None
        jid = ids[op["idx"] % len(ids)]
        inj = op.get("inj", "ok")
        job = self.real.jobs.pending[jid]
        if op.get("mid_purge") and job["kind"] == "out" and inj == "ok":
            # a purge of the job's own key served while the writer thread is between write and unlink
            k = self.real.name2key.get(job["args"][0])
            if k is not None:
                d = self.real.m.datasets.get(k)
                if d is not None and not d.ongoing_reads and d.status.name in UNSAFE:
                    self.unsafe_purge = True
                    self._stat("purge:unsafe-status")
                try:
                    out, reached = self.real.job_io_mid(jid, k)
                except Exception as e:
                    out, reached = "exception:" + _exc(e), True
                self._stat("io-mid-purge:%s:%s" % ("window" if reached else "no-window", out))
                self._emit({"op": "ioMid", "id": jid, "k": k} if reached else {"op": "io", "id": jid, "inj": "ok"}, out)
                return out
        try:
            out = self.real.job_io(jid, inj)
        except Exception as e:
            out = "exception:" + _exc(e)
        self._stat("io:%s:%s" % (self.real.jobs.pending[jid]["kind"], out))
        self._emit({"op": "io", "id": jid, "inj": inj}, out)
        return out

    def _op_cb(self, op):
        ids = [i for i, j in sorted(self.real.jobs.pending.items()) if j["io"] is not None]
        if not ids:
            return None
        jid = ids[op["idx"] % len(ids)]
        try:
            self.real.job_cb(jid)
            out = "done"
        except Exception as e:
            out = "exception:" + _exc(e)
        self._emit({"op": "cb", "id": jid}, out)
        return out

    def drain(self):
        """complete every pending disk job successfully (what waiting long enough means)"""
        for _ in range(1000):
            if not self.real.jobs.pending:
                return
            if self._op_io({"op": "io", "idx": 0, "inj": "ok"}) is None:
                self._op_cb({"op": "cb", "idx": 0})

    def _op_retry(self, op):
        """C09 text: a request that can be satisfied by evicting idle datasets is eventually granted.
        Every client finishes what it holds, the disk jobs complete, then `add` is retried."""
        k, size = op["k"], op["size"]
        for g in list(self.grants):
            if g["tok"] is None:
                self._op_cwrite({"op": "cwrite", "k": g["k"], "tok": 1 + g["gid"] % 250})
        for g in list(self.grants):
            if not g["closed"]:
                self._op_closeW({"op": "closeW", "k": g["k"]})
        while self.readers:
            self._op_closeR({"op": "closeR", "idx": 0})
        self.drain()
        obs = self.real.observe()
        idle = sum(d["size"] for d in obs["ds"] if d["status"] == "in_memory" and not d["readers"])
        exists = any(d["k"] == k for d in obs["ds"])
        claim = (not exists) and size <= self.cap and size <= obs["free"] + idle
        self._stat("retry:" + ("claim" if claim else "noclaim"))
        out = None
        for attempt in range(4):
            self.t += 1
            self.real.clock.t = self.t
            out = self._op_add({"op": "add", "k": k, "size": size})
            if out != "wait":
                break
            self.drain()
        if claim and out != "granted":
            self._flag("never-granted", f"add({k},{size}) still answered {out!r} after 4 retries with all disk jobs completed in between; "
                       f"capacity {self.cap}, free {obs['free']}, idle in-memory datasets {idle}")
        if claim:
            self._stat("retry:granted" if out == "granted" else "retry:refused")
        return out

    def _close_handles(self):
        for g in self.grants:
            if g["buf"] is not None and g["buf"].shm is not None:
                try:
                    g["buf"].shm.close()
                except Exception:
                    pass
        for r in self.readers:
            if r["buf"] is not None and r["buf"].shm is not None:
                try:
                    r["buf"].shm.close()
                except Exception:
                    pass

    def _op_atexit(self, op):
        """the shm server's exit handler (ShutdownCommand / SIGTERM -> Manager.atexit) at the end of the history, with
        whatever readers, writers, delayed purges and disk jobs the history left behind (C05: no segment may survive)"""
        self._close_handles()
        self.real.exited = True
        self.real.m.atexit()
        m = self.real.m
        segs = self.real._dir("/dev/shm", self.real.prefix)
        full = self.real.observe_ds()
        self.lines.append({"op": "atexit"})
        self.outs.append({"out": "atexit", "st": {"segs": segs, "ds": full}})
        self.nops += 1
        self._stat("op:atexit")
        if any(d["readers"] for d in self.outs[-2]["st"]["ds"]):
            self._stat("atexit:with-registered-readers")
        if segs:
            self._flag("segments-left-after-atexit", f"after Manager.atexit the segments {[x[0] for x in segs]} are still in /dev/shm "
                       f"(datasets still known: {[(d['k'], d['status'], len(d['readers'])) for d in full]})")

    def finish(self):
        if ATEXIT_LINE and not getattr(self, "deadlocked", False):
            self.apply({"op": "atexit"})
        self._close_handles()
        return self.real.shutdown()


# =============================================================================== generator

def gen_and_run(rng, cfg):
    """Generate a history adaptively while running it on the real store.
    cfg: cap, nkeys, nclients, nops, via_server, unsafe (allow purge in transitional status), jumps"""
    run = Runner(cfg["cap"], cfg["via_server"])
    ops = []
    keys = ["k%d" % i for i in range(cfg["nkeys"])]
    cap = cfg["cap"]
    rd = itertools.count()
    t = 1
    try:
        for _ in range(cfg["nops"]):
            t += rng.randint(1, 5)
            if cfg["jumps"] and rng.random() < 0.03:
                t += run.real.stale_read + rng.randint(0, 50)
            real = run.real
            status = {k: d.status.name for k, d in real.m.datasets.items()}
            unwritten = [g for g in run.grants if g["tok"] is None]
            unclosed = [g for g in run.grants if g["tok"] is not None and not g["closed"]]
            pend_io = [j for j in real.jobs.pending.values() if j["io"] is None]
            pend_cb = [j for j in real.jobs.pending.values() if j["io"] is not None]
            c09 = cfg.get("profile") == "c09"
            w = [("add", 14 if c09 else 18), ("get", 22 if c09 else 14), ("purge", 8 if c09 else 6), ("freeSpace", 1 if c09 else 3),
                 ("cwrite", 30 if unwritten else 0), ("closeW", 14 if unclosed else 0),
                 ("closeR", (8 if c09 else 10) if run.readers else 0), ("io", 14 if pend_io else 0), ("cb", 16 if pend_cb else 0),
                 ("bogus", 1), ("retry", 2 if c09 else 1)]
            kind = rng.choices([x for x, _ in w], [y for _, y in w])[0]
            k = rng.choice(keys)
            if kind == "add":
                r = rng.random()
                size = rng.randint(1, max(1, cap // 2)) if r < 0.6 else rng.randint(1, cap) if r < 0.92 else cap + rng.randint(1, 3)
                op = {"op": "add", "c": rng.randrange(cfg.get("nclients", 1)), "k": k, "size": size, "t": t}
            elif kind == "get":
                if rng.random() < 0.7 and status:
                    k = rng.choice(sorted(status))
                cands = []
                d = real.m.datasets.get(k)
                if d is not None and d.ongoing_reads and rng.random() < 0.3:
                    cands.append(rng.choice(sorted(d.ongoing_reads)))
                cands.append("r%07d" % next(rd))
                op = {"op": "get", "c": rng.randrange(cfg.get("nclients", 1)), "k": k, "t": t, "cands": cands}
            elif kind == "purge":
                if rng.random() < 0.8 and status:
                    k = rng.choice(sorted(status))
                d = real.m.datasets.get(k)
                if d is not None and not d.ongoing_reads and d.status.name in UNSAFE and not cfg["unsafe"]:
                    continue
                op = {"op": "purge", "k": k}
            elif kind == "freeSpace":
                op = {"op": "freeSpace"}
            elif kind == "cwrite":
                op = {"op": "cwrite", "k": rng.choice(unwritten)["k"], "tok": rng.randint(1, 250)}
            elif kind == "closeW":
                op = {"op": "closeW", "k": rng.choice(unclosed)["k"]}
            elif kind == "closeR":
                op = {"op": "closeR", "idx": rng.randrange(8)}
            elif kind == "io":
                r = rng.random()
                op = {"op": "io", "idx": rng.randrange(4), "inj": "ok" if r < 0.8 else "fail" if r < 0.92 else "failLate"}
                if cfg["unsafe"] and r < 0.3:
                    op["mid_purge"] = True        # the purge races the writer thread of the job (only in `unsafe` histories)
            elif kind == "cb":
                op = {"op": "cb", "idx": rng.randrange(4)}
            elif kind == "bogus":
                r = rng.random()
                if r < 0.4:
                    op = {"op": "closeR", "bogus": True, "k": k, "rdid": "zz%06d" % rng.randrange(3)}
                elif r < 0.7:
                    op = {"op": "closeW", "bogus": True, "k": k}
                else:
                    op = {"op": "get", "k": "nokey", "t": t, "cands": ["r%07d" % next(rd)]}
            else:
                op = {"op": "retry", "k": "n%d" % rng.randrange(3), "size": rng.randint(1, cap), "t": t}
            op.setdefault("t", t)
            ops.append(op)
            run.apply(op)
        if cfg.get("final_retry"):
            op = {"op": "retry", "k": "final", "size": rng.randint(max(1, cap // 2), cap), "t": t + 1}
            ops.append(op)
            run.apply(op)
    finally:
        left = run.finish()
    return ops, run, left


def replay_history(case):
    """Run a recorded history {cap, via_server, ops} on a fresh real store."""
    run = Runner(case["cap"], case.get("via_server", False))
    try:
        for op in case["ops"]:
            run.apply(op)
    finally:
        left = run.finish()
    return run, left


def shrink(case, sig):
    """Greedy removal of ops that keeps an oracle failure with the same signature."""
    def fails(ops):
        r, _ = replay_history({**case, "ops": ops})
        f = r.fails.get(sig["kind"])
        return f is not None and f[3] == sig
    cur = list(case["ops"])
    if not fails(cur):
        return case
    changed = True
    import time as _time
    t_end = _time.time() + (40 if sig.get("kind") == "request-never-answered" else 120)
    # first cut the tail after the failing op (cheap, and the only affordable step when every replay costs an op deadline)
    while len(cur) > 1 and _time.time() < t_end and fails(cur[:-1]):
        cur = cur[:-1]
    while changed and _time.time() < t_end:
        changed = False
        for i in range(len(cur) - 1, -1, -1):
            if _time.time() >= t_end:
                break
            cand = cur[:i] + cur[i + 1:]
            if fails(cand):
                cur = cand
                changed = True
    return {**case, "ops": cur}


# =============================================================================== batches (used by c08.py / c09.py)

C08_KINDS = ("segments-exceed-capacity", "resident-exceeds-capacity", "free-space-mismatch", "segments-exceed-accounted",
             "granted-early", "granted-over-existing", "oversize-not-refused", "nofit-not-wait")
C09_KINDS = ("granted-missing-segment", "content-mismatch", "readable-before-close", "reader-unprotected",
             "delayed-purge-lost", "never-granted", "request-never-answered")


def random_cfg(rng, maxops, maxkeys, profile):
    return {"cap": rng.randint(1, 64), "nkeys": rng.randint(1, maxkeys), "nclients": rng.randint(1, 4),
            "nops": rng.randint(5, maxops), "via_server": rng.random() < 0.5, "unsafe": rng.random() < 0.12,
            "jumps": rng.random() < (0.45 if profile == "c09" else 0.25),
            "final_retry": rng.random() < (0.8 if profile == "c09" else 0.4), "profile": profile}


def compare_with_model(ctx, runs, drive="C08"):
    """runs: list of (case, Runner). One Lean driver process for all histories; op-by-op comparison."""
    import json
    from ekw.core import lean_drive
    lines = []
    for _, run in runs:
        lines += [json.dumps(l) for l in run.lines]
    res = lean_drive(drive, lines)
    k = 0
    for case, run in runs:
        ctx.traces += 1
        for i, (l, o) in enumerate(zip(run.lines, run.outs)):
            try:
                mo = json.loads(res[k + i])
            except Exception:
                mo = {"out": "unparsable:" + (res[k + i] if k + i < len(res) else "<missing>")[:80]}
            st = mo.get("st", {})
            mo2 = {"out": mo.get("out")}
            if "st" in o:
                mo2["st"] = {kk: st.get(kk) for kk in o["st"]}
            if mo2 != o:
                diff = [kk for kk in o.get("st", {}) if mo2.get("st", {}).get(kk) != o["st"][kk]]
                ctx.disagree("shm-op %d %s (differs: out=%s %s)" % (i, l.get("op"), mo2["out"] != o["out"], diff),
                             {**case, "ops": case["ops"], "first_bad_model_line": i, "model_lines": run.lines[:i + 1][-12:]},
                             mo2, o)
                break
        k += len(run.lines)


def run_batch(ctx, kinds, profile, n, maxops, maxkeys, corpus_glob, chunk=300):
    """Corpus cases first, then n random histories (in chunks, one Lean driver process per chunk); oracle
    violations of `kinds` are reported (shrunk), every trace is compared with the model after every op."""
    import glob
    import json
    from ekw.core import CORPUS_DIR
    seen = {}
    todo = n
    first = True
    while first or todo > 0:
        cases = []
        if first:
            for f in sorted(glob.glob(str(CORPUS_DIR / corpus_glob))):
                case = json.load(open(f))
                case = case.get("case", case)
                run, left = replay_history(case)
                cases.append((case, run, left))
            first = False
        blocked = 0
        for _ in range(min(chunk, todo)):
            cfg = random_cfg(ctx.rng, maxops, maxkeys, profile)
            ops, run, left = gen_and_run(ctx.rng, cfg)
            cases.append(({"cap": cfg["cap"], "via_server": cfg["via_server"], "ops": ops}, run, left))
            blocked += 1 if getattr(run, "deadlocked", False) else 0
            if blocked >= 4:
                todo = 0            # a store that stops answering: each further history costs a full op deadline and shows the same
                break
        todo -= min(chunk, todo)
        runs = []
        for case, run, left in cases:
            runs.append((case, run))
            st = run.stats
            nontrivial = st.get("op:cb", 0) > 0 or st.get("add:wait", 0) > 0 or st.get("get:granted", 0) > 0
            ctx.case({"cap": case["cap"], "via_server": case.get("via_server", False), "n_ops": len(case["ops"]), "ops": case["ops"][:10]},
                     nontrivial=nontrivial)
            ctx.count("histories")
            ctx.count("histories_via_server_dispatch" if case.get("via_server") else "histories_direct_manager")
            ctx.count("model_steps_compared", run.nops)
            if run.unsafe_purge:
                ctx.count("histories_with_purge_in_unsafe_status")
            for kk, v in st.items():
                ctx.count(kk, v)
            if left:
                ctx.count("histories_leaving_segments_after_atexit")
            f = run.first_fail(kinds)
            if f is not None:
                sig = f[3]
                key = json.dumps(sig, sort_keys=True)
                seen[key] = seen.get(key, 0) + 1
                ctx.count("oracle:" + sig["kind"] + (":unsafe-purge" if sig.get("unsafe_purge") else ""))
                if seen[key] > 2:
                    continue            # same signature again: already reported with a shrunk input
                small = shrink(case, sig)
                r2, _ = replay_history(small)
                f2 = r2.fails.get(sig["kind"]) or f
                ctx.violation(sig, small, f2[1])
        compare_with_model(ctx, runs)
        if len(ctx.disagreements) > 50:
            break                   # the tie is broken; more of the same adds nothing


def replay_print(payload, kinds):
    case = payload["case"]
    run, left = replay_history(case)
    for l, o in zip(run.lines, run.outs):
        st = o.get("st", {})
        print(l, "->", o["out"], "| free", st.get("free"), "lock", st.get("lock"), "count", st.get("count"),
              [(d["k"], d["status"], d["size"], len(d["readers"])) for d in st.get("ds", [])], "segs", st.get("segs"))
    f = run.first_fail(kinds)
    print("oracle:", f[:3] if f else None)
    return 1 if f else 0
