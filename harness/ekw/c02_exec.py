"""C02 — the executor layer between Bridge and worker (clause (g): a worker never starts a task before its inputs have
ACTUALLY arrived in the shm of its host).

One host: the REAL `Executor.recv_loop` (+ `healthcheck`, `terminate`), the REAL worker processes' `entrypoint` loops with
the REAL `execute_sequence` / `runner.run` / `Memory.handle` / `Memory.provide` / `Memory.pop` / `Memory.flush`, and the
REAL `DataServer.recv_loop` / `maybe_clean` / `store_payload`, all in ONE process:

  real:  the code named above, the message classes, `serde.ser_message/des_message` on the worker sockets, cloudpickled
         task bodies, `ds2shmid`, `param_source`, `RunnerContext.project`.
  fake:  zmq (every `callback` is routed into an in-memory queue per receiver; the harness chooses WHICH queued message
         a receiver reads next: FIFO or any order, because every `callback` opens its own PUSH socket and zmq orders
         nothing across sockets), the shm client module (a RECORDING store with the status semantics of the real
         server: allocate of an existing key -> ConflictError, get of an absent or still-being-written key fails, the
         writer's close of a purged key fails, purge removes the key in any status), processes (each worker's
         `entrypoint` and each data-server pool job runs in its own thread that owns the baton only when the harness
         resumes it), the executor's ReliableSender (records what goes to the controller), the controller and the
         network (the generator sends TaskSequence / DatasetPurge / ExecutorShutdown and injects transfer payloads).

Every worker / pool job stops at its pause points — blocked in `socket.recv`, just before `shm allocate`, just before the
writer's `close`, just before the `callback` that announces a DatasetPublished — so the harness (and the model, which
has the same micro-steps) interleaves the executor's forwarding, the data server's stores and the workers' loops at
exactly the places where "write, close, THEN announce" matters. One `pick` = one actor runs to its next pause point;
the list of operations it performed (shm ops, sends, exec-start) is compared op by op with Model/ExecLayer.lean.

The ORACLE reads only the recording store and the job description: at every entry into `execute_sequence` every dataset
the sequence requires must have been completely written into the host's store before (any traffic), and — when the
controller traffic respects what C04 guarantees (no purge of an input of an unfinished sequence, no dispatch that needs a
purged dataset) — must be readable there at that moment, as must every dataset a worker reads on a notice.
"""
import base64
import logging
import os
import threading
import types

_HOST = "h0"


class _Abort(BaseException):
    pass


class _EndIteration(BaseException):
    pass


class ShmMiss(ValueError):
    pass


# ----------------------------------------------------------------------------- coroutine threads

class Co:
    """`fn` runs in its own thread, but only while the harness has resumed it; it hands the baton back at `pause`."""

    def __init__(self, world, name, fn):
        self.w, self.name, self.fn = world, name, fn
        self.go = threading.Semaphore(0)
        self.back = threading.Semaphore(0)
        self.thread = None
        self.finished = False
        self.abort = False
        self.exc = None
        self.at = None
        self.deliver = None

    def _body(self):
        self.go.acquire()
        try:
            if not self.abort:
                self.fn()
        except _Abort:
            pass
        except BaseException as e:   # noqa: B902 — the death of a worker process is an observation
            self.exc = e
        finally:
            self.finished = True
            self.back.release()

    def pause(self, tag):
        self.at = tag
        self.back.release()
        self.go.acquire()
        if self.abort:
            raise _Abort()
        self.at = None

    def resume(self):
        prev = self.w.cur
        self.w.cur = self
        if self.thread is None:
            self.thread = threading.Thread(target=self._body, daemon=True)
            self.thread.start()
        self.go.release()
        self.back.acquire()
        self.w.cur = prev

    def kill(self):
        if self.thread is not None and not self.finished:
            self.abort = True
            self.go.release()
            self.back.acquire()
        if self.thread is not None:
            self.thread.join(2)


# ----------------------------------------------------------------------------- the recording shm store

class _Entry:
    __slots__ = ("status", "data", "deser_fun")

    def __init__(self, l, deser_fun):
        self.status, self.data, self.deser_fun = "w", bytearray(l), deser_fun


class _WBuf:
    def __init__(self, shm, key, entry):
        self.shm, self.key, self.entry, self.closed = shm, key, entry, False
        self.deser_fun = entry.deser_fun

    def view(self):
        return memoryview(self.entry.data)

    def close(self):
        if self.closed:
            return
        self.closed = True
        self.shm.writer_close(self.key)


class _RBuf:
    def __init__(self, entry):
        self.data = bytes(entry.data)
        self.deser_fun = entry.deser_fun

    def view(self):
        return memoryview(self.data)

    def close(self):
        pass


class FakeShm:
    """stands in for the module `cascade.shm.client` (allocate / get / purge / ConflictError)"""

    def __init__(self, world, conflict_cls):
        self.w = world
        self.ConflictError = conflict_cls
        self.store = {}          # key -> _Entry
        self.arrived = set()     # ds (as [t,k] tuple) that were completely written at some time

    def _co(self):
        c = self.w.cur
        return c if isinstance(c, Co) else None

    def allocate(self, key, l, deser_fun, timeout_sec=60.0):
        co = self._co()
        if co is not None:
            co.pause("alloc")
        d = self.w.key2ds[key]
        if key in self.store:
            self.w.op(["alloc-conflict", d])
            raise self.ConflictError()
        e = _Entry(l, deser_fun)
        self.store[key] = e
        self.w.op(["alloc", d])
        return _WBuf(self, key, e)

    def writer_close(self, key):
        co = self._co()
        if co is not None:
            co.pause("close")
        d = self.w.key2ds[key]
        e = self.store.get(key)
        if e is None or e.status != "w":
            self.w.op(["close-fail", d])
            raise ValueError(f"KeyError/invalid transition for {key}")   # what the real server answers
        e.status = "r"
        self.arrived.add(tuple(d))
        self.w.op(["close", d])

    def get(self, key, timeout_sec=60.0):
        d = self.w.key2ds[key]
        e = self.store.get(key)
        if e is None or e.status != "r":
            self.w.op(["get-miss", d])
            self.w.note_miss(d)
            raise ShmMiss(f"dataset {d} is not readable in the host's shm ({'absent' if e is None else 'being written'})")
        self.w.op(["get", d])
        return _RBuf(e)

    def purge(self, key):
        d = self.w.key2ds[key]
        self.store.pop(key, None)
        self.w.op(["shm-purge", d])

    def readable(self, d):
        e = self.store.get(self.w.ds2key[tuple(d)])
        return e is not None and e.status == "r"

    def snapshot(self):
        r = sorted(list(self.w.key2ds[k]) for k, e in self.store.items() if e.status == "r")
        wr = sorted(list(self.w.key2ds[k]) for k, e in self.store.items() if e.status == "w")
        return r, wr


# ----------------------------------------------------------------------------- fakes of the process / socket world

class _Proc:
    def __init__(self):
        self.exitcode = None
        self.pid = 0

    def join(self, timeout=None):
        pass

    def is_alive(self):
        return False

    def kill(self):
        pass


class _OneShotListener:
    """`recv_messages` hands out the one message the harness chose; the second call ends the loop iteration"""

    def __init__(self, address):
        self.address = address
        self.next = None
        self.owner = None     # DataServer: its loop calls maybe_clean (which may block) BEFORE it reads; the iteration is ended
                              # through `terminating`, read at the loop head only

    def recv_messages(self, timeout_ms=None):
        if self.next is None:
            raise _EndIteration()
        m, self.next = self.next, None
        if self.owner is not None:
            self.owner.terminating = True
        return [m]


class _Sender:
    def __init__(self, world):
        self.w = world

    def send(self, host, m):
        self.w.op(["send", "ctrl" if host == "controller" else str(host), self.w.cm(m)])
        self.w.to_ctrl.append(m)

    def ack(self, idx):
        pass

    def maybe_retry(self):
        pass


class _Watcher:
    def step(self):
        pass

    def is_breach(self):
        return 0

    def elapsed_ms(self):
        return 0


class _Pool:
    def __init__(self, world):
        self.w = world
        self.jobs = []     # unfinished jobs in submit order: (Co, future, payload)

    def submit(self, fn, *a):
        from concurrent.futures import Future
        fut = Future()
        w = self.w

        def body():
            try:
                fut.set_result(fn(*a))
            except _Abort:
                raise
            except Exception as e:
                fut.set_exception(e)
        co = Co(w, "job", body)
        co.payload = a[0]
        co.fut = fut
        self.jobs.append(co)
        w.op(["submit", w.un_ds(a[0].header.ds)])
        co.resume()          # up to its first pause point (just before `allocate`)
        return fut


def mk_func(t, nout, fail_at):
    """a task body: one value for a single-output task, a generator of `nout` values otherwise (runner.run zips the
    declared outputs with it); `fail_at` = raise after that many outputs"""
    def val(k, args):
        return f"t{t}.{k}(" + ",".join(str(a) for a in args) + ")"
    if nout == 1:
        def body(*args):
            if fail_at is not None:
                raise RuntimeError(f"task t{t} fails")
            return val(0, args)
        return body

    def gbody(*args):
        for k in range(nout):
            if fail_at == k:
                raise RuntimeError(f"task t{t} fails after {k} outputs")
            yield val(k, args)
        if fail_at == nout:
            raise RuntimeError(f"task t{t} fails after {nout} outputs")
    return gbody


# ----------------------------------------------------------------------------- the world

class World:
    """The real side. `pick(p)` executes one pick and returns the list of operations performed."""

    def __init__(self, spec, nw):
        import cloudpickle
        import cascade.executor.data_server as dsv
        import cascade.executor.executor as xmod
        import cascade.executor.runner.entrypoint as ep
        import cascade.executor.runner.memory as memmod
        import cascade.executor.runner.runner as runmod
        import cascade.executor.serde as serde
        import cascade.shm.client as real_client
        from cascade.executor import msg as M
        from cascade.low.core import DatasetId, JobInstance, Task2TaskEdge, TaskDefinition, TaskInstance, WorkerId
        from cascade.low.views import param_source
        self.M, self.serde, self.ep, self.xmod, self.dsv, self.memmod, self.runmod = M, serde, ep, xmod, dsv, memmod, runmod
        self.DatasetId, self.WorkerId = DatasetId, WorkerId
        self.spec, self.nw = spec, nw
        self.cur = None
        self.ops = []
        self.to_ctrl = []
        self.closed = False
        # ---- the job
        tasks, edges = {}, []
        self.nout = [t["nOut"] for t in spec["tasks"]]
        for i, t in enumerate(spec["tasks"]):
            d = TaskDefinition(func=base64.b64encode(cloudpickle.dumps(mk_func(i, t["nOut"], t.get("failAt")))).decode("ascii"),
                               environment=[], input_schema={}, output_schema={self.oname(i, k): "Any" for k in range(t["nOut"])},
                               needs_gpu=False)
            tasks[f"t{i}"] = TaskInstance(definition=d, static_input_kw={}, static_input_ps={})
            for p, src in enumerate(t["params"]):
                edges.append(Task2TaskEdge(source=self.dsid(src), sink_task=f"t{i}", sink_input_kw=None, sink_input_ps=p))
        self.job = JobInstance(tasks=tasks, edges=edges, ext_outputs=[])
        self.key2ds, self.ds2key = {}, {}
        for i, n in enumerate(self.nout):
            for k in range(n):
                key = memmod.ds2shmid(self.dsid([i, k]))
                self.key2ds[key] = [i, k]
                self.ds2key[(i, k)] = key
        # ---- module globals replaced for the lifetime of this world
        self.shm = FakeShm(self, real_client.ConflictError)
        self._saved = [(ep, "zmq", ep.zmq), (ep, "callback", ep.callback), (ep, "execute_sequence", ep.execute_sequence),
                       (ep, "logging_config", ep.logging_config), (ep, "label", ep.label),
                       (memmod, "callback", memmod.callback), (memmod, "shm_client", memmod.shm_client),
                       (xmod, "callback", xmod.callback), (xmod, "mark", xmod.mark),
                       (dsv, "callback", dsv.callback), (dsv, "shm_client", dsv.shm_client), (dsv, "mark", dsv.mark), (dsv, "wait", dsv.wait),
                       (runmod, "mark", runmod.mark), (runmod, "trace", runmod.trace), (memmod.Memory, "pop", memmod.Memory.pop)]
        self._env = os.environ.get("CUDA_VISIBLE_DEVICES")
        self._logdis = logging.root.manager.disable
        logging.disable(logging.CRITICAL)
        world = self

        class Sock:
            def bind(s, a):
                pass

            def recv(s):
                co = world.cur
                co.pause("recv")
                return co.deliver

        class Ctx:
            def socket(s, kind):
                return Sock()

        real_exec = ep.execute_sequence

        def exec_wrapper(ts, memory, pckg, rc):
            world.on_exec_start(ts)
            co = world.cur
            co.in_exec = True
            try:
                return real_exec(ts, memory, pckg, rc)
            finally:
                co.in_exec = False
                world.op(["exec-end"])

        real_pop = memmod.Memory.pop

        def pop_wrapper(mem, ds):
            world.op(["pop", world.un_ds(ds)])
            return real_pop(mem, ds)

        ep.zmq = types.SimpleNamespace(Context=Ctx, PULL=0)
        ep.callback = self.cb_plain
        ep.execute_sequence = exec_wrapper
        memmod.Memory.pop = pop_wrapper
        ep.logging_config = {"version": 1, "disable_existing_loggers": False}
        ep.label = lambda *a, **k: None
        memmod.callback = self.cb_announce
        memmod.shm_client = self.shm
        xmod.callback = self.cb_plain
        xmod.mark = lambda *a, **k: None
        dsv.callback = self.cb_announce
        dsv.shm_client = self.shm
        dsv.mark = lambda *a, **k: None
        dsv.wait = self.fake_wait
        runmod.mark = lambda *a, **k: None
        runmod.trace = lambda *a, **k: None
        # ---- queues
        self.xq, self.dq = [], []
        self.inbox = [[] for _ in range(nw)]
        self.addr = {ep.worker_address(self.wid(k)): ("w", k) for k in range(nw)}
        self.addr["x"] = ("x",)
        self.addr["d"] = ("d",)
        # ---- workers: the real entrypoint, run up to its first recv
        self.ps = param_source(self.job.edges)
        self.wco, self.wproc = [], []
        self.cuda = []
        for k in range(nw):
            rc = ep.RunnerContext(workerId=self.wid(k), job=self.job, callback="x", param_source=self.ps)
            co = Co(self, f"w{k}", (lambda rc=rc: ep.entrypoint(rc)))
            co.k = k
            self.wco.append(co)
            self.wproc.append(_Proc())
            co.resume()
            self.cuda.append(os.environ.get("CUDA_VISIBLE_DEVICES"))
        self.ready = [m for m in self.xq]
        self.xq = []          # WorkerReady messages are consumed by start_workers, outside this layer
        self.ops = []
        # ---- the executor shell
        x = object.__new__(xmod.Executor)
        x.job_instance, x.param_source = self.job, self.ps
        x.host = _HOST
        x.workers = {self.wid(k): self.wproc[k] for k in range(nw)}
        x.datasets = set()
        x.heartbeat_watcher = _Watcher()
        x.terminating = False
        x.mlistener = _OneShotListener("x")
        x.sender = _Sender(self)
        x.daddress = "d"
        x.shm_process = _Proc()
        x.data_server = _Proc()
        x.registration = None
        self.x = x
        # ---- the data server shell: the real __init__ with the outside world replaced
        self.pool = _Pool(self)
        sv = (dsv.Listener, dsv.ThreadPoolExecutor, dsv.label, dsv.logging.config.dictConfig, dsv.shm_api.publish_client_port)
        dsv.Listener = _OneShotListener
        dsv.ThreadPoolExecutor = lambda *a, **k: self.pool
        dsv.label = lambda *a, **k: None
        dsv.logging.config.dictConfig = lambda *a, **k: None
        dsv.shm_api.publish_client_port = lambda *a, **k: None
        try:
            self.ds_srv = dsv.DataServer("x", "d", _HOST, 0, {"version": 1})
        finally:
            dsv.Listener, dsv.ThreadPoolExecutor, dsv.label, dsv.logging.config.dictConfig, dsv.shm_api.publish_client_port = sv
        # ---- oracle bookkeeping (reads the store and the job description only)
        self.findings = []
        self.sent_tasks = set()     # (worker, tasks) of every TaskSequence the controller sent
        self.strict = True          # False as soon as the controller traffic left the discipline (see `Controller`)
        self.strict_fin = True      # ... the stronger one: no purge of an input of an UNFINISHED sequence
        self.exec_log = []

    # ---- naming
    def oname(self, t, k):
        return f"o{k}"

    def dsid(self, d):
        return self.DatasetId(f"t{d[0]}", f"o{d[1]}")

    def un_ds(self, ds):
        return [int(ds.task[1:]), int(ds.output[1:])]

    def wid(self, k):
        return self.WorkerId(_HOST, f"w{k}")

    def cm(self, m):
        M = self.M
        if isinstance(m, M.TaskSequence):
            return {"m": "task", "w": int(m.worker.worker[1:]), "tasks": [int(t[1:]) for t in m.tasks], "pub": sorted(self.un_ds(d) for d in m.publish)}
        if isinstance(m, M.DatasetPublished):
            return {"m": "pub", "ds": self.un_ds(m.ds), "from": "d" if isinstance(m.origin, str) else "w"}
        if isinstance(m, M.DatasetPurge):
            return {"m": "purge", "ds": self.un_ds(m.ds)}
        if isinstance(m, M.WorkerShutdown):
            return {"m": "shutdown"}
        if isinstance(m, M.ExecutorShutdown):
            return {"m": "xshutdown"}
        if isinstance(m, M.TaskFailure):
            return {"m": "taskfail", "w": int(m.worker.worker[1:]), "task": None if m.task is None else int(m.task[1:])}
        if isinstance(m, M.ExecutorFailure):
            det = m.detail
            kind = ("dead-worker-dispatch" if "is not alive" in det else "healthcheck" if "failed to terminate correctly" in det
                    else "unknown-worker" if det.startswith("KeyError") else "other:" + det[:60])
            return {"m": "xfail", "why": kind}
        if isinstance(m, M.ExecutorExit):
            return {"m": "xexit"}
        if isinstance(m, M.DatasetTransmitFailure):
            return {"m": "tfail"}
        if isinstance(m, M.DatasetTransmitPayload):
            return {"m": "payload", "ds": self.un_ds(m.header.ds)}
        if isinstance(m, M.WorkerReady):
            return {"m": "ready"}
        return {"m": "other:" + type(m).__name__}

    def op(self, o):
        self.ops.append(o)

    # ---- routing of `callback`
    def _route(self, address, m):
        to = self.addr.get(address)
        if to is None:
            self.op(["send", "nowhere:" + str(address), self.cm(m)])
            return
        if to[0] == "w":
            self.inbox[to[1]].append(self.serde.ser_message(m))
            self.op(["send", f"w{to[1]}", self.cm(m)])
        elif to[0] == "x":
            self.xq.append(m)
            self.op(["send", "x", self.cm(m)])
            if isinstance(m, self.M.DatasetPublished):
                self.on_announce(m)
        else:
            self.dq.append(m)
            self.op(["send", "d", self.cm(m)])

    def cb_plain(self, address, m):
        self._route(address, m)

    def cb_announce(self, address, m):
        """`callback` of runner/memory.py and of data_server.py: the announcement of a stored dataset is a pause point"""
        co = self.cur
        if isinstance(co, Co) and isinstance(m, self.M.DatasetPublished):
            co.pause("announce")
        self._route(address, m)

    def fake_wait(self, futs, return_when=None):
        # the generator never lets the data server block (it is handed a message only when the real loop would not
        # wait); if a change makes it wait all the same, the pending jobs run to their end here
        for co in list(self.pool.jobs):
            while not co.finished:
                co.resume()
            self.pool.jobs.remove(co)
        return set(futs), set()

    # ---- oracle hooks
    def required(self, tasks):
        own = [[t, k] for t in tasks for k in range(self.nout[t])]
        req = []
        for t in tasks:
            for d in self.spec["tasks"][t]["params"]:
                if d not in req and d not in own:
                    req.append(list(d))
        return req

    def on_exec_start(self, ts):
        tasks = [int(t[1:]) for t in ts.tasks]
        k = self.cur.k            # the worker process that is executing (not what the message says)
        self.op(["exec", tasks])
        if (k, tuple(tasks)) not in self.sent_tasks:
            self.findings.append(({"kind": "executed-by-a-worker-it-was-not-sent-to"},
                                  f"worker w{k} entered execute_sequence for tasks {tasks}, but the controller addressed no such sequence to w{k} "
                                  f"(sent: {sorted(self.sent_tasks)})"))
        req = self.required(tasks)
        never = [d for d in req if tuple(d) not in self.shm.arrived]
        unread = [d for d in req if not self.shm.readable(d)]
        self.exec_log.append({"w": k, "tasks": tasks, "req": req, "never": never, "unreadable": unread, "strict": self.strict})
        if never:
            self.findings.append(({"kind": "started-before-input-arrived"},
                                  f"worker w{k} entered execute_sequence for tasks {tasks} although dataset(s) {never} had never been "
                                  f"completely written into the shm of its host"))
        elif unread and self.strict:
            self.findings.append(({"kind": "started-with-input-not-readable"},
                                  f"worker w{k} entered execute_sequence for tasks {tasks} although dataset(s) {unread} are not readable in "
                                  f"the shm of its host (the controller had not purged them)"))

    def note_miss(self, d):
        co = self.cur
        if not (isinstance(co, Co) and hasattr(co, "k")):
            return
        own = any(tuple(d) == (t, k) for e in self.exec_log[-1:] if getattr(co, "in_exec", False) and e["w"] == co.k
                  for t in e["tasks"] for k in range(self.nout[t]))
        if own:
            return
        if tuple(d) not in self.shm.arrived:
            self.findings.append(({"kind": "read-before-input-arrived"},
                                  f"worker w{co.k} asked the shm for its input {d} (announced to it) although that dataset had never been "
                                  f"completely written into the shm of its host"))
        elif self.strict_fin if getattr(co, "in_exec", False) else self.strict:
            self.findings.append(({"kind": "read-input-not-readable"},
                                  f"worker w{co.k} asked the shm for its input {d}, announced to it and not purged by the controller, but it is not readable"))

    def on_announce(self, m):
        pass

    # ---- enabledness (the same rules as Model/ExecLayer.lean `enabled`)
    def unfinished_jobs(self):
        return [co for co in self.pool.jobs if not co.finished]

    def worker_dead(self, k):
        return self.wco[k].finished

    def worker_running(self, k):
        return (not self.wco[k].finished) and self.wco[k].at != "recv"

    def enabled(self, p):
        a = p[0]
        if a in ("c", "n"):
            return True
        if a == "x":
            return (not self.x.terminating) and p[1] < len(self.xq)
        if a == "w":
            k = p[1]
            if k >= self.nw or self.worker_dead(k):
                return False
            return self.worker_running(k) or p[2] < len(self.inbox[k])
        if a == "d":
            if p[1] >= len(self.dq):
                return False
            nj = len(self.unfinished_jobs())
            if nj >= 2:
                return False
            return not (isinstance(self.dq[p[1]], self.M.DatasetPurge) and nj > 0)
        if a == "j":
            return p[1] < len(self.unfinished_jobs())
        return False

    # ---- one pick
    def pick(self, p):
        self.ops = []
        if not self.enabled(p):
            return [["skip"]]
        M = self.M
        a = p[0]
        if a == "c":
            m = p[1]
            if m["m"] == "task":
                self.sent_tasks.add((m["w"], tuple(m["tasks"])))
                msg = M.TaskSequence(worker=self.wid(m["w"]), tasks=[f"t{t}" for t in m["tasks"]], publish={self.dsid(d) for d in m["pub"]})
            elif m["m"] == "purge":
                msg = M.DatasetPurge(ds=self.dsid(m["ds"]))
            else:
                msg = M.ExecutorShutdown()
            self.xq.append(msg)
            self.op(["send", "x", self.cm(msg)])
        elif a == "n":
            d = p[1]
            hdr = M.DatasetTransmitPayloadHeader(confirm_address="src", confirm_idx=p[2] if len(p) > 2 else 0, ds=self.dsid(d), deser_fun="cloudpickle.loads")
            import cloudpickle
            msg = M.DatasetTransmitPayload(header=hdr, value=cloudpickle.dumps(f"remote{d}"))
            self.dq.append(msg)
            self.op(["send", "d", self.cm(msg)])
        elif a == "x":
            m = self.xq.pop(p[1])
            self.op(["recv", self.cm(m)])
            self.x.mlistener.next = m
            try:
                self.x.recv_loop()
            except _EndIteration:
                pass
            if self.x.terminating:
                self.op(["terminated"])
        elif a == "w":
            k = p[1]
            co = self.wco[k]
            if co.at == "recv":
                raw = self.inbox[k].pop(p[2])
                co.deliver = raw
                self.op(["recv", self.cm(self.serde.des_message(raw))])
            co.resume()
            if co.finished:
                if co.exc is None:
                    self.wproc[k].exitcode = 0
                    self.op(["stop"])
                else:
                    self.wproc[k].exitcode = 1
                    e = co.exc
                    kind = ("double-task-sequence" if "double task sequence" in str(e) else "shm-miss" if isinstance(e, ShmMiss)
                            else f"{type(e).__name__}: {e}"[:80])
                    self.op(["died", kind])
        elif a == "d":
            m = self.dq.pop(p[1])
            self.op(["recv", self.cm(m)])
            self.ds_srv.dlistener.next = m
            self.ds_srv.dlistener.owner = self.ds_srv
            self.ds_srv.terminating = False
            try:
                self.ds_srv.recv_loop()
            except _EndIteration:
                pass
        elif a == "j":
            co = self.unfinished_jobs()[p[1]]
            co.resume()
            if co.finished:
                self.pool.jobs.remove(co)
                self.op(["job-done"])
        ops, self.ops = self.ops, []
        return ops

    # ---- abstraction of the real state (compared with the model after every pick)
    def digest(self):
        r, wr = self.shm.snapshot()
        ws = []
        for k in range(self.nw):
            co = self.wco[k]
            fr = None
            if co.thread is not None and not co.finished:
                import sys
                f = sys._current_frames().get(co.thread.ident)
                while f is not None and f.f_code.co_name != "entrypoint":
                    f = f.f_back
                fr = f
            if fr is None:
                ws.append({"dead": True})
                continue
            loc = fr.f_locals
            mem = loc.get("memory")
            wt = loc.get("waiting_ts")
            ws.append({"dead": False,
                       "avail": sorted(self.un_ds(d) for d in loc.get("availab_ds", ())),
                       "missing": sorted(self.un_ds(d) for d in loc.get("missing_ds", ())),
                       "waiting": None if wt is None else [int(t[1:]) for t in wt.tasks],
                       "local": sorted(self.un_ds(d) for d in mem.local) if mem is not None else [],
                       "bufs": sorted(self.un_ds(d) for d in mem.bufs) if mem is not None else [],
                       "running": co.at != "recv"})
        return {"datasets": sorted(self.un_ds(d) for d in self.x.datasets), "xdead": bool(self.x.terminating),
                "shmR": r, "shmW": wr, "invalid": sorted(self.un_ds(d) for d in self.ds_srv.invalid),
                "xq": len(self.xq), "dq": len(self.dq), "inbox": [len(q) for q in self.inbox], "jobs": len(self.unfinished_jobs()), "w": ws}

    def close(self):
        if self.closed:
            return
        self.closed = True
        try:
            for co in self.wco + list(self.pool.jobs):
                co.kill()
        finally:
            for mod, name, val in self._saved:
                setattr(mod, name, val)
            if self._env is None:
                os.environ.pop("CUDA_VISIBLE_DEVICES", None)
            else:
                os.environ["CUDA_VISIBLE_DEVICES"] = self._env
            logging.disable(self._logdis)


# ----------------------------------------------------------------------------- generator: jobs, controller-shaped traffic, schedules

def gen_spec(rng):
    n = rng.randint(2, 7)
    tasks = []
    for i in range(n):
        nout = rng.choice([1, 1, 1, 2, 2, 3])
        params = []
        if i > 0 and rng.random() < 0.85:
            for _ in range(rng.randint(1, min(3, i))):
                src = rng.randrange(i) if rng.random() < 0.5 else i - 1
                params.append([src, rng.randrange(tasks[src]["nOut"])])
        fail = None
        if rng.random() < 0.07:
            fail = 0 if nout == 1 else rng.randint(0, nout)
        tasks.append({"params": params, "nOut": nout, "failAt": fail})
    return {"tasks": tasks}


def required_of(spec, tasks):
    own = [[t, k] for t in tasks for k in range(spec["tasks"][t]["nOut"])]
    req = []
    for t in tasks:
        for d in spec["tasks"][t]["params"]:
            if d not in req and d not in own:
                req.append(list(d))
    return req


class Controller:
    """The adversary that plays controller and network for ONE host of a larger cluster. In `strict` mode it does what
    the controller theorems (C02/C04) say the real one does: a task is dispatched once, to a worker without an outstanding
    sequence, after its inputs exist somewhere, with a transfer commanded for every input the host has not announced
    (the command may overtake payload and notice); a dataset is purged only when no sequence that needs it is unfinished
    and nothing dispatched later needs it. In `wild` mode it sends anything. Its bookkeeping uses only what it sent
    and what came up to it (`to_ctrl`), plus — for the discipline flags — the harness' own view of its fake network."""

    def __init__(self, rng, spec, nw, wild):
        self.rng, self.spec, self.nw, self.wild = rng, spec, nw, wild
        n = len(spec["tasks"])
        self.local = [rng.random() < 0.7 for _ in range(n)]
        if not any(self.local):
            self.local[rng.randrange(n)] = True
        self.dispatched = set()
        self.remote_done = set()
        self.busy = {}            # worker -> set of datasets still expected from it
        self.purged = []
        self.pending_payloads = []
        self.next_id = 0
        self.seen = 0             # prefix of to_ctrl already processed
        self.host_has = set()
        self.idx = 0
        self.partial_pub = rng.random() < 0.25
        self.shutdown_sent = False

    def exists(self, d):
        d = tuple(d)
        return d in self.host_has or d[0] in self.remote_done

    def absorb(self, world):
        for m in world.to_ctrl[self.seen:]:
            c = world.cm(m)
            if c["m"] == "pub":
                d = tuple(c["ds"])
                self.host_has.add(d)
                for w in list(self.busy):
                    self.busy[w].discard(d)
                    if not self.busy[w]:
                        del self.busy[w]
        self.seen = len(world.to_ctrl)

    def consumers_local(self, d):
        return [t for t, tk in enumerate(self.spec["tasks"]) if self.local[t] and list(d) in [list(x) for x in tk["params"]]]

    def moves(self, world):
        """candidate controller/network actions as picks (strict ones first class, wild ones only in wild mode)"""
        self.absorb(world)
        rng, spec = self.rng, self.spec
        out = []
        n = len(spec["tasks"])
        # remote tasks finish when their inputs exist
        for t in range(n):
            if not self.local[t] and t not in self.remote_done and all(self.exists(d) for d in spec["tasks"][t]["params"]):
                if rng.random() < 0.5:
                    self.remote_done.add(t)
        idle = [k for k in range(self.nw) if k not in self.busy]
        ready = [t for t in range(n) if self.local[t] and t not in self.dispatched and all(self.exists(d) for d in spec["tasks"][t]["params"])]
        if ready and idle:
            t = rng.choice(ready)
            seq = [t]
            # a sequence of up to 4 tasks: later tasks all of whose inputs exist or are produced earlier in the sequence
            while len(seq) < 4 and rng.random() < 0.6:
                own = {(a, k) for a in seq for k in range(spec["tasks"][a]["nOut"])}
                cand = [u for u in range(n) if self.local[u] and u not in self.dispatched and u not in seq and u > seq[-1]
                        and all(self.exists(d) or tuple(d) in own for d in spec["tasks"][u]["params"])]
                if not cand:
                    break
                seq.append(rng.choice(cand))
            outs = [[a, k] for a in seq for k in range(spec["tasks"][a]["nOut"])]
            pub = [d for d in outs if rng.random() < 0.6] if self.partial_pub else outs
            out.append(("dispatch", {"w": rng.choice(idle), "tasks": seq, "pub": sorted(pub)}))
        if self.pending_payloads:
            out.append(("payload", self.pending_payloads[rng.randrange(len(self.pending_payloads))]))
        busy_req = world.unstarted_req() + world.unfinished_req()
        purgeable = [d for d in sorted(self.host_has) if list(d) not in self.purged and list(d) not in busy_req
                     and all(t in self.dispatched for t in self.consumers_local(d))]
        if purgeable and rng.random() < 0.5:
            out.append(("purge", list(rng.choice(purgeable))))
        if self.wild:
            allds = [[t, k] for t in range(n) for k in range(spec["tasks"][t]["nOut"])]
            r = rng.random()
            if r < 0.25:
                out.append(("purge!", rng.choice(allds)))
            elif r < 0.45:
                k = rng.randint(1, min(3, n))
                seq = sorted(rng.sample(range(n), k))
                outs = [[a, j] for a in seq for j in range(spec["tasks"][a]["nOut"])]
                out.append(("dispatch!", {"w": rng.randrange(self.nw + (1 if rng.random() < 0.1 else 0)), "tasks": seq,
                                          "pub": sorted(d for d in outs if rng.random() < 0.8)}))
            elif r < 0.6:
                out.append(("payload!", rng.choice(allds)))
            elif r < 0.64 and not self.shutdown_sent:
                out.append(("shutdown", None))
        return out

    def commit(self, world, mv):
        """turn the chosen move into picks; updates the discipline flags of the world from the harness' own view of the
        fake network (queues it owns) and of what it saw the workers do"""
        kind, a = mv
        picks = []
        if kind in ("dispatch", "dispatch!"):
            req = required_of(self.spec, a["tasks"])
            if any(d in self.purged for d in req):
                world.strict = world.strict_fin = False
            m = {"m": "task", "w": a["w"], "id": self.next_id, "tasks": a["tasks"], "pub": a["pub"]}
            self.next_id += 1
            picks.append(["c", m])
            if kind == "dispatch":
                self.dispatched.update(a["tasks"])
                if a["pub"]:
                    self.busy[a["w"]] = {tuple(d) for d in a["pub"]}
                else:
                    self.busy[a["w"]] = {("never",)}
                for d in req:
                    if tuple(d) not in self.host_has and d not in self.pending_payloads:
                        self.pending_payloads.append(d)      # "a transfer of it to that host has been commanded"
        elif kind in ("payload", "payload!"):
            if a in self.pending_payloads:
                self.pending_payloads.remove(a)
            self.idx += 1
            picks.append(["n", a, self.idx])
        elif kind in ("purge", "purge!"):
            un, unf = world.unstarted_req(), world.unfinished_req()
            if a in un:
                world.strict = False
            if a in un or a in unf:
                world.strict_fin = False
            if a not in self.purged:
                self.purged.append(a)
            picks.append(["c", {"m": "purge", "ds": a}])
        else:
            self.shutdown_sent = True
            picks.append(["c", {"m": "xshutdown"}])
        return picks


def _w_unstarted_req(self):
    """datasets required by a TaskSequence that sits in a queue of the fake network or was read by a worker that has not
    entered execute_sequence for it (the harness' own observations)"""
    M = self.M
    req = []
    for m in self.xq:
        if isinstance(m, M.TaskSequence):
            req += required_of(self.spec, [int(t[1:]) for t in m.tasks])
    for k in range(self.nw):
        for raw in self.inbox[k]:
            m = self.serde.des_message(raw)
            if isinstance(m, M.TaskSequence):
                req += required_of(self.spec, [int(t[1:]) for t in m.tasks])
        if self.obs_waiting[k] is not None:
            req += required_of(self.spec, self.obs_waiting[k])
    return req


def _w_unfinished_req(self):
    req = []
    for k in range(self.nw):
        if self.obs_running[k] is not None:
            req += required_of(self.spec, self.obs_running[k])
    return req


World.unstarted_req = _w_unstarted_req
World.unfinished_req = _w_unfinished_req


def observe(world, p, ops):
    """what the harness itself saw the workers do (for the discipline flags): a worker that read a TaskSequence and did
    not enter execute_sequence is waiting with it"""
    if p[0] != "w" or ops == [["skip"]]:
        return
    k = p[1]
    got = [o[1] for o in ops if o[0] == "recv" and o[1].get("m") == "task"]
    died = [o for o in ops if o[0] == "died"]
    if got and not (died and died[0][1] == "double-task-sequence"):
        world.obs_waiting[k] = got[0]["tasks"]
    for o in ops:
        if o[0] == "exec":
            world.obs_waiting[k] = None
            world.obs_running[k] = o[1]
        if o[0] == "exec-end":
            world.obs_running[k] = None


def actor_picks(world, rng, fifo):
    """enabled actor picks"""
    out = []

    def ix(n):
        return 0 if (fifo or n <= 1 or rng.random() < 0.7) else rng.randrange(n)
    if world.xq and not world.x.terminating:
        out.append(["x", ix(len(world.xq))])
    for k in range(world.nw):
        if world.worker_dead(k):
            continue
        if world.worker_running(k):
            out.append(["w", k, 0])
        elif world.inbox[k]:
            out.append(["w", k, ix(len(world.inbox[k]))])
    if world.dq:
        p = ["d", ix(len(world.dq))]
        if world.enabled(p):
            out.append(p)
        elif world.enabled(["d", 0]):
            out.append(["d", 0])
    nj = len(world.unfinished_jobs())
    for j in range(nj):
        out.append(["j", j])
    return out


def new_world(spec, nw):
    w = World(spec, nw)
    w.obs_waiting = [None] * nw
    w.obs_running = [None] * nw
    return w


def generate(rng, spec, nw, wild, fifo, chase, maxlen):
    """run the real side under a schedule chosen on the fly; returns (picks, trace, world-summary)"""
    world = new_world(spec, nw)
    try:
        ctl = Controller(rng, spec, nw, wild)
        picks, trace = [], []
        last_dest = None
        idle_rounds = 0
        while len(picks) < maxlen:
            acts = actor_picks(world, rng, fifo)
            mvs = ctl.moves(world)
            choice = None
            if chase and last_dest is not None and rng.random() < 0.8:
                pref = [a for a in acts if (a[0] == last_dest[0] and (a[0] != "w" or a[1] == last_dest[1]))]
                if pref:
                    choice = ("a", rng.choice(pref))
            if choice is None:
                pool = [("a", a) for a in acts] + [("m", m) for m in mvs] * (2 if not acts else 1)
                if not pool:
                    idle_rounds += 1
                    if idle_rounds > 3:
                        break
                    continue
                choice = rng.choice(pool)
            idle_rounds = 0
            todo = [choice[1]] if choice[0] == "a" else ctl.commit(world, choice[1])
            for p in todo:
                flags = (world.strict, world.strict_fin)
                ops = world.pick(p)
                observe(world, p, ops)
                picks.append(p)
                trace.append({"ops": ops, "dig": world.digest(), "strict": flags[0]})
                last_dest = None
                for o in ops:
                    if o[0] == "send" and o[1] != "ctrl":
                        last_dest = ("w", int(o[1][1:])) if o[1].startswith("w") else (o[1],)
        return picks, trace, summary(world)
    finally:
        world.close()


def summary(world):
    return {"findings": list(world.findings), "exec_log": list(world.exec_log), "cuda": list(world.cuda),
            "strict": world.strict, "strict_fin": world.strict_fin}


def replay_picks(spec, nw, picks, flags=None):
    """re-run recorded picks on the real side (discipline flags re-derived the same way)"""
    world = new_world(spec, nw)
    try:
        purged = []
        trace = []
        for p in picks:
            if p[0] == "c":
                m = p[1]
                if m["m"] == "task" and any(d in purged for d in required_of(spec, m["tasks"])):
                    world.strict = world.strict_fin = False
                if m["m"] == "purge":
                    un, unf = world.unstarted_req(), world.unfinished_req()
                    if m["ds"] in un:
                        world.strict = False
                    if m["ds"] in un or m["ds"] in unf:
                        world.strict_fin = False
                    if m["ds"] not in purged:
                        purged.append(m["ds"])
            st = world.strict
            ops = world.pick(p)
            observe(world, p, ops)
            trace.append({"ops": ops, "dig": world.digest(), "strict": st})
        return trace, summary(world)
    finally:
        world.close()


# ----------------------------------------------------------------------------- model side

def model_lines(spec, nw, picks):
    import json
    job = [{"inputs": t["params"], "nOut": t["nOut"], "failAt": t.get("failAt")} for t in spec["tasks"]]
    lines = [json.dumps({"op": "reset", "job": job, "nW": nw})]
    for p in picks:
        a = p[0]
        if a == "c":
            lines.append(json.dumps({"op": "pick", "a": "c", "m": p[1]}))
        elif a == "n":
            lines.append(json.dumps({"op": "pick", "a": "n", "ds": p[1]}))
        elif a == "w":
            lines.append(json.dumps({"op": "pick", "a": "w", "k": p[1], "i": p[2]}))
        else:
            lines.append(json.dumps({"op": "pick", "a": a, "i": p[1]}))
    lines.append(json.dumps({"op": "log", "seqs": []}))
    return lines


def canon_ops(ops):
    """real side -> the model's vocabulary: a message sent to a worker carries no origin (the model's WMsg has none); a pick
    in which the worker process dies is compared without its reads (`get`): the order in which a Python set of datasets is
    provided is not modelled, so WHICH reads precede the failing one is not comparable; everything else the process did in
    that pick before it died (what it received, published, sent, executed) and the cause of death are compared"""
    out = []
    for o in ops:
        o = list(o)
        if o[0] == "send" and o[1].startswith("w"):
            m = dict(o[2])
            m.pop("from", None)
            o[2] = m
        out.append(o)
    if any(o[0] == "died" for o in out):
        out = [o for o in out if not o[0].startswith("get")]      # "get" and the failing read "get-miss" (the model emits only the death)
    return out


def canon_digest(d):
    d = dict(d)
    for k in ("datasets", "shmR", "shmW", "invalid"):
        d[k] = sorted(d[k])
    ws = []
    for w in d["w"]:
        w = dict(w)
        for k in ("avail", "missing", "local", "bufs"):
            if k in w:
                w[k] = sorted(w[k])
        ws.append(w)
    d["w"] = ws
    return d


def _sort_gets(ops):
    gets = sorted([o for o in ops if o[0] == "get"], key=lambda o: o[1])
    it = iter(gets)
    return [next(it) if o[0] == "get" else o for o in ops]


def compare(picks, trace, model_out):
    """first difference between the real trace and the model's replay, or None"""
    import json
    for i, (p, t) in enumerate(zip(picks, trace)):
        mo = json.loads(model_out[i])
        if "driver_error" in mo:
            return i, "driver", mo, t
        real_ops = canon_ops(t["ops"])
        if p[0] == "w":
            real_ops = [[o[0], {k: v for k, v in o[1].items() if k != "from"}] if o[0] == "recv" else o for o in real_ops]
        model_ops = mo["ops"]
        if any(o[0] == "died" for o in model_ops):
            model_ops = [o for o in model_ops if not o[0].startswith("get")]
        if p[0] == "w" and not any(o[0] == "exec" for o in real_ops):
            # memory.provide over `availab_ds.intersection(required)` of the wait loop: a Python set, its order is not modelled
            real_ops = _sort_gets(real_ops)
            model_ops = _sort_gets(model_ops)
        if real_ops != model_ops:
            return i, "ops", model_ops, real_ops
        md, rd = canon_digest(mo["dig"]), canon_digest(t["dig"])
        if md != rd:
            diff = {k: (md.get(k), rd.get(k)) for k in rd if md.get(k) != rd.get(k)}
            return i, "state", {k: v[0] for k, v in diff.items()}, {k: v[1] for k, v in diff.items()}
    return None


# ----------------------------------------------------------------------------- the check: correspondence + oracle

WITNESS_SPEC = {"tasks": [{"params": [], "nOut": 1, "failAt": None}, {"params": [[0, 0]], "nOut": 1, "failAt": None}]}
_T0 = {"m": "task", "w": 0, "id": 0, "tasks": [0], "pub": [[0, 0]]}
_T1 = {"m": "task", "w": 0, "id": 1, "tasks": [1], "pub": [[1, 0]]}
# Props/C02Exec.lean `witnessPicks` (c02_exec_inputs_readable_full_fails): the purge of (0,0) is commanded while [t1] is queued
WITNESS_PICKS = [["c", _T0], ["x", 0], ["w", 0, 0], ["w", 0, 0], ["w", 0, 0], ["w", 0, 0], ["x", 0],
                 ["c", _T1], ["x", 0], ["c", {"m": "purge", "ds": [0, 0]}], ["x", 0], ["d", 0], ["w", 0, 0], ["w", 0, 0]]
# the disciplined variant (the non-vacuity example of c02_exec_inputs_readable)
WITNESS_OK_PICKS = [["c", _T0], ["x", 0], ["w", 0, 0], ["w", 0, 0], ["w", 0, 0], ["w", 0, 0], ["x", 0],
                    ["c", _T1], ["x", 0], ["w", 0, 0], ["w", 0, 0], ["c", {"m": "purge", "ds": [0, 0]}], ["x", 0], ["d", 0]]


def _log_view(log):
    out = []
    for e in log:
        out.append({"w": e["w"], "tasks": e["tasks"], "req": sorted(e["req"]), "never": sorted(e["never"]), "unreadable": sorted(e["unreadable"])})
    return out


def shrink(spec, nw, picks, kind, budget=60):
    """greedy: drop picks while the real code still shows a finding of this kind"""
    def bad(ps):
        try:
            _, summ = replay_picks(spec, nw, ps)
        except Exception:
            return False
        return any(f[0]["kind"] == kind for f in summ["findings"])
    cur = list(picks)
    # cut the tail first
    lo = len(cur)
    while lo > 1 and budget > 0:
        budget -= 1
        if bad(cur[:lo - 1]):
            lo -= 1
        else:
            break
    cur = cur[:lo]
    i = 0
    while i < len(cur) and budget > 0:
        budget -= 1
        cand = cur[:i] + cur[i + 1:]
        if bad(cand):
            cur = cand
        else:
            i += 1
    return cur


def check_case(ctx, spec, nw, picks, trace, summ, model_out, tag):
    """compare one case with the model's replay; report oracle findings"""
    import json
    case = {"exec_layer": {"spec": spec, "nw": nw, "picks": picks}}
    ctx.traces += 1
    r = compare(picks, trace, model_out[:len(picks)])
    if r is not None:
        i, where, mo, ro = r
        ctx.disagree("executor-layer-" + where, {"exec_layer": {"spec": spec, "nw": nw, "picks": picks[:i + 1]}}, mo, ro)
    else:
        log = json.loads(model_out[len(picks)])
        ml, rl = _log_view(log["log"]), _log_view(summ["exec_log"])
        if ml != rl:
            ctx.disagree("executor-layer-exec-log", case, ml, rl)
        # the model's `ctrlOK` (hypothesis of c02_exec_inputs_readable) against the harness' own discipline flag, as long as no
        # worker process has died (a dead worker's queue still counts in the model's conservative `unstartedReq`)
        strict_m = True
        for i, (p, t, line) in enumerate(zip(picks, trace, model_out)):
            if any(o[0] == "died" for o in t["ops"]):
                break
            if p[0] == "c":
                strict_m = strict_m and json.loads(line)["ok"]
                if strict_m != t["strict"]:
                    ctx.disagree("executor-layer-discipline", {"exec_layer": {"spec": spec, "nw": nw, "picks": picks[:i + 1]}},
                                 {"ctrlOK so far": strict_m}, {"harness discipline flag": t["strict"]})
                    break
    if not hasattr(ctx, "_exec_kinds_reported"):
        ctx._exec_kinds_reported = []      # a failing input is minimised once per kind and run
    seen = ctx._exec_kinds_reported
    for sig, what in summ["findings"]:
        if sig["kind"] in seen:
            ctx.count("exec:finding_again:" + sig["kind"])
            continue
        seen.append(sig["kind"])
        small = shrink(spec, nw, picks, sig["kind"])
        _, s2 = replay_picks(spec, nw, small)
        w2 = [w for g, w in s2["findings"] if g["kind"] == sig["kind"]]
        ctx.violation(dict(sig, layer="executor"), {"exec_layer": {"spec": spec, "nw": nw, "picks": small}}, w2[0] if w2 else what)


def correspond(ctx):
    import json
    import random
    from ekw.core import lean_drive
    # ---- the decided witnesses of Props/C02Exec.lean on the real code
    lines, cases = [], []
    for name, picks in (("witness-purge-overtakes", WITNESS_PICKS), ("witness-disciplined", WITNESS_OK_PICKS)):
        trace, summ = replay_picks(WITNESS_SPEC, 1, picks)
        cases.append((WITNESS_SPEC, 1, picks, trace, summ, name))
        lines += model_lines(WITNESS_SPEC, 1, picks)
        last = summ["exec_log"][-1] if summ["exec_log"] else None
        if name == "witness-purge-overtakes":
            ok = last is not None and last["tasks"] == [1] and last["unreadable"] == [[0, 0]] and last["never"] == [] and not summ["strict"]
            ctx.count("exec:witness_full_fails_reproduced" if ok else "exec:witness_full_fails_NOT_reproduced")
            if not ok:
                ctx.disagree("executor-layer-witness", {"exec_layer": {"spec": WITNESS_SPEC, "nw": 1, "picks": picks}},
                             "c02_exec_inputs_readable_full_fails: [t1] enters execute_sequence with (0,0) purged", last)
        else:
            ok = last is not None and last["tasks"] == [1] and last["unreadable"] == [] and summ["strict"]
            ctx.count("exec:witness_disciplined_ok" if ok else "exec:witness_disciplined_NOT_ok")
            if not ok:
                ctx.disagree("executor-layer-witness", {"exec_layer": {"spec": WITNESS_SPEC, "nw": 1, "picks": picks}},
                             "disciplined variant: [t1] enters execute_sequence with (0,0) readable", last)
    # ---- generated cases
    n = ctx.budget(170, 4000)
    for _ in range(n):
        seed = ctx.rng.randrange(1 << 30)
        rng = random.Random(seed)
        spec = gen_spec(rng)
        nw = rng.randint(1, 3)
        wild = rng.random() < 0.25
        fifo = rng.random() < 0.4
        chase = rng.random() < 0.45
        picks, trace, summ = generate(rng, spec, nw, wild, fifo, chase, rng.randint(20, 90))
        cases.append((spec, nw, picks, trace, summ, "wild" if wild else "strict"))
        lines += model_lines(spec, nw, picks)
        nontriv = any(e["req"] for e in summ["exec_log"])
        ctx.case({"exec_layer": {"spec": spec, "nw": nw, "picks": picks}}, nontrivial=nontriv)
        ctx.count("exec:cases")
        ctx.count("exec:mode:" + ("wild" if wild else "strict") + ("+fifo" if fifo else "+anyorder") + ("+chase" if chase else ""))
        ctx.count("exec:histories_disciplined_to_the_end" if summ["strict"] else "exec:histories_undisciplined")
        for t in trace:
            for o in t["ops"]:
                ctx.count("exec:op:" + o[0])
                if o[0] == "send" and o[1] == "ctrl" and o[2].get("m") == "xfail":
                    ctx.count("exec:executor_failure:" + o[2]["why"])
                if o[0] == "died":
                    ctx.count("exec:worker_died:" + str(o[1])[:30])
        for e in summ["exec_log"]:
            ctx.count("exec:entry:" + ("no-input" if not e["req"] else "inputs-readable" if not e["unreadable"] else "input-unreadable(undisciplined)"))
            ctx.count("exec:seq_len:%d" % len(e["tasks"]))
    out = lean_drive("C02X", lines)
    k = 0
    for spec, nw, picks, trace, summ, tag in cases:
        k += 1
        mo = out[k:k + len(picks) + 1]
        k += len(picks) + 1
        check_case(ctx, spec, nw, picks, trace, summ, mo, tag)
    correspond_gpu(ctx)


# ----------------------------------------------------------------------------- GPU facts of the layer

def real_registration(nw, gpus, host=None, full=False):
    """the REAL Executor.__init__ (no sockets, no processes): [(worker_num, gpu flag)] of its ExecutorRegistration
    (`full`: the ExecutorRegistration message itself, as the executor would send it to the controller)"""
    import cascade.executor.executor as xmod
    from cascade.low.core import JobInstance

    class _L:
        def __init__(self, address):
            self.address = address

    class _S:
        def __init__(self, *a, **k):
            pass

        def add_host(self, *a):
            pass

    class _P:
        def __init__(self, *a, **k):
            pass

        def start(self):
            pass

    class _Ctx:
        Process = _P

    saved = (xmod.Listener, xmod.ReliableSender, xmod.get_context, xmod.atexit, xmod.shm_api)
    env = os.environ.get("CASCADE_GPU_COUNT")
    xmod.Listener, xmod.ReliableSender = _L, _S
    xmod.get_context = lambda kind: _Ctx()
    xmod.atexit = types.SimpleNamespace(register=lambda f: None)
    xmod.shm_api = types.SimpleNamespace(publish_client_port=lambda p: None)
    try:
        os.environ["CASCADE_GPU_COUNT"] = str(gpus)
        x = xmod.Executor(JobInstance(tasks={}, edges=[]), "ctrl", nw, host or _HOST, 12345, None)
        if full:
            return x.registration
        return [[w.worker_id.worker_num(), int(w.gpu)] for w in x.registration.workers], [repr(w) for w in x.workers]
    finally:
        xmod.Listener, xmod.ReliableSender, xmod.get_context, xmod.atexit, xmod.shm_api = saved
        if env is None:
            os.environ.pop("CASCADE_GPU_COUNT", None)
        else:
            os.environ["CASCADE_GPU_COUNT"] = env


def real_cuda_env(worker_name):
    """the REAL entrypoint() of the worker `h0.<worker_name>` up to its first recv: the value it gives CUDA_VISIBLE_DEVICES"""
    import cascade.executor.runner.entrypoint as ep
    from cascade.low.core import JobInstance, WorkerId

    class _Stop(BaseException):
        pass

    class Sock:
        def bind(s, a):
            pass

        def recv(s):
            raise _Stop()

    class Ctx:
        def socket(s, kind):
            return Sock()

    class Mem:
        def __init__(s, *a):
            pass

        def __enter__(s):
            return s

        def __exit__(s, *a):
            return False

    saved = (ep.zmq, ep.callback, ep.Memory, ep.logging_config, ep.label)
    env = os.environ.get("CUDA_VISIBLE_DEVICES")
    dis = logging.root.manager.disable
    logging.disable(logging.CRITICAL)
    ep.zmq = types.SimpleNamespace(Context=Ctx, PULL=0)
    ep.callback = lambda a, m: None
    ep.Memory = Mem
    ep.logging_config = {"version": 1, "disable_existing_loggers": False}
    ep.label = lambda *a, **k: None
    try:
        os.environ.pop("CUDA_VISIBLE_DEVICES", None)
        rc = ep.RunnerContext(workerId=WorkerId(_HOST, worker_name), job=JobInstance(tasks={}, edges=[]), callback="x", param_source={})
        try:
            ep.entrypoint(rc)
        except _Stop:
            pass
        return os.environ.get("CUDA_VISIBLE_DEVICES")
    finally:
        ep.zmq, ep.callback, ep.Memory, ep.logging_config, ep.label = saved
        logging.disable(dis)
        if env is None:
            os.environ.pop("CUDA_VISIBLE_DEVICES", None)
        else:
            os.environ["CUDA_VISIBLE_DEVICES"] = env


def parse_cuda(v):
    """as the CUDA runtime reads the variable: comma separated device indices (an invalid entry ends the list)"""
    out = []
    for f in (v or "").split(","):
        f = f.strip()
        if not f.isdigit():
            break
        out.append(int(f))
    return out


def gpu_host_case(nw, gpus):
    """one host: what the real code registers and what each of its workers sees"""
    reg, names = real_registration(nw, gpus)
    sees = [parse_cuda(real_cuda_env(nm.split(".", 1)[1])) for nm in names]
    # ... and what the CONTROLLER believes about these workers: the Environment the REAL Bridge.__init__ builds when this
    # host's registration message reaches it (the scheduler's gpu partition reads nothing else)
    from ekw import ctrl_bridge
    try:
        env, _ = ctrl_bridge.real_bridge_init([[real_registration(nw, gpus, full=True)]])
        ctl = sorted([w.worker_num(), int(v.gpu)] for w, v in env.workers.items())
    except Exception as e:
        ctl = ["Bridge.__init__ raised: " + repr(e)[:120]]
    return {"nw": nw, "gpus": gpus, "reg": reg, "sees": sees, "ctl": ctl}


def gpu_oracle(c):
    """property text: a task that needs a GPU goes to a worker that has one — a worker registered with gpu=1 must see
    exactly one existing device, and no device may be visible to two workers of the host"""
    out = []
    gpus = c["gpus"]
    for (num, g), sees in zip(c["reg"], c["sees"]):
        real = [d for d in sees if d < gpus]
        if g and len(real) != 1:
            out.append(({"kind": "gpu-worker-does-not-see-exactly-one-device"},
                        f"host with {c['nw']} workers, CASCADE_GPU_COUNT={gpus}: worker w{num} is registered with gpu=1 but sees the devices {sees}"))
    # the controller's belief (Environment built by Bridge.__init__) against what the worker process really has
    ctl = c.get("ctl")
    if ctl is not None:
        have = {num: len([d for d in sees if d < gpus]) == 1 for (num, _), sees in zip(c["reg"], c["sees"])}
        if any(not isinstance(x, list) for x in ctl):
            out.append(({"kind": "controller-environment-not-built"}, f"host with {c['nw']} workers, CASCADE_GPU_COUNT={gpus}: {ctl}"))
        else:
            bel = {num: g for num, g in ctl}
            if sorted(bel) != sorted(have):
                out.append(({"kind": "controller-environment-worker-set"},
                            f"host with {c['nw']} workers: the controller's Environment lists the workers {sorted(bel)}, the executor has {sorted(have)}"))
            for num in sorted(have):
                if num in bel and bool(bel[num]) != have[num]:
                    out.append(({"kind": "controller-believes-gpu-wrongly"},
                                f"host with {c['nw']} workers, CASCADE_GPU_COUNT={gpus}: after the real Bridge.__init__ received the executor's registration the "
                                f"controller's Environment says gpu={bel[num]} for w{num}, but that worker " + ("has" if have[num] else "has NO") + " device of its own"))
                    break
    owner = {}
    for (num, g), sees in zip(c["reg"], c["sees"]):
        for d in sees:
            if d < gpus and d in owner and owner[d] != num:
                out.append(({"kind": "gpu-device-visible-to-two-workers"},
                            f"host with {c['nw']} workers, CASCADE_GPU_COUNT={gpus}: device {d} is visible to w{owner[d]} and to w{num} "
                            f"(CUDA_VISIBLE_DEVICES of w{num} lists {sees})"))
            owner.setdefault(d, num)
    return out


def correspond_gpu(ctx):
    import json
    from ekw.core import lean_drive
    hosts = [(1, 0), (2, 1), (4, 4), (10, 10), (13, 13), (24, 16), (101, 101), (ctx.rng.randint(41, 130), ctx.rng.randint(30, 131))]
    for _ in range(ctx.budget(4, 40)):
        nw = ctx.rng.randint(1, 40)
        hosts.append((nw, ctx.rng.randint(0, nw + 2)))
    cases, lines = [], []
    for nw, gpus in hosts:
        c = gpu_host_case(nw, gpus)
        cases.append(c)
        lines.append(json.dumps({"op": "gpu", "nW": nw, "gpus": gpus}))
        ctx.case({"gpu_host": {"nw": nw, "gpus": gpus}}, nontrivial=nw > 10)
        ctx.count("gpu:hosts")
        ctx.count("gpu:workers", nw)
        if nw > 10 and gpus > 0:
            ctx.count("gpu:hosts_with_more_than_10_workers")
    out = lean_drive("C02X", lines)
    seen = set()
    for c, line in zip(cases, out):
        mo = json.loads(line)
        ctx.traces += 1
        if mo.get("reg") != c["reg"] or mo.get("sees") != c["sees"]:
            ctx.disagree("executor-layer-gpu", {"gpu_host": {"nw": c["nw"], "gpus": c["gpus"]}}, mo, {"reg": c["reg"], "sees": c["sees"]})
        elif mo.get("reg") != c["ctl"]:
            # the model's `regGpu` is also what the controller's Environment must say (Cluster.hasGpu of Model/Ctrl.lean)
            ctx.disagree("controller-environment-gpu", {"gpu_host": {"nw": c["nw"], "gpus": c["gpus"]}}, mo.get("reg"), {"Environment": c["ctl"]})
        for sig, what in gpu_oracle(c):
            if sig["kind"] in seen:
                continue
            seen.add(sig["kind"])
            # smallest host showing it
            small = c
            for nw in range(1, c["nw"] + 1):
                cc = gpu_host_case(nw, min(c["gpus"], nw))
                if any(s2["kind"] == sig["kind"] for s2, _ in gpu_oracle(cc)):
                    small = cc
                    break
            w2 = [w for s2, w in gpu_oracle(small) if s2["kind"] == sig["kind"]][0]
            ctx.violation(dict(sig, layer="executor"), {"gpu_host": {"nw": small["nw"], "gpus": small["gpus"]}}, w2)


def replay(payload):
    import json
    if "gpu_host" in payload["case"]:
        g = payload["case"]["gpu_host"]
        c = gpu_host_case(g["nw"], g["gpus"])
        print(json.dumps(c))
        f = gpu_oracle(c)
        for sig, what in f:
            print("FINDING", sig, what)
        return 1 if f else 0
    c = payload["case"]["exec_layer"]
    trace, summ = replay_picks(c["spec"], c["nw"], c["picks"])
    print("job:", json.dumps(c["spec"]), "workers:", c["nw"])
    for p, t in zip(c["picks"], trace):
        print(json.dumps(p), "->", json.dumps(t["ops"])[:260])
    for e in summ["exec_log"]:
        print("exec:", json.dumps(e))
    for sig, what in summ["findings"]:
        print("FINDING", sig, what)
    return 1 if summ["findings"] else 0
