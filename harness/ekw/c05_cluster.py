"""C05 helper: one REAL local cluster run (zmq tcp localhost + shm + fork) with an injected fault.

Layout of one run (`run_case`):

    check process
      └─ runner  (subprocess, own session = own process group; `python -m ekw.c05_cluster <case>`)
           ├─ executor h0 (fork)  ── shm server, data server, workers (fork)
           ├─ executor h1 (fork)  ── ...
           └─ controller: Bridge + cascade.controller.impl.run   (in the runner itself)

The runner prints ONE json line with the way `run` ended and exits with os._exit (so that
multiprocessing does not join executors that hang). The check process enforces the deadline from
outside (Bridge.recv_events catches `Exception`, an in-process alarm would be swallowed), then looks
at the process table (every process of the runner's session) and at /dev/shm (segments carrying the
run's unique prefix), and finally kills the whole session and unlinks what was left.

The fault is performed by the task body itself at a chosen point (before / during / after the
publication of its outputs): raise, sys.exit(n), SIGKILL to itself, or a signal to the data server /
shm server of its own or of the other host (pids are published by the harness-side executor launcher
in a pid file; no hook in /repo is needed), or — fault `garbage-shm` — one UDP datagram the shm server cannot
decode, sent to the shm port of its own / the other host (the server's request loop raises: the process ends
through `entrypoint`'s exception path, not through a signal).
"""
from __future__ import annotations

import json
import os
import signal
import socket
import subprocess
import sys
import time

EXPECTED = {"src|0": 10, "src|1": 20, "a|o": 11, "b|o": 40, "sink|o": 51}
FAULTS = ["none", "raise", "exit", "kill9", "kill-data", "kill-shm", "term-shm", "kill-shm-midreq", "garbage-shm", "kill-shm-midshutdown"]
# datagrams `cascade.shm.api.deser` cannot decode (unknown tag byte / empty datagram / non-ascii key): hex
SHM_GARBAGE = {"unknown-tag": "ff2067617262616765", "empty": "", "non-ascii-key": "0100000002fffe"}
WHENS = ["before", "during", "after"]


def run_token(uid):
    """the part of the run's uid that every host name, shm segment and /tmp file of the run contains"""
    return uid[2:]


def host_names(case):
    """Executor host ids of the run. Default: <uid>h0, <uid>h1, ... `case["names"]`: templates with `{u}` (the run token),
    e.g. ["{u}1", "g{u}1"]: the first name is a proper suffix of the second. Every name contains the token, so sockets
    in /tmp and segments in /dev/shm stay attributable to the run (and to one host: `segment_host`)."""
    uid = case["uid"]
    if case.get("names"):
        return [t.replace("{u}", run_token(uid)) for t in case["names"]][: case["hosts"]]
    return [f"{uid}h{i}" for i in range(case["hosts"])]


def segment_host(name, hosts):
    """the host whose shm server made /dev/shm/<name>: shmid = "sCasc" + host + leading hex digits of an md5, 24 characters
    in all. Exact attribution - one host name may be a prefix of another one."""
    best = None
    for h in hosts:
        pre = "sCasc" + h
        if name.startswith(pre):
            rest = name[len(pre):]
            if all(c in "0123456789abcdef" for c in rest) and (len(name) == 24 or len(pre) >= 24):
                if best is None or len(h) > len(best):
                    best = h
    return best


# The universe of what a task body can raise: class x constructor arguments (structured; the generator draws from it).
#   builtin Exception classes, incl. the OSError family (TimeoutError, FileNotFoundError, ...: a handler placed before `except
#   Exception` for one of them swallows the failure), StopIteration (a generator body turns it into RuntimeError), MemoryError,
#   RecursionError, warnings, ExceptionGroup; user classes derived from Exception / OSError / TimeoutError / two bases;
#   `hostile`: a user Exception whose __repr__/__str__ raise (execute_sequence formats `repr(e)` inside its handler: the handler
#   itself raises and the worker process ends with exit code 1 -- the model's outcome `base`);
#   BaseException classes that are not Exception (outcome `base`: nothing is reported by the worker, the process ends, exit code 1):
#   KeyboardInterrupt, GeneratorExit, asyncio.CancelledError, a user BaseException subclass.
EXC_BUILTIN = ["RuntimeError", "ValueError", "KeyError", "ZeroDivisionError", "OSError", "AssertionError", "TimeoutError", "FileNotFoundError",
               "ConnectionResetError", "BrokenPipeError", "PermissionError", "InterruptedError", "BlockingIOError", "ChildProcessError", "MemoryError",
               "RecursionError", "NotImplementedError", "StopIteration", "StopAsyncIteration", "ArithmeticError", "OverflowError", "LookupError",
               "IndexError", "AttributeError", "TypeError", "NameError", "ImportError", "ModuleNotFoundError", "EOFError", "BufferError",
               "UnicodeError", "UserWarning", "DeprecationWarning", "ResourceWarning", "SyntaxError", "SystemError", "ReferenceError"]
EXC_USER = ["Custom", "CustomOS", "CustomTimeout", "CustomTwoBases", "CustomSlots", "CustomInitArgs", "Group"]
EXC_HOSTILE = ["HostileRepr"]
EXC_KINDS = EXC_BUILTIN + EXC_USER
BASE_KINDS = ["KeyboardInterrupt", "GeneratorExit", "CancelledError", "CustomBase"]
EXC_ARGS = ["boom", "none", "int", "tuple", "bytes", "nonascii", "surrogate", "long", "dict", "nested", "object", "errno"]


def make_exception(kind, argkind="boom"):
    """the exception object a task body raises: class `kind` constructed with arguments of kind `argkind`"""
    import builtins

    class Opaque:
        def __repr__(self):
            return "<opaque>"
    args = {"boom": ("boom",), "none": (), "int": (7,), "tuple": ((1, "x", None),), "bytes": (b"\xff\x00boom",), "nonascii": ("b\u00f6\u00f6m \u2603",),
            "surrogate": ("bad \udcff char",), "long": ("x" * 20000,), "dict": ({"k": [1, 2]}, {3}), "nested": (ValueError("inner", KeyError(1)),),
            "object": (Opaque(),), "errno": (110, "Connection timed out")}[argkind]
    if kind == "Custom":
        class MyErr(Exception):
            pass
        return MyErr(*args)
    if kind == "CustomOS":
        class MyOSErr(OSError):
            pass
        return MyOSErr(*args)
    if kind == "CustomTimeout":
        class MyTimeout(TimeoutError):
            pass
        return MyTimeout(*args)
    if kind == "CustomTwoBases":
        class MyBoth(TimeoutError, ValueError):
            pass
        return MyBoth(*args)
    if kind == "CustomSlots":
        class MySlots(Exception):
            __slots__ = ("payload",)

            def __init__(self, *a):
                super().__init__()
                self.payload = a
        return MySlots(*args)
    if kind == "CustomInitArgs":
        class MyInit(Exception):
            def __init__(self, a=None, *rest, flag=False):      # not reconstructible from .args alone
                super().__init__("fixed message")
                self.a = a
        return MyInit(*args)
    if kind == "Group":
        return ExceptionGroup("group", [ValueError(*args), TimeoutError("t")])
    if kind == "HostileRepr":
        class Hostile(Exception):
            def __repr__(self):
                raise RuntimeError("repr of the exception raises")

            def __str__(self):
                raise RuntimeError("str of the exception raises")
        return Hostile(*args)
    if kind == "CustomBase":
        class MyBase(BaseException):
            pass
        return MyBase(*args)
    if kind == "CancelledError":
        import asyncio
        return asyncio.CancelledError(*args)
    cls = getattr(builtins, kind)
    try:
        return cls(*args)
    except Exception:
        return cls("boom")          # classes with a fixed constructor signature


# ----------------------------------------------------------------------------- job (runs in workers)

def make_job(case):
    from cascade.low.core import DatasetId, JobInstance, Task2TaskEdge, TaskDefinition, TaskInstance

    fault = case["fault"]
    when = case["when"]
    ftasks = case["task"].split("+")         # "a+b": whichever of the two runs where `on_host` says
    code = int(case.get("code", 3))
    victim = case.get("victim", "own")       # own | other | name:<i> (the i-th host of the run, whoever runs the task)
    on_host = case.get("on_host")            # None | i: the fault fires only in a task that runs on the i-th host
    names = host_names(case) if "uid" in case else []
    pidfile = case["pidfile"]
    datagram = bytes.fromhex(SHM_GARBAGE[case.get("datagram", "unknown-tag")])
    exc_kind, exc_args = case.get("exc"), case.get("exc_args", "boom")     # fault `raise`: what is raised (default RuntimeError)

    def point(task, at):
        # the crash point: executed inside the worker process
        if task == "src" and at == "before":
            try:
                open(pidfile + ".started", "w").close()       # marker: the job has started (first task body entered)
            except OSError:
                pass
        if fault == "none" or task not in ftasks or at != when:
            return
        import json as _j
        import os as _o
        import signal as _s
        import sys as _y
        import time as _t

        def _mark(victim_host=""):
            try:
                with open(pidfile + ".fault", "w") as _f:     # marker: the fault was injected (and on which host)
                    _f.write(victim_host)
            except OSError:
                pass
        _me = ""
        if on_host is not None or len(ftasks) > 1:
            # where am I? (the executor that forked this worker is listed in the pid file)
            try:
                _me = ([h for h, d in _j.load(open(pidfile)).items() if d["exec"] == _o.getppid()] + [""])[0]
            except (OSError, ValueError):
                _me = ""
            if on_host is not None and _me != names[on_host]:
                return
            try:
                _fd = _o.open(pidfile + ".once", _o.O_CREAT | _o.O_EXCL | _o.O_WRONLY)     # one injection per run
                _o.close(_fd)
            except OSError:
                return
        if fault in ("raise", "exit", "kill9"):
            _mark(_me)
        if fault == "raise":
            if exc_kind:
                from ekw.c05_cluster import make_exception as _mk      # one class of the universe per run
                raise _mk(exc_kind, exc_args)
            raise RuntimeError("c05-injected-task-failure")
        if fault == "exit":
            _y.exit(code)
        if fault == "kill9":
            _o.kill(_o.getpid(), _s.SIGKILL)
            _t.sleep(60)
        pids = _j.load(open(pidfile))
        me = [h for h, d in pids.items() if d["exec"] == _o.getppid()]
        others = [h for h in pids if h not in me]
        if victim.startswith("name:"):
            host = names[int(victim[5:])]
        else:
            host = me[0] if (victim == "own" or not others) else others[0]
        _mark(host)
        if fault == "kill-data":
            _o.kill(pids[host]["data"], _s.SIGKILL)
        elif fault == "kill-shm":
            _o.kill(pids[host]["shm"], _s.SIGKILL)
        elif fault == "term-shm":
            _o.kill(pids[host]["shm"], _s.SIGTERM)
        elif fault == "kill-shm-midshutdown":
            # the shm server dies between reading the executor's ShutdownCommand and answering it: freeze it, make the run
            # fail (this task raises -> the controller shuts the executors down -> Executor.terminate sends the shutdown
            # command, which queues up in the frozen server's socket), kill it as soon as the datagram is queued
            _pid, _port = pids[host]["shm"], int(pids[host]["shm_port"])
            _o.kill(_pid, _s.SIGSTOP)
            if _o.fork() == 0:
                try:
                    _t0 = _t.time()
                    while _t.time() - _t0 < 20.0:
                        _q = 0
                        for _l in open("/proc/net/udp").read().splitlines()[1:]:
                            _f = _l.split()
                            if int(_f[1].split(":")[1], 16) == _port:
                                _q += int(_f[4].split(":")[1], 16)
                        if _q:
                            break
                        _t.sleep(0.05)
                    _t.sleep(0.2)
                    _o.kill(_pid, _s.SIGKILL)
                finally:
                    _o._exit(0)
            raise RuntimeError("c05-injected-task-failure")
        elif fault == "garbage-shm":
            import socket as _k
            _q = _k.socket(_k.AF_INET, _k.SOCK_DGRAM)
            _q.sendto(datagram, ("127.0.0.1", int(pids[host]["shm_port"])))
            _q.close()
        elif fault == "kill-shm-midreq":
            # the shm server dies between reading a request and answering it: freeze it, let this worker's
            # next request queue up in its socket, then kill it
            import threading as _th
            _pid = pids[host]["shm"]
            _o.kill(_pid, _s.SIGSTOP)
            _th.Timer(0.5, lambda: _o.kill(_pid, _s.SIGKILL)).start()
            return
        # give the signal time to take effect before the task goes on (publishing etc)
        _t.sleep(0.3)

    def src():
        point("src", "before")
        yield 10
        point("src", "during")
        yield 20
        point("src", "after")

    def a(x):
        point("a", "before")
        return x + 1

    def b(x):
        point("b", "before")
        return x * 2

    def sink(x, y):
        point("sink", "before")
        return x + y

    def td(f, ins, outs):
        return TaskDefinition(func=TaskDefinition.func_enc(f), environment=[], input_schema={k: "int" for k in ins},
                              output_schema={k: "int" for k in outs})

    def ti(d):
        return TaskInstance(definition=d, static_input_kw={}, static_input_ps={})

    tasks = {"src": ti(td(src, [], ["0", "1"])), "a": ti(td(a, ["x"], ["o"])), "b": ti(td(b, ["x"], ["o"])),
             "sink": ti(td(sink, ["x", "y"], ["o"]))}
    edges = [
        Task2TaskEdge(source=DatasetId("src", "0"), sink_task="a", sink_input_kw="x", sink_input_ps=None),
        Task2TaskEdge(source=DatasetId("src", "1"), sink_task="b", sink_input_kw="x", sink_input_ps=None),
        Task2TaskEdge(source=DatasetId("a", "o"), sink_task="sink", sink_input_kw="x", sink_input_ps=None),
        Task2TaskEdge(source=DatasetId("b", "o"), sink_task="sink", sink_input_kw="y", sink_input_ps=None),
    ]
    ext = [DatasetId(*e.split("|")) for e in case.get("ext", ["src|0", "sink|o"])]
    return JobInstance(tasks=tasks, edges=edges, ext_outputs=ext)


# ----------------------------------------------------------------------------- runner (subprocess)

def _stamp(path):
    try:
        with open(path, "w") as f:
            f.write(repr(time.time()))
    except OSError:
        pass


def _launch_executor(job, controller_address, workers, port_base, host, pidq, mark=None):
    import logging
    logging.disable(logging.CRITICAL)
    from cascade.executor.executor import Executor
    ex = Executor(job, controller_address, workers, host, port_base, None)
    if mark:
        # observation only (instance attributes of this process' objects; nothing in /repo changes): WHEN this executor read an
        # ExecutorShutdown from the controller, and WHEN it reported its own ExecutorFailure / ExecutorExit
        real_recv, real_send = ex.mlistener.recv_messages, ex.sender.send

        def recv_messages(*a, **k):
            ms = real_recv(*a, **k)
            for m in ms:
                if type(m).__name__ == "ExecutorShutdown" and not os.path.exists(mark + ".shutdown"):
                    _stamp(mark + ".shutdown")
            return ms

        def send(h, m):
            if type(m).__name__ in ("ExecutorFailure", "ExecutorExit") and not os.path.exists(mark + ".reported"):
                _stamp(mark + ".reported")
                try:
                    with open(mark + ".reported.what", "w") as f:
                        f.write(type(m).__name__ + ": " + str(getattr(m, "detail", ""))[:200])
                except OSError:
                    pass
            return real_send(h, m)
        ex.mlistener.recv_messages = recv_messages
        ex.sender.send = send
    # the shm port is the one the executor has published for its workers (cascade.shm.api.publish_client_port)
    try:
        shm_port = int(os.environ["CASCADE_SHM_PORT"])
    except (KeyError, ValueError):
        shm_port = port_base + 2
    pidq.put((host, {"exec": os.getpid(), "shm": ex.shm_process.pid, "data": ex.data_server.pid, "shm_port": shm_port,
                     "daddress": str(getattr(ex, "daddress", ""))}))
    ex.register()
    ex.recv_loop()


def _emit(d):
    sys.stdout.write(json.dumps(d) + "\n")
    sys.stdout.flush()


def runner_main(case):
    """Runs in the subprocess: start executors, run the controller, print how `run` ended."""
    import logging
    import warnings
    warnings.filterwarnings("ignore")
    logging.disable(logging.CRITICAL)
    if case.get("debug"):
        import faulthandler
        _keep = []

        def _reg():
            f = open(case["debug"] + "." + str(os.getpid()), "w")
            _keep.append(f)
            faulthandler.register(signal.SIGUSR1, file=f, all_threads=True, chain=False)
        _reg()
        os.register_at_fork(after_in_child=_reg)
    from multiprocessing import get_context
    t0 = time.time()
    out = {"ended": None, "error": None, "outputs": {}, "phase": "setup"}
    try:
        from cascade.controller.impl import run
        from cascade.executor.bridge import Bridge
        from cascade.scheduler.graph import precompute
        job = make_job(case)
        pre = precompute(job)
        port = case["port"]
        uid = case["uid"]
        c = f"tcp://localhost:{port}"
        ctx = get_context("fork")
        pidq = ctx.Queue()
        hosts = host_names(case)
        for i, h in enumerate(hosts):
            p = ctx.Process(target=_launch_executor, args=(job, c, case["workers"], port + 1 + i * 10, h, pidq, f"/tmp/{uid}.x.{h}"))
            p.start()
        pids = {}
        for _ in hosts:
            h, d = pidq.get(timeout=20)
            pids[h] = d
        # START-UP gate: every host's data server must be listening before the job starts. (Under heavy machine load a
        # forked data server can deadlock inside zmq `bind` -- fork with threads --, which is not a C05 matter: such a
        # run is reported as `infra` here, so that a hang observed AFTER this point is never excused as a start-up flake.)
        for h, d in pids.items():
            addr = d.get("daddress", "")
            if addr.startswith("tcp://"):
                hp = addr[len("tcp://"):].rsplit(":", 1)
                tend = time.time() + 15.0
                ok = False
                while time.time() < tend and not ok:
                    try:
                        socket.create_connection((hp[0], int(hp[1])), timeout=1.0).close()
                        ok = True
                    except OSError:
                        time.sleep(0.1)
                if not ok:
                    raise RuntimeError(f"start-up: data server of {h} is not listening on {addr}")
        tmp = case["pidfile"] + ".tmp"
        with open(tmp, "w") as f:
            json.dump(pids, f)
        os.rename(tmp, case["pidfile"])
        out["phase"] = "bridge"
        bridge = Bridge(c, len(hosts))
        out["phase"] = "run"
        out["t_setup"] = round(time.time() - t0, 2)
    except BaseException as e:
        out["ended"] = "infra"
        out["error"] = f"{type(e).__name__}: {e}"
        _emit(out)
        os._exit(0)
    t1 = time.time()
    try:
        state = run(job, bridge, pre)
        out["ended"] = "ok"
        out["outputs"] = {f"{k.task}|{k.output}": (v if isinstance(v, (int, type(None))) else repr(v)) for k, v in state.outputs.items()}
    except BaseException as e:
        out["ended"] = "error"
        out["error"] = f"{type(e).__name__}: {str(e)[:300]}"
    out["t_run"] = round(time.time() - t1, 2)
    out["t_end"] = time.time()
    _emit(out)
    os._exit(0)


# ----------------------------------------------------------------------------- check-process side

_port_counter = [0]


def _port_free(p):
    for kind in (socket.SOCK_STREAM, socket.SOCK_DGRAM):
        s = socket.socket(socket.AF_INET, kind)
        try:
            s.bind(("0.0.0.0", p))
        except OSError:
            return False
        finally:
            s.close()
    return True


def alloc_port_base(span=32):
    """A base port such that [base, base+span) is free right now (tcp and udp)."""
    for _ in range(200):
        _port_counter[0] += 1
        base = 21000 + ((os.getpid() * 131 + _port_counter[0] * 41) % 900) * 40
        if all(_port_free(base + i) for i in range(span)):
            return base
    raise RuntimeError("no free port range found")


_RUN_ENV = "EKW_C05_RUN"
_sid_uid = {}


def _session_pids(sid):
    """every live process of the run: the processes of the runner's session AND every process that carries the run's marker in its
    environment (inherited across fork/exec: a child that has left the session with setsid is still seen)"""
    res = []
    marker = (_RUN_ENV + "=" + _sid_uid[sid]).encode() if sid in _sid_uid else None
    for d in os.listdir("/proc"):
        if not d.isdigit():
            continue
        try:
            with open(f"/proc/{d}/stat") as f:
                s = f.read()
            rest = s[s.rindex(")") + 2:].split()
            state, _ppid, _pgrp, session = rest[0], int(rest[1]), int(rest[2]), int(rest[3])
            mine = session == sid
            if not mine and marker is not None and state not in ("Z", "X"):
                try:
                    with open(f"/proc/{d}/environ", "rb") as f:
                        mine = marker in f.read().split(b"\0")
                except OSError:
                    mine = False
            if mine and state not in ("Z", "X"):
                with open(f"/proc/{d}/cmdline") as f:
                    cmd = f.read().replace("\0", " ")[:120]
                res.append((int(d), cmd))
        except (OSError, ValueError):
            continue
    return res


def _is_tracker(cmd):
    return "resource_tracker" in cmd


def _shm_segments(uid):
    tok = run_token(uid)
    try:
        return sorted(f for f in os.listdir("/dev/shm") if tok in f)       # whatever its prefix: every name of the run carries the token
    except OSError:
        return []


_REAPER = r"""
import os, sys, time, signal
sid, parent, tmax, uid = int(sys.argv[1]), int(sys.argv[2]), float(sys.argv[3]), sys.argv[4]
t0 = time.time()
while time.time() - t0 < tmax:
    try:
        os.kill(parent, 0)
    except OSError:
        break
    time.sleep(0.5)
for _ in range(5):
    n = 0
    for d in os.listdir('/proc'):
        if not d.isdigit():
            continue
        try:
            s = open('/proc/%s/stat' % d).read()
            if int(s[s.rindex(')') + 2:].split()[3]) == sid:
                os.kill(int(d), signal.SIGKILL)
                n += 1
        except (OSError, ValueError):
            pass
    if not n:
        break
    time.sleep(0.2)
for f in os.listdir('/dev/shm'):
    if f.startswith('sCasc') and uid[2:] in f:
        try:
            os.unlink('/dev/shm/' + f)
        except OSError:
            pass
for f in os.listdir('/tmp'):
    if uid[2:] in f:
        try:
            os.unlink('/tmp/' + f)
        except OSError:
            pass
"""


def _start_reaper(sid, uid, tmax):
    """Safety net: if the check process itself is killed, an independent tiny process still kills the run's
    session and unlinks its segments."""
    try:
        return subprocess.Popen([sys.executable, "-S", "-E", "-c", _REAPER, str(sid), str(os.getpid()), str(tmax), uid],
                                stdout=subprocess.DEVNULL, stderr=subprocess.DEVNULL, stdin=subprocess.DEVNULL, start_new_session=True)
    except OSError:
        return None


def load_scale():
    try:
        return max(1.0, min(3.0, os.getloadavg()[0] / (os.cpu_count() or 1)))
    except OSError:
        return 1.0


def run_case(case, deadline_s=30.0, settle_s=6.0, module="ekw.c05_cluster"):
    """Run one (fault) run. Returns the observation dict:
    ended: ok|error|hang|infra ; outputs ; leftover_procs ; leftover_shm ; wall.
    `module`: the runner module started as `python -m <module> <case json>` (it calls its own runner_main; used by ekw.c01_real)."""
    case = dict(case)
    # wall-clock allowances are stated for a machine that is not oversubscribed; when more processes want to run than there are
    # cores (load average / cores > 1) every process of the cluster gets that much less CPU: the allowances scale with the
    # oversubscription (at most x3). The graces of the code under test are constants; the scale is recorded in the observation.
    scale = load_scale() if module == "ekw.c05_cluster" else 1.0        # (ekw.c01_real has its own patience ladder)
    deadline_s, settle_s = deadline_s * scale, settle_s * scale
    uid = "v5%x%x" % (os.getpid() % 0xFFFF, int(time.time() * 1000) % 0xFFFFFF)
    if case.get("names"):
        uid = "v5%04x%04x" % (os.getpid() % 0xFFFF, int(time.time() * 1000) % 0xFFFF)      # short names: room for the md5 digits in the shm ids
    case["uid"] = uid
    case["port"] = alloc_port_base()
    case["pidfile"] = f"/tmp/{uid}.pids"
    env = dict(os.environ)
    env[_RUN_ENV] = uid
    t0 = time.time()
    proc = subprocess.Popen([sys.executable, "-m", module, json.dumps(case)], stdout=subprocess.PIPE,
                            stderr=(open(case["debug"], "w") if case.get("debug") else subprocess.DEVNULL), stdin=subprocess.DEVNULL, env=env, start_new_session=True)
    sid = proc.pid
    _sid_uid[sid] = uid
    reaper = _start_reaper(sid, uid, 4 * deadline_s + settle_s + 60)
    obs = {"ended": "hang", "error": None, "outputs": {}, "leftover_procs": [], "leftover_shm": [], "phase": None}
    try:
        # read ONE result line with a deadline (EOF would come only when every forked child has exited)
        import select
        buf = b""
        fd = proc.stdout.fileno()
        tend = t0 + deadline_s

        def _mtime(path):
            try:
                return os.path.getmtime(path)
            except OSError:
                return None
        markers = module == "ekw.c05_cluster"      # (runs of ekw.c01_real write no markers and keep the plain deadline)
        if markers:
            tend = t0 + 2 * deadline_s
        while b"\n" not in buf:
            # "ends within a bounded time" counts from the FAILURE: once the fault has been injected (marker file written by the
            # task body) the run has deadline_s from that moment. Before that: the cluster has 2 x deadline_s to start its job
            # (start-up alone takes > 30 s on a heavily loaded machine; a run that has not entered its first task body by then is
            # reported as `infra`, never as a hang), and a started job has 2 x deadline_s to reach the crash point or to finish.
            # The whole run is capped at 4 x deadline_s.
            if markers:
                tf_, ts_ = _mtime(case["pidfile"] + ".fault"), _mtime(case["pidfile"] + ".started")
                if tf_ is not None:
                    tend = min(tf_ + deadline_s, t0 + 4 * deadline_s)
                elif ts_ is not None:
                    tend = min(ts_ + 2 * deadline_s, t0 + 4 * deadline_s)
            left = tend - time.time()
            if left <= 0:
                break
            r, _, _ = select.select([fd], [], [], min(left, 0.5))
            if r:
                chunk = os.read(fd, 65536)
                if not chunk:
                    break
                buf += chunk
        if b"\n" in buf:
            try:
                r = json.loads(buf.split(b"\n")[0].decode())
                obs.update({k: r.get(k) for k in ("ended", "error", "outputs", "phase", "t_run", "t_setup", "t_end")})
            except ValueError:
                obs["ended"] = "infra"
                obs["error"] = "unparsable runner output"
        elif time.time() >= tend:
            obs["ended"] = "hang"
            obs["alive_at_deadline"] = len(_session_pids(sid))
            if markers and not os.path.exists(case["pidfile"] + ".started"):
                obs["ended"] = "infra"
                obs["error"] = f"start-up: the job had not started {round(time.time() - t0)} s after the runner was launched ({obs['alive_at_deadline']} processes alive)"
            if case.get("debug"):
                for p_, _c in _session_pids(sid):
                    try:
                        os.kill(p_, signal.SIGUSR1)
                    except OSError:
                        pass
                time.sleep(0.5)
        else:
            obs["ended"] = "infra"
            obs["error"] = f"runner exited rc={proc.poll()} without a result"
        obs["wall_run"] = round(time.time() - t0, 2)
        obs["job_started"] = os.path.exists(case["pidfile"] + ".started")
        obs["fault_fired"] = os.path.exists(case["pidfile"] + ".fault")
        try:
            obs["victim_host"] = open(case["pidfile"] + ".fault").read().strip() if obs["fault_fired"] else ""
        except OSError:
            obs["victim_host"] = ""
        obs["uid"] = uid
        obs["hosts"] = host_names(case) if "hosts" in case else []
        if obs["ended"] in ("ok", "error"):
            # the executors get a bounded time to finish their teardown
            tend = time.time() + settle_s
            while time.time() < tend:
                left = [(p, c) for p, c in _session_pids(sid) if not _is_tracker(c)]
                if not left:
                    break
                time.sleep(0.1)
            # multiprocessing resource trackers leave once their owners are gone (under heavy machine load that alone can
            # take seconds; the wait ends as soon as they are gone)
            tend2 = time.time() + 12.0
            while time.time() < tend2 and _session_pids(sid):
                time.sleep(0.1)
            obs["leftover_procs"] = [c for _, c in _session_pids(sid)]
            if case.get("debug") and obs["leftover_procs"]:
                for p_, _c in _session_pids(sid):
                    try:
                        os.kill(p_, signal.SIGUSR1)
                    except OSError:
                        pass
                time.sleep(0.5)
            obs["n_leftover_procs"] = len(obs["leftover_procs"])
            obs["t_quiet"] = time.time()
            # what each executor saw / said, and when (seconds relative to the end of `run`)
            ev = {}
            for h in obs["hosts"]:
                e = {}
                for k in ("shutdown", "reported"):
                    try:
                        e[k] = round(float(open(f"/tmp/{uid}.x.{h}.{k}").read()) - (obs.get("t_end") or 0.0), 2)
                    except (OSError, ValueError):
                        e[k] = None
                try:
                    e["what"] = open(f"/tmp/{uid}.x.{h}.reported.what").read()
                except OSError:
                    pass
                ev[h] = e
            obs["exec_events"] = ev
            # segments are looked at only after every process of the run has been given the chance to exit
            obs["leftover_shm"] = _shm_segments(uid)
    finally:
        _cleanup(proc, sid, uid, case["pidfile"])
        if reaper is not None:
            try:
                reaper.kill()
                reaper.wait(timeout=5)
            except Exception:
                pass
    _sid_uid.pop(sid, None)
    obs["load_scale"] = round(scale, 2)
    obs["wall"] = round(time.time() - t0, 2)
    return obs


def _cleanup(proc, sid, uid, pidfile):
    for _ in range(5):
        pids = _session_pids(sid)
        try:
            os.killpg(sid, signal.SIGKILL)
        except OSError:
            pass
        for p, _c in pids:
            try:
                os.kill(p, signal.SIGKILL)
            except OSError:
                pass
        if not pids:
            break
        time.sleep(0.1)
    try:
        proc.kill()
    except OSError:
        pass
    try:
        proc.wait(timeout=5)
    except Exception:
        pass
    if proc.stdout:
        try:
            proc.stdout.close()
        except Exception:
            pass
    for f in _shm_segments(uid):
        try:
            os.unlink("/dev/shm/" + f)
        except OSError:
            pass
    try:
        for f in os.listdir("/tmp"):
            if run_token(uid) in f:
                try:
                    os.unlink("/tmp/" + f)
                except OSError:
                    pass
    except OSError:
        pass


if __name__ == "__main__":
    runner_main(json.loads(sys.argv[1]))
