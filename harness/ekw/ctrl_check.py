"""The correspond() shared by C01–C04 (they share Model/Ctrl.lean and SimBridge); each property reports its own oracle kinds."""
import json

from ekw import sim_ctrl as S
from ekw.core import lean_drive

LEAN_DRIVERS = ["Ctrl"]
RULE = ("random job DAGs (0-8 tasks quick / 0-14 thorough; chains, diamonds, fan-in/out, multi-output tasks, isolated tasks, several components; in ~70 % of the jobs upstream inputs arrive through KEYWORD edges (Task2TaskEdge.sink_input_kw: tasks fed only by keyword edges, tasks with both kinds, a dataset consumed by keyword here and by position there) and tasks carry 0-2 static keyword and 0-2 static positional inputs - for the model a keyword edge is one more input; ~30 % of the ordinary jobs have tasks with 4-6 outputs and 4-8 parameters (the same dataset may feed several); counted per run: edges_keyword, tasks_fed_only_by_keyword_edges, static_inputs_*, tasks_with_4_to_6_outputs, tasks_with_4_to_8_parameters; GPU tasks, any subset of requested outputs incl. non-sinks; family wide, two cases per run + 0.5 %: 33-45 source tasks under a shallow join tree in one or two components on 8-15 hosts x 3-4 workers, so that one assign() round hands out >= 32 commands (counted: rounds_with_32_or_more_assignments), each replayed by a driver process of its own) x clusters (1-3 hosts x 1-3 workers, GPU subsets keeping the job feasible) x adversarial seeded schedules of the abstract executors (any order + batching of events, and FIFO-per-production order; task bodies publish their outputs one at a time while controller rounds go on; in half of the runs executor steps also happen BETWEEN the bridge calls of one controller round; transfer notices that travel slowly; a third of the runs with a report address, i.e. through the real Reporter; in half of the runs the values of requested outputs reach the controller wrapped in StrictVal, a value whose ==/!=/bool raise like those of arrays do, so that any look at a delivered value other than `is` is a controller exception); the REAL controller.impl.run is driven in-process through SimBridge, which interprets everything a command carries at the Bridge API (a body publishes only the outputs named in TaskSequence.publish); at initialisation, after assign()+act(), after plan(), after flush_queues() and after notify() the abstraction of the real State (incl. published_outputs) is compared with the Lean model, the commands incl. their publish sets and their order (up to set/dict iteration order), the scan order of ds2host in build_assignment, the number of loop iterations against roundBound; the real Bridge's routing of the four calls and of shutdown is checked on a shell object; C02 also drives the real Bridge.__init__ with the registration messages of real Executor.__init__ calls (1-4 hosts x 1-13 workers x 0..n+1 GPUs, random batching, empty polls, repeated registrations) and compares the Environment with what was registered; the Lean drivers decide WF/WFC/Feasible of every replayed input; in 15 % of the cases the SAME JobInstance and the SAME Preschedule object are run again (a fifth of these a third time) with a fresh SimBridge and schedule seed and the last run is compared with the model from `init` like a first run; the Preschedule is fingerprinted before the first and after every run (oracle kind preschedule-mutated). non-trivial = run with >=1 inter-host transfer or >=1 fetch or >=1 purge; distinct by hash of (job, cluster, schedule seed)")
ASSUMPTIONS = [
    "executors are abstract (SimBridge mirrors Env of Model/Ctrl.lean plus the non-atomic layer Model/CtrlN.lean): a dispatched task starts once its inputs are in its host's store and publishes its outputs in index order, one environment step per output (in a quarter of the runs all at once), with controller rounds, deliveries, transfers and other bodies interleaved; transmit/fetch read the source store; purge is immediate",
    "executor steps happen inside recv_events and (half of the runs) between the bridge calls of a round; a step that falls between the commands of one model micro-step (the transmits and the task command of one assignment, the purges of one dataset) is replayed right after that micro-step",
    "the heuristic choice of (idle worker, computable task) pairs and of the transmit source is an oracle argument validated for admissibility by the model",
    "task values are uninterpreted terms (argument binding inside a task is C10, byte-faithful copies are C07)",
]


def last_overtook(trace):
    """did some task's last-output notice reach the controller before the notice of an earlier output of the same task?
    (recorded in the signature of a liveness failure under any-order delivery: the cause of the fixed findings
    C03/C01-last-output-overtakes; informational, no known finding matches it any more)"""
    seen = set()
    nout = {i: t["nOut"] for i, t in enumerate(trace[0]["tasks"])}
    for x in trace:
        if x.get("op") != "deliver":
            continue
        for e in x["events"]:
            if e[0] == "pubW":
                t, k = e[3], e[4]
                if k == nout[t] - 1 and any((t, kk) not in seen for kk in range(k)):
                    return True
                seen.add((t, k))
    return False


def shrink_case(case, pred, budget_s=60.0):
    """shrink a failing (spec, workers, seed, fifo): drop tasks from the end, drop ext outputs, drop workers; a failure
    that only a timer detects (a spinning controller) makes every attempt slow, so the whole shrink has a time budget"""
    import time
    t0 = time.monotonic()
    pred0 = pred

    def pred(*a):
        return time.monotonic() - t0 < budget_s and pred0(*a)
    spec, ws = case["spec"], case["workers"]
    changed = True
    while changed:
        changed = False
        # drop last task if nobody depends on it
        if spec["tasks"]:
            n = len(spec["tasks"]) - 1
            cand = {"tasks": spec["tasks"][:-1], "ext": [d for d in spec["ext"] if d[0] != n]}
            if pred(cand, ws):
                spec, changed = cand, True
                continue
        for i in range(len(spec["ext"])):
            cand = {"tasks": spec["tasks"], "ext": spec["ext"][:i] + spec["ext"][i + 1:]}
            if pred(cand, ws):
                spec, changed = cand, True
                break
        if changed:
            continue
        for i in range(len(ws)):
            if len(ws) > 1:
                cw = ws[:i] + ws[i + 1:]
                if (not any(t["gpu"] for t in spec["tasks"])) or any(w[2] for w in cw):
                    if pred(spec, cw):
                        ws, changed = cw, True
                        break
    return {"spec": spec, "workers": ws, "seed": case["seed"], "fifo": case["fifo"]}


def correspond(ctx, prop):
    n = ctx.budget(400, 4000)
    maxn = ctx.budget(8, 14)
    runs, batch_cases = [], []
    salt = {"C01": 11, "C02": 22, "C03": 33, "C04": 44}[prop]
    import glob
    from ekw.core import CORPUS_DIR
    corpus = []
    for f in sorted(glob.glob(str(CORPUS_DIR / "Ctrl_*.json"))):
        corpus.append(json.load(open(f)))
    cases = list(corpus)
    import random as _random
    rerun_rng = _random.Random(ctx.rng.randrange(1 << 30))
    from concurrent.futures import ThreadPoolExecutor
    wide_pool = ThreadPoolExecutor(max_workers=4 if prop == "C01" else 6)      # C01 runs real clusters beside this
    wide_jobs = []
    for i in range(n):
        seed = ctx.rng.randrange(1 << 30) ^ salt
        import random
        rng = random.Random(seed)
        # wide family (>= 32 assignments in one round): one any-order and one fifo case in every run, and 0.5 % of the rest
        spec = S.gen_job(rng, maxn, wide=1.0 if i in (3, 4) else 0.005)
        ws = S.gen_cluster(rng, spec, ctx.budget(3, 4), ctx.budget(3, 4))
        case = {"spec": spec, "workers": ws, "seed": seed, "fifo": i % 2 == 0, "report": rng.random() < 0.3}
        if spec["ext"] and spec.get("family") != "wide" and rng.random() < 0.08:
            # a requested output whose VALUE is None (oracle-only run: the model's values are never None)
            case["none_output"] = list(rng.choice(spec["ext"]))
        cases.append(case)
    for ci, c in enumerate(cases):
        res = S.run_case(c["spec"], c["workers"], c["seed"], c["fifo"], none_output=c.get("none_output"), report=c.get("report", False), prior_seeds=c.get("prior_seeds", ()))
        if ci >= len(corpus) and not c.get("prior_seeds") and c["spec"].get("family") != "wide" and c.get("none_output") is None and rerun_rng.random() < 0.15:
            # the same (JobInstance, Preschedule) is run again - a second and, in a fifth of these, a third time - with a fresh
            # SimBridge and schedule seed; the observed (last) run is compared with the model like any first run
            ps = [c["seed"]] + ([rerun_rng.randrange(1 << 30)] if rerun_rng.random() < 0.2 else [])
            cases.append(dict(c, seed=rerun_rng.randrange(1 << 30), prior_seeds=ps))
        if ci < len(corpus) and c.get("expect_note") and not res["stats"]["notes"].get(c["expect_note"]):
            # a witness of a situation (not a failure): look for a schedule seed under which this job/cluster shows it
            for extra in range(1, 200):
                r2 = S.run_case(c["spec"], c["workers"], c["seed"] + extra, c["fifo"])
                if r2["stats"]["notes"].get(c["expect_note"]):
                    c = dict(c, seed=c["seed"] + extra)
                    cases[ci] = c
                    res = r2
                    break
        if ci < len(corpus) and c.get("expect_note"):
            shown = bool(res["stats"]["notes"].get(c["expect_note"]))
            ctx.count(("witness_replayed:" if shown else "witness_NOT_reproduced:") + c["expect_note"])
            if not shown and prop == "C04":
                # the witness of c04_transfer_notice_full_fails no longer shows on the real code under any of 200 schedules: the
                # model (in which it is reachable) and the code have parted - a broken correspondence, not a statistic
                ctx.disagree("corpus-witness-not-reproduced", {"spec": c["spec"], "workers": c["workers"], "seed": c["seed"], "fifo": c["fifo"]},
                             "situation `" + c["expect_note"] + "` is reachable (theorem c04_transfer_notice_full_fails)",
                             "not seen on the real controller under 200 schedule seeds")
        if ci < len(corpus) and c.get("expect_fail") and not any(p == prop for (p, _, _) in S.oracle(res, c["fifo"])):
            # a corpus witness depends on the scheduler's set-iteration order (PYTHONHASHSEED follows VERIF_SEED):
            # look for a schedule seed under which this job/cluster reproduces its finding
            for extra in range(1, 60):
                r2 = S.run_case(c["spec"], c["workers"], c["seed"] + extra, c["fifo"], none_output=c.get("none_output"))
                if any(p == prop for (p, _, _) in S.oracle(r2, c["fifo"])):
                    c = dict(c, seed=c["seed"] + extra)
                    cases[ci] = c
                    res = r2
                    break
        if c["spec"].get("family") == "wide" and c.get("none_output") is not None:
            pass        # oracle-only run (the model's values are never None): nothing to replay
        elif c["spec"].get("family") == "wide":
            # the replay of a wide run takes the (interpreted) driver 5-15 s: each one is replayed by a driver process of its
            # own, in the background, while the other cases run; compared at the end
            wide_jobs.append((wide_pool.submit(lean_drive, "CtrlX" if prop == "C03" else "Ctrl", S.model_lines(res["trace"])), res, c))
        else:
            runs.append(res)
            batch_cases.append(c)
        if len(runs) >= 300:
            _replay_batch(ctx, prop, runs, batch_cases)
            runs, batch_cases = [], []   # traces are large: keeping thousands alive makes the GC pauses exceed run_case's alarm
        st = res["stats"]
        nontrivial = st["transmits"] + st["fetches"] + st["purges"] > 0
        ctx.case({"spec": c["spec"], "workers": c["workers"], "seed": c["seed"], "fifo": c["fifo"], "none_output": c.get("none_output"), "report": c.get("report", False),
                  "prior_seeds": list(c.get("prior_seeds", ()))}, nontrivial=nontrivial)
        if c.get("prior_seeds"):
            ctx.count("runs_on_a_Preschedule_already_used_by_%d_earlier_run(s)" % len(c["prior_seeds"]))
        if c.get("report"):
            ctx.count("runs_with_a_report_address(real Reporter)")
        if c.get("none_output") is not None:
            ctx.count("runs_with_a_None_valued_requested_output")
        ctx.count("runs_fifo" if c["fifo"] else "runs_anyorder")
        ctx.count("tasks_total", st["tasks"])
        tks = c["spec"]["tasks"]
        nkw = sum(t.get("nkw", 0) for t in tks)
        ctx.count("edges_keyword(sink_input_kw)", nkw)
        ctx.count("edges_positional", sum(len(t["params"]) - t.get("nkw", 0) for t in tks))
        if nkw:
            ctx.count("jobs_with_keyword_edges")
        ctx.count("tasks_fed_only_by_keyword_edges", sum(1 for t in tks if t["params"] and t.get("nkw", 0) == len(t["params"])))
        ctx.count("static_inputs_kw", sum(t.get("skw", 0) for t in tks))
        ctx.count("static_inputs_ps", sum(t.get("sps", 0) for t in tks))
        ctx.count("tasks_with_4_to_6_outputs", sum(1 for t in tks if t["nOut"] >= 4))
        ctx.count("tasks_with_4_to_8_parameters", sum(1 for t in tks if len(t["params"]) >= 4 and c["spec"].get("family") is None))
        for k in ("transmits", "fetches", "purges"):
            ctx.count(k, st[k])
        ctx.count("controller_rounds", res["rounds"])
        ctx.count("runs_atomic_bodies" if st["atomic_bodies"] else "runs_nonatomic_bodies")
        if st.get("strict_values"):
            ctx.count("runs_whose_delivered_values_refuse_comparison(StrictVal)")
        if st.get("family"):
            ctx.count("family:" + st["family"])
        ctx.count("controller_steps_while_a_body_is_between_two_outputs", st["rounds_while_running"])
        if st["max_running"] > 1:
            ctx.count("runs_with_several_bodies_running_at_once")
        ctx.count("executor_steps_between_the_commands_of_a_round", st.get("mid_steps", 0))
        for k_, v_ in st.get("notes", {}).items():
            ctx.count(k_, v_)
        ctx.count("outcome:" + res["outcome"])
        ctx.count("hosts=%d" % st["hosts"])
        if st["tasks"] == 0:
            ctx.count("empty_jobs")
        for (p, kind, detail) in S.oracle(res, c["fifo"]):
            if p != prop:
                continue
            sig = {"kind": kind, "adversary": "fifo" if c["fifo"] else "anyOrder"}
            if kind == "purge-before-transfer-notice":
                sig["transfer"] = detail[2] if isinstance(detail, (list, tuple)) and len(detail) > 2 else "?"
            if prop == "C03" and not c["fifo"] and kind in ("finished-with-tasks-unrun", "livelock-or-unbounded-rounds", "requested-output-not-fetched"):
                sig["cause"] = "last-output-notice-overtook-earlier" if last_overtook(res["trace"]) else "other"
            if prop == "C01" and not c["fifo"] and kind in ("requested-output-not-delivered", "run-did-not-return-requested-outputs"):
                sig["cause"] = "last-output-notice-overtook-earlier" if last_overtook(res["trace"]) else "other"
            if c.get("none_output") is not None and sig.get("cause") != "last-output-notice-overtook-earlier":
                # a requested output whose VALUE is None
                sig["cause"] = "none-valued-output"

            def pred(spec2, ws2, kind=kind, c=c):
                r2 = S.run_case(spec2, ws2, c["seed"], c["fifo"], none_output=c.get("none_output"), report=c.get("report", False), prior_seeds=c.get("prior_seeds", ()))
                return any(p2 == prop and k2 == kind for (p2, k2, _) in S.oracle(r2, c["fifo"]))
            small = shrink_case(c, pred, budget_s=20.0 if c["spec"].get("family") == "wide" else 60.0) if len(ctx.violations) < 3 else c
            if c.get("none_output") is not None:
                small["none_output"] = c["none_output"]
            if c.get("report"):
                small["report"] = True
            if c.get("prior_seeds"):
                small["prior_seeds"] = list(c["prior_seeds"])
            ctx.violation(sig, small, f"{kind}: {detail} (job with {len(small['spec']['tasks'])} tasks on {len(small['workers'])} workers, schedule seed {c['seed']}, {'fifo' if c['fifo'] else 'anyOrder'})")
    _replay_batch(ctx, prop, runs, batch_cases)
    try:
        for fut, r, c in wide_jobs:
            _compare_batch(ctx, prop, [r], [c], fut.result())
    finally:
        wide_pool.shutdown(wait=False, cancel_futures=True)
    bridge_shell(ctx, prop)


def _replay_batch(ctx, prop, runs, cases):
    if not runs:
        return
    # model replay
    lines = []
    for r in runs:
        lines += S.model_lines(r["trace"])
    # C03 replays on the extended model (controller + scheduler bookkeeping: host->component, weights, domains of the
    # heuristics' dictionaries, control flow of assign()); the others on the base model
    out = lean_drive("CtrlX" if prop == "C03" else "Ctrl", lines)
    _compare_batch(ctx, prop, runs, cases, out)


def _compare_batch(ctx, prop, runs, cases, out):
    k = 0
    for r, c in zip(runs, cases):
        m = len(r["trace"])
        mo = out[k:k + m]
        k += m
        ctx.traces += 1
        sn = S.soft_notes(mo)
        if sn:
            ctx.count("transmit_source_other_than_first_available_of_the_scan", sn)
        # a run with a None-valued requested output is compared like any other, except for that output's entry of State.outputs
        # (the model's values are terms, never None)
        d = S.compare(r["trace"], mo, skip_output=c.get("none_output"))
        if d:
            ctx.disagree("controller-phase", {"spec": c["spec"], "workers": c["workers"], "seed": c["seed"], "fifo": c["fifo"], "report": c.get("report", False), "prior_seeds": list(c.get("prior_seeds", ())), "none_output": c.get("none_output")}, d.get("model"), {k2: v for k2, v in d.items() if k2 != "model"})
            continue
        # sequential reference: model's `den` vs the harness' interpreter; delivered outputs vs both
        m0 = json.loads(mo[0])
        ref = S.seq_eval(c["spec"])
        for t, kk, v in m0.get("den", []):
            if ref.get((t, kk)) != v:
                ctx.disagree("seqEval", c["spec"], v, ref.get((t, kk)))
        mf = S.model_final(mo)
        if mf is not None:
            mv = sorted(set(mf["env"]["viol"]))
            iv = sorted({kind for kind, _ in r["viol"]} - S.NOT_MODEL_MONITORS)
            if mv != iv:
                ctx.disagree("monitors", {"spec": c["spec"], "workers": c["workers"], "seed": c["seed"], "fifo": c["fifo"]}, mv, iv)
            if r["outcome"] == "finished" and "present" in mf["env"]:
                # what every host's store holds when run() returns: the model's environment vs SimBridge's
                mp = sorted(mf["env"]["present"])
                ip = sorted(r["env"]["present"])
                if mp != ip:
                    ctx.disagree("stores-at-exit", {"spec": c["spec"], "workers": c["workers"], "seed": c["seed"], "fifo": c["fifo"]},
                                 [x for x in mp if x not in ip][:5], [x for x in ip if x not in mp][:5])
            if r["outcome"] == "finished":
                mo_out = {(t, kk): v for t, kk, v in mf["ctl"]["outputs"]}
                for d_, v in r["outputs"].items():
                    if c.get("none_output") is not None and list(d_) == list(c["none_output"]):
                        continue
                    if mo_out.get(d_) != v:
                        ctx.disagree("outputs", c["spec"], mo_out.get(d_), v)


def bridge_shell(ctx, prop):
    """the real Bridge's last step from the four calls to the wire (routing, addresses, indices): ctrl_bridge.py"""
    from ekw import ctrl_bridge
    import random
    mine = {"C02": ("task",), "C03": ("shutdown",), "C04": ("transmit", "fetch", "purge", "idx")}[prop] if prop in ("C02", "C03", "C04") else ()
    if not mine:
        return
    if prop == "C02":
        # what the controller believes about the workers (Environment built by the real Bridge.__init__ from the real
        # executors' registration messages): C02 clause "a worker that exists ... and satisfies the task's GPU requirement"
        seen = set()
        lines, impls, seeds = [], [], []
        for _ in range(ctx.budget(25, 250)):
            seed = ctx.rng.randrange(1 << 30)
            fails, counts = ctrl_bridge.check_bridge_init(random.Random(seed))
            line, impl_ = counts.pop("_model_line", None), counts.pop("_impl", None)
            if line is not None and impl_ is not None:
                lines.append(json.dumps(line)); impls.append(impl_); seeds.append(seed)
            for k, v in counts.items():
                ctx.count(k, v)
            ctx.case({"bridge_init_seed": seed}, nontrivial=True)
            for kind, detail in fails:
                if kind not in seen:
                    seen.add(kind)
                    ctx.violation({"kind": kind}, {"bridge_init_seed": seed}, f"real Bridge.__init__ fed with the real executors' registrations: {kind}: {detail}")
        # the same registration traffic through Model/BridgeInit.lean (theorem c02_env_matches_registration): Environment in
        # insertion order and the registered hosts in order
        if lines:
            out = lean_drive("C02X", lines)
            for mo, impl_, seed in zip(out, impls, seeds):
                ctx.traces += 1
                m = json.loads(mo)
                if m.get("env") != impl_["env"] or m.get("hosts") != impl_["hosts"]:
                    ctx.disagree("bridge-init", {"bridge_init_seed": seed}, m, impl_)
    # every failure kind of the shell is owned by exactly one property: by the call it concerns (task -> C02, shutdown -> C03,
    # transmit/fetch/purge/index -> C04); a kind that names no call is reported by all three; each distinct kind once
    owner = {"task": "C02", "shutdown": "C03", "transmit": "C04", "fetch": "C04", "purge": "C04", "idx": "C04"}
    seen = set()
    for _ in range(ctx.budget(40, 400)):
        seed = ctx.rng.randrange(1 << 30)
        fails, counts = ctrl_bridge.check_bridge(random.Random(seed))
        for k, v in counts.items():
            ctx.count(k, v)
        for kind, detail in fails:
            call = detail[0] if isinstance(detail, (list, tuple)) and detail and isinstance(detail[0], str) else ""
            own = owner.get(call) or next((p for m, p in owner.items() if m in kind), None)
            if (own is None or own == prop) and kind not in seen:
                seen.add(kind)
                ctx.violation({"kind": kind}, {"bridge_shell_seed": seed}, f"real Bridge: {kind}: {detail}")


def tie_diff(prop, c):
    """run the case on the real controller, replay its trace on the Lean model, return the first disagreement (or None)"""
    res = S.run_case(c["spec"], c["workers"], c["seed"], c["fifo"], none_output=c.get("none_output"), report=c.get("report", False), prior_seeds=c.get("prior_seeds", ()))
    out = lean_drive("CtrlX" if prop == "C03" else "Ctrl", S.model_lines(res["trace"]))
    d = S.compare(res["trace"], out, skip_output=c.get("none_output"))
    if d is None:
        mf = S.model_final(out)
        if mf is not None:
            mv = sorted(set(mf["env"]["viol"]))
            iv = sorted({kind for kind, _ in res["viol"]} - S.NOT_MODEL_MONITORS)
            if mv != iv:
                d = {"at": "end", "op": "monitors", "model": mv, "impl": iv}
    return d, res


def search(ctx, why, prop):
    """the correspondence with the model is broken: name ONE input on which the real controller departs from the model the
    theorems are about (a failing input of the tie: `./check replay` re-runs it on the real code and on the model)"""
    for dis in ctx.disagreements:
        c = dis.get("case")
        if dis.get("where") not in ("controller-phase", "monitors", "stores-at-exit") or not isinstance(c, dict) or "spec" not in c:
            continue
        try:
            d, _ = tie_diff(prop, c)
        except Exception as e:
            d = {"op": "replay", "field": "harness", "model": None, "impl": repr(e)[:200]}
        if d:
            fld = str(d.get("field") or d.get("op"))[:60]
            ctx.violation({"kind": "real-controller-departs-from-the-model", "field": fld}, dict(c, tie=True),
                          f"the real controller departs from the Lean model (the theorems of {prop} are about the model): at trace entry {d.get('at')} "
                          f"field {fld}: model {json.dumps(d.get('model'))[:300]} / implementation {json.dumps(d.get('impl'), default=str)[:300]} "
                          f"(job with {len(c['spec']['tasks'])} tasks on {len(c['workers'])} workers, schedule seed {c['seed']}, {'fifo' if c['fifo'] else 'anyOrder'})")
            return


def replay(payload, prop):
    c = payload["case"]
    if c.get("tie"):
        d, res = tie_diff(prop, c)
        print("job:", json.dumps(c["spec"]))
        print("workers:", c["workers"], "seed:", c["seed"], "fifo:", c["fifo"])
        print("outcome on the real controller:", res["outcome"], res.get("exception", ""))
        print("first disagreement with the Lean model:", json.dumps(d, default=str)[:1500] if d else None)
        return 1 if d else 0
    if "bridge_shell_seed" in c:
        from ekw import ctrl_bridge
        import random
        fails, _ = ctrl_bridge.check_bridge(random.Random(c["bridge_shell_seed"]))
        print("real Bridge shell:", fails)
        return 1 if fails else 0
    if "bridge_init_seed" in c:
        from ekw import ctrl_bridge
        import random
        fails, _ = ctrl_bridge.check_bridge_init(random.Random(c["bridge_init_seed"]))
        print("real Bridge.__init__ fed with real ExecutorRegistration messages:", fails)
        return 1 if fails else 0
    res = S.run_case(c["spec"], c["workers"], c["seed"], c["fifo"], none_output=c.get("none_output"), report=c.get("report", False), prior_seeds=c.get("prior_seeds", ()))
    fails = [x for x in S.oracle(res, c["fifo"]) if x[0] == prop]
    print("job:", json.dumps(c["spec"]))
    print("workers:", c["workers"], "seed:", c["seed"], "fifo:", c["fifo"])
    if c.get("prior_seeds"):
        print("the same JobInstance and Preschedule were first run to the end under the schedule seeds", c["prior_seeds"], "->", res.get("prior_outcomes"))
    for x in res["trace"][1:]:
        print(json.dumps({k: v for k, v in x.items() if k != "impl"})[:200])
    print("outcome:", res["outcome"], "oracle:", fails)
    return 1 if fails else 0
