"""C17, the shm protocol END TO END over real UDP sockets on localhost.

`cascade.shm.client._send_command` (the real client: socket, connect, send, recv(N), api.deser) talks to the real
`cascade.shm.server.LocalServer.receive` / `.respond` (recvfrom(N) + api.deser / api.ser + sendto) running in a thread of
this process; the server object is made with object.__new__ and given a socket bound to an ephemeral port (no Manager, no
signal handlers). One exchange = one request datagram client -> server and one response datagram server -> client.

Oracle (property text): what the receiving side decodes is the message that was sent -- or the SENDER raised (a datagram
above the size UDP carries is refused by sendto with EMSGSIZE: "rejected when encoding, never silently truncated"). The
receive buffers (the N of recv / recvfrom) are read by the translator into Gen/ShmApi.lean and Props/C17.lean proves that
no datagram the kernel accepts is cut short by them; here the same is observed on the real sockets.
"""
from __future__ import annotations

import socket
import threading

MAX_DATAGRAM = 65507        # IPv4 UDP: 65535 - 8 (UDP header) - 20 (IP header); observed below (`probe_max_datagram`)


class _ApiProxy:
    """stands in for the module object `cascade.shm.api` inside client / server: records what ser produced and deser returned"""

    def __init__(self, api):
        self._api = api
        self.sent = []
        self.decoded = []

    def __getattr__(self, name):
        return getattr(self._api, name)

    def ser(self, comm):
        b = self._api.ser(comm)
        self.sent.append(b)
        return b

    def deser(self, data):
        m = self._api.deser(data)
        self.decoded.append(m)
        return m


# the client's own entry points (cascade/shm/client.py): request class -> (function, its parameters = fields of the request)
WRAPPERS = {"AllocateRequest": ("allocate", ("key", "l", "deser_fun")), "GetRequest": ("get", ("key",)),
            "PurgeRequest": ("purge", ("key",)), "DatasetStatusRequest": ("status", ("key",)),
            "CloseCallback": ("close_callback", ("key", "rdid"))}


class _Buf:
    """stands in for client.AllocatedBuffer (no real shared memory is touched): records what the wrapper hands over"""

    def __init__(self, **kw):
        self.kw = kw


class Wire:
    def __init__(self):
        import cascade.shm.api as api
        import cascade.shm.client as client
        import cascade.shm.server as server
        self.api, self.client, self.server = api, client, server
        self.srv = object.__new__(server.LocalServer)
        self.srv.sock = socket.socket(socket.AF_INET, socket.SOCK_DGRAM)
        self.srv.sock.bind(("127.0.0.1", 0))
        self.srv.sock.settimeout(2.0)
        self.port = self.srv.sock.getsockname()[1]

    def close(self):
        try:
            self.srv.sock.close()
        except Exception:
            pass

    def _call_wrapper(self, req, rsp, out):
        """The request goes out through the client's own entry point (allocate / get / purge / status / close_callback) called with
        the VALUES of the request's fields: the wrapper builds the request object itself. What the wrapper returns (the arguments
        it hands to AllocatedBuffer, the status) is checked against the values of the response / of the call."""
        import dataclasses
        client, api = self.client, self.api
        name, params = WRAPPERS[type(req).__name__]
        if tuple(f.name for f in dataclasses.fields(req)) != params:
            out["wrapper"] = {"name": name, "skipped": "fields of the request class changed"}
            client._send_command(req, type(rsp), timeout_sec=0.05)
            return
        args = {p: getattr(req, p) for p in params}
        real_send, real_buf = client._send_command, client.AllocatedBuffer

        def bounded(comm, resp_class, timeout_sec=60.0):
            return real_send(comm, resp_class, min(timeout_sec, 0.05))
        out["wrapper"] = {"name": name, "problems": []}
        try:
            client._send_command = bounded
            client.AllocatedBuffer = _Buf
            if name in ("allocate", "get"):
                ret = getattr(client, name)(timeout_sec=0.05, **args)
            else:
                ret = getattr(client, name)(**args)
        finally:
            client._send_command, client.AllocatedBuffer = real_send, real_buf
        probs = out["wrapper"]["problems"]

        def same(what, got, want):
            if type(got) is not type(want) or got != want:
                probs.append((what, f"{got!r:.60}", f"{want!r:.60}"))
        if name in ("allocate", "get"):
            if not isinstance(ret, _Buf):
                probs.append(("return", type(ret).__name__, "AllocatedBuffer"))
                return
            kw = ret.kw
            same("shmid", kw.get("shmid"), rsp.shmid)
            same("l", kw.get("l"), args["l"] if name == "allocate" else rsp.l)
            same("deser_fun", kw.get("deser_fun"), args["deser_fun"] if name == "allocate" else rsp.deser_fun)
            same("create", kw.get("create"), name == "allocate")
            # the close callback must name this key (and, for a reader, the reader id of the response)
            sent = []
            try:
                client._send_command = lambda comm, resp_class, timeout_sec=60.0: sent.append(comm)
                cb = kw.get("close_callback")
                if cb is not None:
                    cb()
            finally:
                client._send_command = real_send
            want_cb = api.CloseCallback(key=args["key"], rdid="" if name == "allocate" else rsp.rdid)
            if len(sent) != 1 or type(sent[0]) is not api.CloseCallback or sent[0] != want_cb:
                probs.append(("close_callback", f"{sent!r:.80}", f"{want_cb!r:.80}"))
        elif name == "status":
            same("status", ret, rsp.status)

    def exchange(self, req, rsp, wrappers=True):
        """-> dict(c2s=..., s2c=...) each: {"sent_len": n, "got": message | None, "error": str | None, "sender_raised": str | None}
        (+ "wrapper": what the client's entry point did with the response, when the request class has one)"""
        api, client, server = self.api, self.client, self.server
        cproxy, sproxy = _ApiProxy(api), _ApiProxy(api)
        out = {"c2s": {"sent_len": None, "got": None, "error": None, "sender_raised": None},
               "s2c": {"sent_len": None, "got": None, "error": None, "sender_raised": None}}

        def serve():
            try:
                payload, addr = self.srv.receive()
                out["c2s"]["got"] = payload
            except Exception as e:
                out["c2s"]["error"] = f"{type(e).__name__}: {e}"
                return
            try:
                self.srv.respond(rsp, addr)
            except Exception as e:
                out["s2c"]["sender_raised"] = f"{type(e).__name__}: {e}"
                try:        # unblock the client
                    self.srv.sock.sendto(api.ser(api.OkResponse(error="c17-wire: server could not send")), addr)
                except Exception:
                    pass
        old_port = None
        import os
        old_port = os.environ.get(api.client_port_envvar)
        old_timeout = socket.getdefaulttimeout()
        old_capi, old_sapi = client.api, server.api
        t = threading.Thread(target=serve, daemon=True)
        try:
            api.publish_client_port(self.port)
            socket.setdefaulttimeout(2.0)
            client.api, server.api = cproxy, sproxy
            t.start()
            try:
                if wrappers and type(req).__name__ in WRAPPERS:
                    self._call_wrapper(req, rsp, out)
                else:
                    client._send_command(req, type(rsp), timeout_sec=0.05)
            except Exception as e:
                # ValueError(error text) / ConflictError / TimeoutError (after a "wait") are how the client reports a response
                # that carries an error: the response itself was decoded (cproxy.decoded). Otherwise: an OSError other than a
                # timeout before anything came back is the client's sendto refusing the datagram; the rest are decode failures.
                if cproxy.decoded:
                    pass
                elif isinstance(e, OSError) and not isinstance(e, TimeoutError):
                    out["c2s"]["sender_raised"] = f"{type(e).__name__}: {e}"
                    try:    # unblock the server thread
                        s = socket.socket(socket.AF_INET, socket.SOCK_DGRAM)
                        s.sendto(api.ser(api.StatusInquiry()), ("127.0.0.1", self.port))
                        s.close()
                    except Exception:
                        pass
                else:
                    out["s2c"]["error"] = f"{type(e).__name__}: {e}"[:200]
            t.join(3.0)
        finally:
            client.api, server.api = old_capi, old_sapi
            socket.setdefaulttimeout(old_timeout)
            if old_port is None:
                os.environ.pop(api.client_port_envvar, None)
            else:
                os.environ[api.client_port_envvar] = old_port
        if cproxy.sent:
            out["c2s"]["sent_len"] = len(cproxy.sent[0])
        if sproxy.sent:
            out["s2c"]["sent_len"] = len(sproxy.sent[0])
        if out["c2s"]["sender_raised"] is not None:
            out["c2s"]["got"] = None        # the server thread was unblocked with a filler message
            out["s2c"] = {"sent_len": None, "got": None, "error": "not-run", "sender_raised": None}
        elif out["s2c"]["sender_raised"] is not None:
            out["s2c"]["got"] = None        # the client was unblocked with a filler message
        elif cproxy.decoded:
            out["s2c"]["got"] = cproxy.decoded[0]
        return out


def probe_max_datagram():
    """largest payload sendto accepts on a localhost UDP socket (bisect); the model's `maxDatagram` must be this number"""
    r = socket.socket(socket.AF_INET, socket.SOCK_DGRAM)
    r.bind(("127.0.0.1", 0))
    s = socket.socket(socket.AF_INET, socket.SOCK_DGRAM)
    try:
        lo, hi = 1, 70000       # lo accepted, hi refused
        while hi - lo > 1:
            mid = (lo + hi) // 2
            try:
                s.sendto(b"\0" * mid, r.getsockname())
                r.recvfrom(70000)
                lo = mid
            except OSError:
                hi = mid
        return lo
    finally:
        r.close()
        s.close()
