"""Translator `shm_api` (DESIGN 2.3): src/cascade/shm/api.py  ->  lean/EkwVerif/Gen/ShmApi.lean

Reads the module with `ast` only (never imports it) and recognises exactly the shapes the
hand-written serde of api.py uses:

  ser_str / deser_str      length prefix width + byte order + "ascii"
  class X(int, Enum)       members (auto() or int literals)
  message classes          every class with `ser` and `deser` (own or inherited from a class of
                           the module): dataclass fields, the `+` chain returned by `ser`, the
                           read sequence of `deser` and the keyword each value is passed to
  b2c / c2b / ser / deser  the tag table literal; the three other definitions must have the
                           known shape (c2b = inverted b2c, one tag byte in front)

Anything else raises `Unrecognised` -- core turns that into a broken tie, never a pass.
"""
from __future__ import annotations

import ast


class Unrecognised(Exception):
    pass


def _fail(node, why):
    line = getattr(node, "lineno", "?")
    raise Unrecognised(f"api.py:{line}: {why}: {ast.unparse(node) if isinstance(node, ast.AST) else node}")


def _const_int(node):
    if isinstance(node, ast.Constant) and type(node.value) is int:
        return node.value
    _fail(node, "expected an integer literal")


def _endian(node):
    if isinstance(node, ast.Constant) and node.value in ("big", "little"):
        return node.value
    _fail(node, "expected byte order 'big' or 'little'")


def _is_name(node, name=None):
    return isinstance(node, ast.Name) and (name is None or node.id == name)


def _call_name(node):
    """f(...) -> 'f' ; a.b(...) -> None"""
    if isinstance(node, ast.Call) and isinstance(node.func, ast.Name):
        return node.func.id
    return None


def _no_kw(call):
    if call.keywords:
        _fail(call, "keyword arguments not recognised here")


def _to_bytes(node):
    """X.to_bytes(W, E) -> (X, W, E) or None"""
    if (isinstance(node, ast.Call) and isinstance(node.func, ast.Attribute) and node.func.attr == "to_bytes"):
        _no_kw(node)
        if len(node.args) != 2:
            _fail(node, "to_bytes needs (width, byteorder)")
        return node.func.value, _const_int(node.args[0]), _endian(node.args[1])
    return None


def _from_bytes(node, buf):
    """int.from_bytes(buf[:W], E) -> (W, E) or None"""
    if (isinstance(node, ast.Call) and isinstance(node.func, ast.Attribute) and node.func.attr == "from_bytes"
            and _is_name(node.func.value, "int")):
        _no_kw(node)
        if len(node.args) != 2:
            _fail(node, "from_bytes needs (bytes, byteorder)")
        sl = node.args[0]
        if not (isinstance(sl, ast.Subscript) and _is_name(sl.value, buf) and isinstance(sl.slice, ast.Slice)
                and sl.slice.lower is None and sl.slice.step is None and sl.slice.upper is not None):
            _fail(node, f"expected int.from_bytes({buf}[:W], ...)")
        return _const_int(sl.slice.upper), _endian(node.args[1])
    return None


def _advance(node, buf):
    """buf[W:] -> W"""
    if (isinstance(node, ast.Subscript) and _is_name(node.value, buf) and isinstance(node.slice, ast.Slice)
            and node.slice.upper is None and node.slice.step is None and node.slice.lower is not None):
        return _const_int(node.slice.lower)
    _fail(node, f"expected {buf}[W:]")


def _flatten_add(node):
    if isinstance(node, ast.BinOp) and isinstance(node.op, ast.Add):
        return _flatten_add(node.left) + _flatten_add(node.right)
    if isinstance(node, ast.BinOp):
        _fail(node, "only `+` chains recognised in ser")
    return [node]


def _single_return(fn):
    body = [s for s in fn.body if not (isinstance(s, ast.Expr) and isinstance(s.value, ast.Constant) and isinstance(s.value.value, str))]
    if len(body) != 1 or not isinstance(body[0], ast.Return) or body[0].value is None:
        _fail(fn, "expected a body consisting of one return statement")
    return body[0].value


# --------------------------------------------------------------------------- helpers ser_str / deser_str

def parse_ser_str(fn):
    if len(fn.args.args) != 1:
        _fail(fn, "ser_str takes one argument")
    s = fn.args.args[0].arg
    terms = _flatten_add(_single_return(fn))
    if len(terms) != 2:
        _fail(fn, "ser_str: expected len(s).to_bytes(W, E) + s.encode('ascii')")
    tb = _to_bytes(terms[0])
    if tb is None or not (_call_name(tb[0]) == "len" and len(tb[0].args) == 1 and _is_name(tb[0].args[0], s)):
        _fail(terms[0], "ser_str: expected len(s).to_bytes(W, E)")
    enc = terms[1]
    if not (isinstance(enc, ast.Call) and isinstance(enc.func, ast.Attribute) and enc.func.attr == "encode"
            and _is_name(enc.func.value, s) and len(enc.args) == 1 and not enc.keywords
            and isinstance(enc.args[0], ast.Constant) and enc.args[0].value == "ascii"):
        _fail(enc, "ser_str: expected s.encode('ascii')")
    return {"lw": tb[1], "e": tb[2]}


def parse_deser_str(fn):
    if len(fn.args.args) != 1:
        _fail(fn, "deser_str takes one argument")
    b = fn.args.args[0].arg
    if len(fn.body) != 2 or not isinstance(fn.body[0], ast.Assign) or not isinstance(fn.body[1], ast.Return):
        _fail(fn, "deser_str: expected `l = int.from_bytes(b[:W], E); return str(b[W:W+l], 'ascii'), b[W+l:]`")
    asg = fn.body[0]
    if len(asg.targets) != 1 or not isinstance(asg.targets[0], ast.Name):
        _fail(asg, "deser_str: expected a simple assignment")
    lname = asg.targets[0].id
    fb = _from_bytes(asg.value, b)
    if fb is None:
        _fail(asg, "deser_str: expected int.from_bytes(b[:W], E)")
    w, e = fb
    ret = fb and fn.body[1].value
    want = ast.dump(ast.parse(f"(str({b}[{w}:{w}+{lname}], 'ascii'), {b}[{w}+{lname}:])", mode="eval").body)
    if ast.dump(ret) != want:
        _fail(ret, f"deser_str: expected str({b}[{w}:{w}+{lname}], 'ascii'), {b}[{w}+{lname}:]")
    return {"lw": w, "e": e}


# --------------------------------------------------------------------------- classes

def parse_enum(cls):
    members = []
    last = 0
    for st in cls.body:
        if isinstance(st, ast.Expr) and isinstance(st.value, ast.Constant):
            continue
        if isinstance(st, ast.Pass):
            continue
        if not (isinstance(st, ast.Assign) and len(st.targets) == 1 and isinstance(st.targets[0], ast.Name)):
            _fail(st, "enum body: expected NAME = auto() | int literal")
        v = st.value
        if _call_name(v) == "auto" and not v.args and not v.keywords:
            last = last + 1
        else:
            last = _const_int(v)
        members.append((st.targets[0].id, last))
    if not members:
        _fail(cls, "enum without members")
    if any(v < 0 for _, v in members):
        _fail(cls, "negative enum value")
    return members


def parse_ser(fn, enums, strp):
    if [a.arg for a in fn.args.args] != ["self"] or fn.decorator_list:
        _fail(fn, "undecorated ser(self) expected")
    expr = _single_return(fn)
    if isinstance(expr, ast.Constant) and expr.value == b"":
        return []
    out = []
    for t in _flatten_add(expr):
        tb = _to_bytes(t)
        if tb is not None:
            obj, w, e = tb
            if isinstance(obj, ast.Attribute) and _is_name(obj.value, "self"):
                out.append({"name": obj.attr, "kind": ("int", w, e)})
                continue
            if (isinstance(obj, ast.Attribute) and obj.attr == "value" and isinstance(obj.value, ast.Attribute)
                    and _is_name(obj.value.value, "self")):
                out.append({"name": obj.value.attr, "kind": ("enum?", w, e)})   # enum class resolved from the annotation
                continue
            _fail(t, "ser: expected self.<field>.to_bytes or self.<field>.value.to_bytes")
        if _call_name(t) == "ser_str":
            _no_kw(t)
            if len(t.args) == 1 and isinstance(t.args[0], ast.Attribute) and _is_name(t.args[0].value, "self"):
                out.append({"name": t.args[0].attr, "kind": ("str", strp["ser"]["lw"], strp["ser"]["e"])})
                continue
        _fail(t, "ser: term not recognised")
    return out


def parse_deser(fn, enums, strp):
    if [a.arg for a in fn.args.args] != ["cls", "data"] or not (len(fn.decorator_list) == 1 and _is_name(fn.decorator_list[0], "classmethod")):
        _fail(fn, "@classmethod deser(cls, data) expected")
    buf = "data"
    reads = []      # (local name, kind)
    done = False    # rest of the buffer was discarded
    body = list(fn.body)
    if not body or not isinstance(body[-1], ast.Return):
        _fail(fn, "deser: last statement must be a return")
    for st in body[:-1]:
        if done:
            _fail(st, "deser: read after the rest of the buffer was discarded")
        if not (isinstance(st, ast.Assign) and len(st.targets) == 1):
            _fail(st, "deser: statement not recognised")
        tgt, val = st.targets[0], st.value
        if isinstance(tgt, ast.Name):
            # NAME = int.from_bytes(data[:W], E)      (no advance: must be last)
            fb = _from_bytes(val, buf)
            if fb is None:
                _fail(st, "deser: expected NAME = int.from_bytes(data[:W], E)")
            reads.append((tgt.id, ("int", fb[0], fb[1])))
            done = True
            continue
        if not (isinstance(tgt, ast.Tuple) and len(tgt.elts) == 2 and all(isinstance(x, ast.Name) for x in tgt.elts)):
            _fail(st, "deser: expected NAME, REST = ...")
        name, rest = tgt.elts[0].id, tgt.elts[1].id
        if rest == "_":
            done = True
        elif rest != buf:
            _fail(st, f"deser: rest of the buffer must be rebound to `{buf}` or `_`")
        if _call_name(val) == "deser_str":
            _no_kw(val)
            if not (len(val.args) == 1 and _is_name(val.args[0], buf)):
                _fail(st, f"deser: expected deser_str({buf})")
            reads.append((name, ("str", strp["deser"]["lw"], strp["deser"]["e"])))
            continue
        if isinstance(val, ast.Tuple) and len(val.elts) == 2:
            first, adv = val.elts
            w_adv = _advance(adv, buf)
            fb = _from_bytes(first, buf)
            if fb is not None:
                kind = ("int", fb[0], fb[1])
            elif (_call_name(first) in enums and len(first.args) == 1 and not first.keywords
                  and (fb := _from_bytes(first.args[0], buf)) is not None):
                kind = ("enum", fb[0], fb[1], first.func.id)
            else:
                _fail(st, "deser: expected int.from_bytes(data[:W], E) or Enum(int.from_bytes(data[:W], E))")
            if w_adv != fb[0]:
                _fail(st, f"deser: reads {fb[0]} bytes but advances by {w_adv}")
            reads.append((name, kind))
            continue
        _fail(st, "deser: statement not recognised")
    ret = body[-1].value
    if not (isinstance(ret, ast.Call) and _is_name(ret.func, "cls") and not ret.args):
        _fail(ret, "deser: expected return cls(kw=value, ...)")
    local2kw = {}
    for kw in ret.keywords:
        if kw.arg is None or not isinstance(kw.value, ast.Name):
            _fail(ret, "deser: constructor arguments must be kw=local")
        if kw.value.id in local2kw:
            _fail(ret, f"deser: local {kw.value.id} passed twice")
        local2kw[kw.value.id] = kw.arg
    locs = [n for n, _ in reads]
    if len(set(locs)) != len(locs):
        _fail(fn, "deser: a local is assigned twice")
    if set(locs) != set(local2kw):
        _fail(ret, f"deser: values read {sorted(locs)} differ from values passed to the constructor {sorted(local2kw)}")
    return [{"name": local2kw[n], "kind": k} for n, k in reads]


def parse_fields(cls):
    """dataclass fields (AnnAssign) of the class body: [(name, annotation-as-source)]"""
    out = []
    for st in cls.body:
        if isinstance(st, ast.AnnAssign):
            if not isinstance(st.target, ast.Name):
                _fail(st, "field declaration not recognised")
            out.append((st.target.id, ast.unparse(st.annotation)))
        elif isinstance(st, ast.Assign):
            _fail(st, "un-annotated class attribute in a message class")
    return out


def parse_api(src: str) -> dict:
    tree = ast.parse(src)
    # only declarations at module level: anything that could patch a class or a table afterwards is refused
    for n in tree.body:
        ok = (isinstance(n, (ast.Import, ast.ImportFrom, ast.FunctionDef, ast.ClassDef))
              or (isinstance(n, ast.AnnAssign) and isinstance(n.target, ast.Name))
              or (isinstance(n, ast.Assign) and all(isinstance(t, ast.Name) for t in n.targets))
              or (isinstance(n, ast.Expr) and isinstance(n.value, ast.Constant) and isinstance(n.value.value, str)))
        if not ok:
            _fail(n, "module-level statement not recognised")
    names = [n.name for n in tree.body if isinstance(n, (ast.FunctionDef, ast.ClassDef))]
    names += [t.id for n in tree.body if isinstance(n, ast.Assign) for t in n.targets]
    names += [n.target.id for n in tree.body if isinstance(n, ast.AnnAssign)]
    dup = sorted({x for x in names if names.count(x) > 1})
    if dup:
        raise Unrecognised(f"api.py: module-level names bound twice: {dup}")
    funcs = {n.name: n for n in tree.body if isinstance(n, ast.FunctionDef)}
    for need in ("ser_str", "deser_str", "ser", "deser"):
        if need in funcs and funcs[need].decorator_list:
            _fail(funcs[need], "decorated serde function")
    classes = [n for n in tree.body if isinstance(n, ast.ClassDef)]
    for need in ("ser_str", "deser_str", "ser", "deser"):
        if need not in funcs:
            raise Unrecognised(f"api.py: function {need} not found")
    strp = {"ser": parse_ser_str(funcs["ser_str"]), "deser": parse_deser_str(funcs["deser_str"])}

    enums = {}
    msg_nodes = []
    by_name = {c.name: c for c in classes}
    if len(by_name) != len(classes):
        raise Unrecognised("api.py: a class is defined twice")
    for c in classes:
        bases = [ast.unparse(b) for b in c.bases]
        if "Protocol" in bases:
            continue
        if "Enum" in bases:
            if bases != ["int", "Enum"]:
                _fail(c, "enum class: expected bases (int, Enum)")
            enums[c.name] = parse_enum(c)
            continue
        msg_nodes.append(c)

    def methods(c):
        return {n.name: n for n in c.body if isinstance(n, ast.FunctionDef)}

    def resolve(c, meth, depth=0):
        if depth > 8:
            _fail(c, "inheritance too deep")
        m = methods(c)
        if meth in m:
            return m[meth]
        for b in c.bases:
            if isinstance(b, ast.Name) and b.id in by_name:
                r = resolve(by_name[b.id], meth, depth + 1)
                if r is not None:
                    return r
        return None

    base_names = set()
    for c in msg_nodes:
        for b in c.bases:
            if isinstance(b, ast.Name) and b.id in by_name:
                base_names.add(b.id)
            else:
                _fail(c, "base class outside the module")

    msgs = []
    for c in msg_nodes:
        extra = set(methods(c)) - {"ser", "deser"}
        if extra:
            _fail(c, f"message class with further methods {sorted(extra)}")
        s_fn, d_fn = resolve(c, "ser"), resolve(c, "deser")
        if s_fn is None or d_fn is None:
            _fail(c, "class without ser/deser")
        fields = parse_fields(c)
        if c.bases and (fields or any(parse_fields(by_name[b.id]) for b in c.bases)):
            _fail(c, "dataclass inheritance with fields not recognised")
        is_dc = any(ast.unparse(d).startswith("dataclass") for d in c.decorator_list)
        if fields and not is_dc:
            _fail(c, "fields declared on a class that is no dataclass")
        for d in c.decorator_list:
            if ast.unparse(d) not in ("dataclass(frozen=True)", "dataclass", "dataclass()"):
                _fail(d, "decorator not recognised")
        ftypes = dict(fields)
        for _, ann in fields:
            if ann not in ("str", "int") and ann not in enums:
                _fail(c, f"field annotation {ann!r} not recognised")
        ser = parse_ser(s_fn, enums, strp)
        deser = parse_deser(d_fn, enums, strp)
        # resolve the enum class of `self.x.value.to_bytes`: from the annotation of x
        for f in ser:
            if f["kind"][0] == "enum?":
                ann = ftypes.get(f["name"])
                if ann not in enums:
                    _fail(s_fn, f"ser: .value of field {f['name']} which is not annotated with an enum of the module")
                f["kind"] = ("enum", f["kind"][1], f["kind"][2], ann)
        msgs.append({
            "cls": c.name,
            "fields": [n for n, _ in fields],
            "ser": ser,
            "deser": deser,
            "is_base": c.name in base_names,
            "is_response": c.name.endswith("Response"),
            "size_fields": [n for n, a in fields if a == "int"],
        })

    # tag table
    b2c_node = None
    c2b_node = None
    for n in tree.body:
        tgt = None
        if isinstance(n, ast.AnnAssign) and isinstance(n.target, ast.Name):
            tgt, val = n.target.id, n.value
        elif isinstance(n, ast.Assign) and len(n.targets) == 1 and isinstance(n.targets[0], ast.Name):
            tgt, val = n.targets[0].id, n.value
        if tgt == "b2c":
            if b2c_node is not None:
                _fail(n, "b2c assigned twice")
            b2c_node = val
        elif tgt == "c2b":
            if c2b_node is not None:
                _fail(n, "c2b assigned twice")
            c2b_node = val
    if b2c_node is None or c2b_node is None:
        raise Unrecognised("api.py: b2c / c2b not found")
    # no later mutation of the tables (b2c[...] = ..., b2c.update, del) anywhere in the module
    for n in ast.walk(tree):
        if isinstance(n, (ast.Subscript, ast.Attribute)) and isinstance(n.value, ast.Name) and n.value.id in ("b2c", "c2b"):
            if isinstance(getattr(n, "ctx", None), (ast.Store, ast.Del)):
                _fail(n, "tag table mutated after its definition")
            if isinstance(n, ast.Attribute) and n.attr != "items":
                _fail(n, "tag table method call not recognised")
    if not isinstance(b2c_node, ast.Dict):
        _fail(b2c_node, "b2c must be a dict literal")
    tags = []
    for k, v in zip(b2c_node.keys, b2c_node.values):
        if not (isinstance(k, ast.Constant) and isinstance(k.value, bytes)):
            _fail(b2c_node, "b2c key must be a bytes literal")
        if not (isinstance(v, ast.Name) and v.id in {m["cls"] for m in msgs}):
            _fail(v if v is not None else b2c_node, "b2c value must be a message class of the module")
        tags.append((list(k.value), v.id))
    if ast.dump(c2b_node) != ast.dump(ast.parse("{v: k for k, v in b2c.items()}", mode="eval").body):
        _fail(c2b_node, "c2b must be {v: k for k, v in b2c.items()}")

    def norm(fn):
        return [ast.dump(s) for s in fn.body]
    ser_ok = [
        [ast.dump(s) for s in ast.parse("m = c2b[type(comm)] + comm.ser()\nreturn m").body],
        [ast.dump(s) for s in ast.parse("return c2b[type(comm)] + comm.ser()").body],
    ]
    if [a.arg for a in funcs["ser"].args.args] != ["comm"] or norm(funcs["ser"]) not in ser_ok:
        _fail(funcs["ser"], "module-level ser: expected c2b[type(comm)] + comm.ser()")
    deser_ok = [
        [ast.dump(s) for s in ast.parse("data = memoryview(data)\nreturn b2c[data[:1]].deser(data[1:])").body],
        [ast.dump(s) for s in ast.parse("return b2c[data[:1]].deser(data[1:])").body],
    ]
    if [a.arg for a in funcs["deser"].args.args] != ["data"] or norm(funcs["deser"]) not in deser_ok:
        _fail(funcs["deser"], "module-level deser: expected b2c[data[:1]].deser(data[1:])")
    return {"msgs": msgs, "tags": tags, "enums": enums, "str": strp}


# --------------------------------------------------------------------------- Lean emission

def _lean_str(s):
    if not all(32 <= ord(c) < 127 and c not in '"\\' for c in s):
        raise Unrecognised(f"identifier {s!r} cannot be emitted")
    return '"' + s + '"'


def _lean_kind(k, enums):
    e = ".big" if k[2] == "big" else ".little"
    if k[0] == "int":
        return f".int {k[1]} {e}"
    if k[0] == "str":
        return f".str {k[1]} {e}"
    if k[0] == "enum":
        vals = ", ".join(str(v) for _, v in enums[k[3]])
        return f".enum {k[1]} {e} [{vals}]"
    raise Unrecognised(f"kind {k}")


def emit_lean(tab: dict) -> str:
    L = []
    L.append("/- GENERATED by harness/ekw/c17_translate.py from src/cascade/shm/api.py (+ the receive buffers of shm/server.py, shm/client.py) -- do not edit.")
    L.append("   Regenerated on every run of `./check C17`; Props/C17.lean proves `SchemaOK shmApi` by `decide`. -/")
    L.append("import EkwVerif.Model.Codec")
    L.append("")
    L.append("namespace EkwVerif.Gen")
    L.append("open EkwVerif.Codec")
    L.append("")
    for name, members in tab["enums"].items():
        L.append(f"-- enum {name}: " + ", ".join(f"{n} = {v}" for n, v in members))
    L.append(f"-- ser_str: {tab['str']['ser']['lw']}-byte {tab['str']['ser']['e']}-endian length + ascii;"
             f" deser_str: {tab['str']['deser']['lw']}-byte {tab['str']['deser']['e']}-endian length + ascii")
    L.append("")
    L.append("def shmApi : Table := {")
    L.append("  msgs := [")
    rows = []
    for m in tab["msgs"]:
        def fl(seq):
            return "[" + ", ".join(f"⟨{_lean_str(f['name'])}, {_lean_kind(f['kind'], tab['enums'])}⟩" for f in seq) + "]"
        rows.append(
            "    { cls := " + _lean_str(m["cls"]) + ",\n"
            "      fields := [" + ", ".join(_lean_str(f) for f in m["fields"]) + "],\n"
            "      ser := " + fl(m["ser"]) + ",\n"
            "      deser := " + fl(m["deser"]) + ",\n"
            "      isBase := " + ("true" if m["is_base"] else "false") + ", isResponse := " + ("true" if m["is_response"] else "false") + ",\n"
            "      sizeFields := [" + ", ".join(_lean_str(f) for f in m["size_fields"]) + "] }")
    L.append(",\n".join(rows))
    L.append("  ],")
    L.append("  tags := [")
    L.append(",\n".join(f"    ([{', '.join(str(b) for b in t)}], {_lean_str(c)})" for t, c in tab["tags"]))
    L.append("  ]")
    L.append("}")
    L.append("")
    # one boundary-valued instance per concrete class (non-vacuity of the instantiation theorems):
    # sizes 2^64-1, one-character strings, first enum member
    L.append("/-- one message per concrete class with sizes 2^64-1 (proved in-domain and round-tripping in Props/C17) -/")
    L.append("def shmApiWitnesses : List Msg := [")
    rows = []
    for m in tab["msgs"]:
        if m["is_base"]:
            continue
        kinds = {f["name"]: f["kind"] for f in m["ser"]}
        vals = []
        for i, f in enumerate(m["fields"]):
            k = kinds.get(f, ("str",))
            if k[0] == "int":
                vals.append(f".int {2**64 - 1}")
            elif k[0] == "enum":
                vals.append(f".int {tab['enums'][k[3]][0][1]}")
            else:
                vals.append(f".str [{107 + i}]")
        rows.append("  ⟨" + _lean_str(m["cls"]) + ", [" + ", ".join(vals) + "]⟩")
    L.append(",\n".join(rows))
    L.append("]")
    L.append("")
    if "server_recv" in tab:
        L.append("/-- shm/server.py: `self.sock.recvfrom(N)` -- the buffer a request datagram is received into -/")
        L.append(f"def shmServerRecv : Nat := {tab['server_recv']}")
        L.append("/-- shm/client.py: `sock.recv(N)` -- the buffer a response datagram is received into -/")
        L.append(f"def shmClientRecv : Nat := {tab['client_recv']}")
        L.append("")
    L.append("end EkwVerif.Gen")
    return "\n".join(L) + "\n"


def parse_recv_limit(src: str, method: str, where: str) -> int:
    """The receive buffer of one side of the datagram transport: the file must contain exactly ONE call `<socket>.<method>(N)`
    with an integer literal N (shm/server.py: recvfrom, shm/client.py: recv). Anything else (several receives, a computed size)
    is not the one-datagram-per-message transport the model describes -> Unrecognised."""
    tree = ast.parse(src)
    found = []
    for node in ast.walk(tree):
        if isinstance(node, ast.Call) and isinstance(node.func, ast.Attribute) and node.func.attr in ("recv", "recvfrom", "recv_into", "recvfrom_into", "recvmsg"):
            found.append(node)
    if len(found) != 1 or found[0].func.attr != method:
        raise Unrecognised(f"{where}: expected exactly one socket receive, a call .{method}(N); found "
                           + ", ".join(f"line {n.lineno}: {ast.unparse(n)}" for n in found))
    call = found[0]
    if len(call.args) != 1 or call.keywords or not (isinstance(call.args[0], ast.Constant) and type(call.args[0].value) is int):
        raise Unrecognised(f"{where}:{call.lineno}: receive buffer is not an integer literal: {ast.unparse(call)}")
    return call.args[0].value


def translate_file(api_path, out_path) -> dict:
    import os.path
    tab = parse_api(open(api_path).read())
    d = os.path.dirname(str(api_path))
    tab["server_recv"] = parse_recv_limit(open(os.path.join(d, "server.py")).read(), "recvfrom", "shm/server.py")
    tab["client_recv"] = parse_recv_limit(open(os.path.join(d, "client.py")).read(), "recv", "shm/client.py")
    text = emit_lean(tab)
    try:
        old = open(out_path).read()
    except OSError:
        old = None
    if old != text:
        import os
        os.makedirs(os.path.dirname(out_path), exist_ok=True)
        with open(out_path, "w") as f:
            f.write(text)
    return tab


if __name__ == "__main__":
    import sys
    print(emit_lean(parse_api(open(sys.argv[1]).read())))
