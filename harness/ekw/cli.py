"""Command line: ./check Cxx [--tier quick|thorough] [--seed N] ; ./check replay Cxx file"""
import argparse
import importlib
import json
import logging
import os
import sys
import warnings


def main():
    warnings.filterwarnings("ignore")
    logging.disable(logging.CRITICAL)
    ap = argparse.ArgumentParser()
    ap.add_argument("prop")
    ap.add_argument("rest", nargs="*")
    ap.add_argument("--tier", default=os.environ.get("VERIF_TIER", "quick"), choices=["quick", "thorough"])
    ap.add_argument("--seed", type=int, default=int(os.environ.get("VERIF_SEED", "0") or 0))
    a = ap.parse_args()
    # set-iteration order of the real scheduler depends on the hash seed: fix it, derived from the seed
    want = str(a.seed % 4294967295)
    if os.environ.get("PYTHONHASHSEED") != want:
        os.environ["PYTHONHASHSEED"] = want
        os.execv(sys.executable, [sys.executable, "-m", "ekw.cli"] + sys.argv[1:])
    from ekw import core
    if a.prop == "replay":
        prop, path = a.rest[0], a.rest[1]
        mod = importlib.import_module("ekw.props." + prop.lower())
        payload = json.load(open(path))
        if not hasattr(mod, "replay"):
            print("no replay for", prop)
            sys.exit(2)
        sys.exit(mod.replay(payload))
    mod = importlib.import_module("ekw.props." + a.prop.lower())
    sys.exit(core.run_property(mod, a.tier, a.seed))


if __name__ == "__main__":
    main()
