"""C16 helper: runs the REAL precompute in a child process, so that the real ThreadPoolExecutor can be
used on every case (a worker thread that never returns cannot be interrupted from inside the process:
the parent kills the child instead) and so that a stand-in for the absent `coptrs` extension can be
put into sys.modules without touching the parent.

Protocol: one JSON line in {"case": job, "mode": "pool" | "sync" | "coptrs"}, one JSON line out: the canonical
result of props/c16.py (`canon_real`). Modes:
  pool    the real ThreadPoolExecutor(max_workers=4), interpreter switch interval 10 microseconds so that the
          four workers and the thread draining `decompose` really interleave on small jobs
  pool1us the same with a switch interval of 1 microsecond (used for the many-component jobs)
  sync    the synchronous stand-in (same as the parent's inline run; used for self-test)
  coptrs  synchronous, with a module `coptrs` present whose `nearest_common_descendant(m, L)` computes on
          the dict-of-index-pairs the same function as the python fallback (written here from the fallback's
          definition): exercises the conversion code of graph.nearest_common_descendant (d1/d2 index maps)
"""
import json
import os
import select
import subprocess
import sys
import time
import types


def _stub_coptrs():
    m = types.ModuleType("coptrs")

    def nearest_common_descendant(paths, L):
        idx = sorted({a for a, _ in paths} | {b for _, b in paths})
        out = {}
        for a in idx:
            for b in idx:
                if a == b:
                    out[(a, b)] = 0
                    continue
                best = L
                for c in idx:
                    best = min(best, max(paths.get((a, c), L), paths.get((b, c), L)))
                out[(a, b)] = best
        return out

    m.nearest_common_descendant = nearest_common_descendant
    return m


def main():
    from ekw.props import c16
    sys.setswitchinterval(1e-5)
    out = sys.stdout
    for line in sys.stdin:
        line = line.strip()
        if not line:
            continue
        req = json.loads(line)
        mode = req.get("mode", "pool")
        try:
            if mode == "coptrs":
                sys.modules["coptrs"] = _stub_coptrs()
                try:
                    res = c16.run_real(req["case"], real_pool=False, timeout=req.get("timeout", 5.0))
                finally:
                    sys.modules.pop("coptrs", None)
            elif mode == "pool1us":
                sys.setswitchinterval(1e-6)
                try:
                    res = c16.run_real(req["case"], real_pool=True)
                finally:
                    sys.setswitchinterval(1e-5)
            else:
                res = c16.run_real(req["case"], real_pool=(mode == "pool"), timeout=req.get("timeout", 5.0))
            ans = c16.canon_real(res)
        except BaseException as e:  # noqa
            ans = {"error": "Worker:" + type(e).__name__}
        out.write(json.dumps(ans) + "\n")
        out.flush()


class Child:
    """Parent side: a worker process that is killed and restarted when it does not answer in time."""

    def __init__(self):
        self.p = None
        self.buf = b""
        self.kills = 0

    def _start(self):
        env = dict(os.environ)
        self.p = subprocess.Popen([sys.executable, "-m", "ekw.c16_worker"], stdin=subprocess.PIPE, stdout=subprocess.PIPE,
                                  stderr=subprocess.DEVNULL, env=env, bufsize=0)
        self.buf = b""

    def close(self):
        if self.p is not None:
            try:
                self.p.kill()
                self.p.wait(timeout=5)
            except Exception:
                pass
            self.p = None

    def run(self, case, mode, timeout):
        """Canonical result, or {"error": "Timeout"} when the child did not answer within `timeout` seconds
        (the child is killed: a precompute that never returns), or {"error": "WorkerDied"}."""
        if self.p is None or self.p.poll() is not None:
            self._start()
        try:
            self.p.stdin.write((json.dumps({"case": case, "mode": mode, "timeout": timeout}) + "\n").encode())
            self.p.stdin.flush()
        except Exception:
            self.close()
            return {"error": "WorkerDied"}
        end = time.time() + timeout + 0.5       # (+0.5: the child's own alarm for the interruptible modes fires first)
        fd = self.p.stdout.fileno()
        while b"\n" not in self.buf:
            left = end - time.time()
            if left <= 0:
                self.kills += 1
                self.close()
                return {"error": "Timeout"}
            r, _, _ = select.select([fd], [], [], left)
            if not r:
                continue
            chunk = os.read(fd, 1 << 16)
            if not chunk:
                self.close()
                return {"error": "WorkerDied"}
            self.buf += chunk
        line, _, self.buf = self.buf.partition(b"\n")
        try:
            return json.loads(line)
        except Exception:
            return {"error": "WorkerGarbled"}


if __name__ == "__main__":
    main()
