"""C07 simulation: two or three REAL DataServer objects, each with its REAL Executor front (shells: no
sockets, no processes) and its REAL shm store, driven one loop iteration / one pool-job stage at a time
over a fake network.

What is real:  DataServer.recv_loop / maybe_clean / send_payload / store_payload, Executor.recv_loop (the
               DatasetPublished / DatasetTransmitFailure / DatasetPurge branches), Bridge.transmit / fetch (the
               command constructor and its index counter, used by the generator), comms.Listener (__init__ over
               a fake zmq context / poller, _recv_one, recv_messages), comms.send_data / callback, serde (pickle framing), msg,
               the WHOLE shm path: cascade.shm.client (allocate / get / purge / AllocatedBuffer / close_callback,
               _send_command with its wait-retry-timeout loop), api.ser/deser, server.LocalServer.start dispatch,
               dataset.Manager, real POSIX SharedMemory segments (unique prefix per process and host).
What is fake:  zmq sockets + poller (in-memory queues), the UDP socket between shm client and shm server (the
               request is handed to a LocalServer shell of the calling host in-process), time.sleep of the shm
               client (no-op, counted), the thread pool (ManualPool: a job runs in its own thread but only when the
               harness hands it the baton, and it can be stopped at the stage boundaries "allocate granted",
               "writer closed", "get granted"; `wait` without timeout = run the awaited pending jobs - all / one - to
               their end; `wait` WITH a timeout = the fake clock advances by it and every job that had not finished is
               returned in not_done), the clock
               (data_server.time_ns), Executor's sender / workers / child processes (stubs).
Faults:        injected at the shm-server / socket boundary while the real client code runs: allocate or get
               answered "wait" for ever (-> TimeoutError after the client's 600 polls) or "capacity exceeded", the
               writer's close callback refused, the local push of DatasetPublished or the payload send raising
               once, the reader's close callback raising after it was served (-> the exception escapes
               send_payload's `finally` into the Future).
"""
import itertools
import os
import pickle
import threading
import types
from concurrent.futures import ALL_COMPLETED, FIRST_COMPLETED, Future

MS = 1_000_000
_counter = itertools.count()


def _b36(n):
    s = ""
    while True:
        n, r = divmod(n, 36)
        s = "0123456789abcdefghijklmnopqrstuvwxyz"[r] + s
        if n == 0:
            return s


class _Abort(BaseException):
    pass


class InjectedSendError(OSError):
    pass


class OutSocket:
    def __init__(self, world, address):
        self.w, self.address = world, address

    def set(self, *a):
        pass

    def connect(self, a):
        pass

    def send(self, b, *a, **k):
        self.w.route(self.address, [bytes(b)])

    def send_multipart(self, parts, flags=0, copy=True, track=False, **k):
        # zmq with copy=True reads the buffers while the call runs; with copy=False it keeps a reference to
        # each buffer until the io thread has sent it, i.e. beyond the call: the fake keeps the caller's
        # objects in the frame, they are read when the frame is looked at (a memoryview of a segment is then
        # still exported when the caller closes the segment, or already released)
        if copy:
            self.w.route(self.address, [bytes(p) for p in parts])
        else:
            self.w.route(self.address, _Lazy(parts))


class _Lazy(list):
    """frames handed over without copying: materialised on first use"""
    done = False

    def fix(self):
        if not self.done:
            for i, p in enumerate(list(self)):
                try:
                    self[i] = bytes(p)
                except Exception as e:
                    self[i] = b"<buffer gone: %s>" % type(e).__name__.encode()
            self.done = True
        return self


class InSocket:
    def __init__(self):
        self.queue = []

    def bind(self, address):
        self.address = address

    def recv_multipart(self):
        return self.queue.pop(0)


class Poller:
    """stands in for zmq.Poller (the real Listener.__init__ registers its socket with it)"""

    def __init__(self, sock=None):
        self.sock = sock

    def register(self, sock, flags=0):
        self.sock = sock

    def poll(self, timeout=None):
        return [(self.sock, 1)] if self.sock is not None and self.sock.queue else []


class _FakeContext:
    """stands in for zmq.Context: `socket(zmq.PULL)` gives an in-memory queue, `bind` is a no-op"""

    def socket(self, kind):
        return InSocket()


class _ZmqProxy:
    """the zmq module as `cascade.executor.comms` sees it: everything real except the Poller"""

    def __init__(self, real):
        self._real = real
        self.Poller = Poller

    def __getattr__(self, k):
        return getattr(self._real, k)


class _ShmSock:
    """scripted datagram socket of one LocalServer shell: one request, then the shutdown command"""

    def __init__(self, msgs):
        self.inbox, self.sent = list(msgs), []

    def recvfrom(self, n):
        return self.inbox.pop(0), "client"

    def sendto(self, b, addr):
        self.sent.append(b)

    def close(self):
        pass


class _ClientSock:
    """stands in for the UDP socket of `cascade.shm.client._send_command`"""

    def __init__(self, world):
        self.w = world
        self.req = None

    def connect(self, a):
        pass

    def settimeout(self, t):      # the real client bounds its wait for the answer (repo fix of Executor.terminate)
        pass

    def send(self, b):
        self.req = bytes(b)

    def recv(self, n):
        return self.w.shm_request(self.req)

    def close(self):
        pass


class Job:
    """one submitted pool job; runs in its own thread, one baton"""

    def __init__(self, pool, fut, fn, args):
        self.pool, self.fut, self.fn, self.args = pool, fut, fn, args
        self.thread = None
        self.go = threading.Semaphore(0)
        self.back = threading.Semaphore(0)
        self.stepping = False
        self.abort = False
        self.finished = False
        self.stage = 0
        self.fault = None        # armed for the stage that is about to run

    def _body(self):
        self.go.acquire()
        try:
            if not self.abort:
                try:
                    self.fut.set_result(self.fn(*self.args))
                except _Abort:
                    pass
                except Exception as e:
                    self.fut.set_exception(e)
        finally:
            self.finished = True
            self.back.release()

    def pause(self):
        """called from inside the job at a stage boundary"""
        self.stage += 1
        self.fault = None
        if self.stepping:
            self.back.release()
            self.go.acquire()
            if self.abort:
                raise _Abort()

    def resume(self, stepping, fault=None):
        w = self.pool.w
        prev = (w.cur, w.cur_job)
        w.cur, w.cur_job = self.pool.host, self
        self.stepping = stepping
        self.fault = fault
        if self.thread is None:
            self.thread = threading.Thread(target=self._body, daemon=True)
            self.thread.start()
        self.go.release()
        self.back.acquire()
        self.fault = None
        w.cur, w.cur_job = prev
        if self.finished and self in self.pool.jobs:
            self.pool.jobs.remove(self)
            a = self.args[0]
            w.observations.append({"kind": "job-done", "h": self.pool.host, "job": self.name, "op": w.opno, "now": w.now_ms,
                                   "idx": a.idx if self.name == "send_payload" else a.header.confirm_idx,
                                   "ds": w.job_ds(self), "exc": self.fut.done() and self.fut.exception() is not None})

    @property
    def name(self):
        return self.fn.__name__


class ManualPool:
    def __init__(self, world, host):
        self.w, self.host, self.jobs = world, host, []

    def submit(self, fn, *a):
        f = Future()
        self.jobs.append(Job(self, f, fn, a))
        self.w.on_submit(self.host, fn, a)
        return f

    def job_of(self, fut):
        for j in self.jobs:
            if j.fut is fut:
                return j
        return None


class _NoDisk:
    def page_in(self, *a):
        raise RuntimeError("C07 harness: paging is not expected")

    page_out = page_in

    def atexit(self):
        pass


class StubProc:
    exitcode = None
    pid = 0


class FakeSender:
    def __init__(self, world, h):
        self.w, self.h = world, h

    def send(self, host, m):
        self.w.to_controller(self.h, m)

    def ack(self, idx):
        pass

    def maybe_retry(self):
        pass


class FakeWatcher:
    def step(self):
        pass

    def is_breach(self):
        return 0

    def elapsed_ms(self):
        return 0


class World:
    """The real side. `apply(op)` executes one op and returns the abstract state in the model's format."""

    def __init__(self, n, stores, published=None, force_wait_timeout=None):
        # only for the replay of the witness of c07_purge_arm_waits_full_fails: the ALL_COMPLETED wait gets this timeout
        self.force_wait_timeout = force_wait_timeout
        import multiprocessing.resource_tracker as rt
        import cascade.executor.comms as comms
        import cascade.executor.data_server as dsv
        import cascade.executor.executor as xmod
        import cascade.executor.bridge as bridge
        import cascade.shm.api as shm_api
        import cascade.shm.client as shm_client
        import cascade.shm.dataset as shm_dataset
        import cascade.shm.server as shm_server
        from cascade.executor import msg as M
        from cascade.executor.runner.memory import ds2shmid
        from cascade.low.core import DatasetId
        self.comms, self.dsv, self.M, self.xmod = comms, dsv, M, xmod
        self.shm_api, self.shm_client, self.shm_dataset, self.shm_server = shm_api, shm_client, shm_dataset, shm_server
        self.DatasetId, self.ds2shmid = DatasetId, ds2shmid
        self.n = n
        self.now_ms = 1
        self.hosts = list(range(1, n + 1))
        self.key2ds = {}
        self.net = []            # [(address, [frames])]
        self.events = []         # model-comparable events of the current op
        self.observations = []   # raw observations for the oracle (whole history)
        self.cur = None
        self.cur_job = None
        self.sched = []
        self.crashed = {h: False for h in self.hosts}
        self.seen_submit = {h: set() for h in self.hosts}
        self.opno = 0
        self.sleeps = 0
        self.closed = False
        self._segcache = {}
        self.lazy = []
        self.pending_sent = []
        # ---- module globals replaced
        # one process plays shm server and all clients: the per-process resource tracker would see
        # double (un)registrations of the same segment; it is not part of the store
        rt.register = lambda *a, **k: None
        rt.unregister = lambda *a, **k: None
        comms.get_socket = lambda address: OutSocket(self, address)
        comms.get_context = lambda: _FakeContext()
        if not isinstance(comms.zmq, _ZmqProxy):
            comms.zmq = _ZmqProxy(comms.zmq)
        self.n_store_submits = {h: 0 for h in self.hosts}
        self.n_purge_fwd = {h: 0 for h in self.hosts}
        self.waits = []
        dsv.time_ns = lambda: self.now_ms * MS
        dsv.shm_client = shm_client          # the REAL client module
        dsv.wait = self.fake_wait
        dsv.mark = lambda *a, **k: None
        xmod.mark = lambda *a, **k: None
        shm_dataset.get_capacity = lambda: 1 << 40
        shm_api.get_client_port = lambda: 0
        shm_client.socket = types.SimpleNamespace(socket=lambda *a, **k: _ClientSock(self), AF_INET=0, SOCK_DGRAM=0)
        shm_client.time = types.SimpleNamespace(sleep=self._sleep)
        world = self

        class Shell(dsv.DataServer):
            @property
            def terminating(s):
                if s._arm > 0:
                    s._arm -= 1
                    return False
                return True

            @terminating.setter
            def terminating(s, v):
                pass

        class XShell(xmod.Executor):
            @property
            def terminating(s):
                if s._arm > 0:
                    s._arm -= 1
                    return False
                return True

            @terminating.setter
            def terminating(s, v):
                s._terminated = bool(v) or getattr(s, "_terminated", False)

            def terminate(s):
                s._terminated = True

        self.srv, self.pools, self.mgr, self.exe = {}, {}, {}, {}
        tag = "e7%s%s" % (_b36(os.getpid()), _b36(next(_counter)))
        for h in self.hosts:
            prefix = "%s%d_" % (tag, h)
            for nm in os.listdir("/dev/shm"):      # leftovers of a dead process that had our pid
                if nm.startswith(prefix):
                    try:
                        os.unlink("/dev/shm/" + nm)
                    except OSError:
                        pass
            # nothing is ever paged here (capacity 16 MiB, datasets of a few bytes): the Manager gets a Disk
            # without temporary directory and thread pools (both cost ~20 ms per host on a busy machine)
            real_disk = shm_dataset.disk.Disk
            shm_dataset.disk.Disk = _NoDisk
            try:
                m = shm_dataset.Manager(prefix, capacity=1 << 24)
            finally:
                shm_dataset.disk.Disk = real_disk
            self.mgr[h] = m
            # the REAL DataServer.__init__ runs (so that whatever state it sets up exists), with the things
            # that would touch the outside world replaced for the duration of the call
            self.pools[h] = ManualPool(self, h)
            saved = (dsv.Listener, dsv.ThreadPoolExecutor, dsv.label, dsv.logging.config.dictConfig,
                     dsv.shm_api.publish_client_port)
            dsv.Listener = self.mk_listener
            dsv.ThreadPoolExecutor = lambda *a, **k: self.pools[h]
            dsv.label = lambda *a, **k: None
            dsv.logging.config.dictConfig = lambda *a, **k: None
            dsv.shm_api.publish_client_port = lambda *a, **k: None
            try:
                s = object.__new__(Shell)
                s._arm = 0
                dsv.DataServer.__init__(s, "m:" + self.hname(h), self.aname(h), self.hname(h), 0, {"version": 1})
            finally:
                (dsv.Listener, dsv.ThreadPoolExecutor, dsv.label, dsv.logging.config.dictConfig,
                 dsv.shm_api.publish_client_port) = saved
            self.srv[h] = s
            x = object.__new__(XShell)
            x._arm = 0
            x._terminated = False
            x.host = self.hname(h)
            x.mlistener = self.mk_listener("m:" + self.hname(h))
            x.sender = FakeSender(self, h)
            x.workers = {}
            x.datasets = set()
            x.daddress = self.aname(h)
            x.heartbeat_watcher = FakeWatcher()
            x.shm_process = StubProc()
            x.data_server = StubProc()
            x.registration = None
            self.exe[h] = x
        self.ctrl = self.mk_listener("ctrl")
        for d in range(64):
            self.key(d)
        # the controller's command constructor (real Bridge.transmit / fetch)
        b = object.__new__(bridge.Bridge)
        b.transmit_idx_counter = 0
        b.mlistener = types.SimpleNamespace(address="ctrl")
        self._last_cmd = None
        hosts = {"data." + self.hname(h): (None, self.aname(h)) for h in self.hosts}
        b.sender = types.SimpleNamespace(hosts=hosts, send=lambda host, m: setattr(world, "_last_cmd", (host, m)))
        self.bridge = b
        # ---- initial contents, written through the real client (as a worker's Memory.handle does)
        for h, d, v, f in stores:
            self.cur = h
            val = bytes.fromhex(v)
            buf = shm_client.allocate(self.key(d), len(val), f)
            buf.view()[:len(val)] = val
            buf.close()
        if published is None:
            published = [[h, d] for h, d, v, f in stores]
        for h, d in published:
            self.exe[h].datasets.add(self.dsid(d))
        self.cur = None

    # ---- naming
    def hname(self, h):
        return "controller" if h == 0 else "h%d" % h

    def hid(self, name):
        return 0 if name == "controller" else int(name[1:]) if name[0] == "h" and name[1:].isdigit() else 999

    def aname(self, a):
        return "ctrl" if a == 0 else "d:h%d" % a

    def aid(self, addr):
        if addr == "ctrl":
            return 0
        if addr.startswith("d:h"):
            return int(addr[3:])
        return 999

    def dsid(self, d):
        return self.DatasetId("t", str(d))

    def dsno(self, ds):
        return int(ds.output)

    def key(self, d):
        k = self.ds2shmid(self.dsid(d))
        self.key2ds[k] = d
        return k

    def mk_listener(self, address):
        """A REAL Listener: its __init__ runs over the fake zmq context / poller.  What `recv_messages` hands to the
        loop is watched from outside (a generator around the returned list: the code after `yield` runs when the
        loop asks for the next message, i.e. when the branch of the previous one is over): a payload for which no
        store job was submitted was DISCARDED, a purge the executor did not pass on was DROPPED."""
        l = self.comms.Listener(address)
        orig = l.recv_messages
        world = self
        if address.startswith("d:h"):
            h = int(address[3:])
            l.recv_messages = lambda *a, **k: world._watch_ds(h, orig(*a, **k))
        elif address.startswith("m:h"):
            h = int(address[3:])
            l.recv_messages = lambda *a, **k: world._watch_ex(h, orig(*a, **k))
        return l

    def _watch_ds(self, h, msgs):
        M = self.M
        for m in msgs:
            n0 = self.n_store_submits[h]
            if isinstance(m, M.DatasetTransmitPayload):
                self.observations.append({"kind": "payload-read", "h": h, "ds": self.dsno(m.header.ds),
                                          "idx": m.header.confirm_idx, "op": self.opno})
            yield m
            if isinstance(m, M.DatasetTransmitPayload) and self.n_store_submits[h] == n0:
                self.events.append({"e": "ignored", "h": h, "ds": self.dsno(m.header.ds), "idx": m.header.confirm_idx})
                self.observations.append({"kind": "payload-ignored", "h": h, "ds": self.dsno(m.header.ds),
                                          "idx": m.header.confirm_idx, "op": self.opno})

    def _watch_ex(self, h, msgs):
        M = self.M
        for m in msgs:
            n0 = self.n_purge_fwd[h]
            yield m
            if isinstance(m, M.DatasetPurge) and self.n_purge_fwd[h] == n0:
                self.events.append({"e": "purgeDropped", "h": h, "ds": self.dsno(m.ds)})
                self.observations.append({"kind": "purge-dropped", "h": h, "ds": self.dsno(m.ds), "op": self.opno})

    def _sleep(self, s):
        self.sleeps += 1

    # ---- the controller's command constructor
    def bridge_cmd(self, d, source, target):
        """DatasetTransmitCommand built by the real Bridge (transmit for target >= 1, fetch for target 0)."""
        self._last_cmd = None
        if target == 0:
            self.bridge.fetch(self.dsid(d), self.hname(source))
        else:
            self.bridge.transmit(self.dsid(d), self.hname(source), self.hname(target))
        host, m = self._last_cmd
        c = self.cmd_json(m)
        c["via"] = self.hid(host[5:]) if host.startswith("data.") else 999
        return c

    # ---- the shm server side of a request
    def segment(self, h, key):
        from multiprocessing.shared_memory import SharedMemory
        ds = self.mgr[h].datasets[key]
        shm = SharedMemory(ds.shmid, create=False)
        try:
            return bytes(shm.buf[:ds.size])
        finally:
            shm.close()

    def shm_request(self, raw):
        api = self.shm_api
        h = self.cur
        m = self.mgr[h]
        req = api.deser(raw)
        job = self.cur_job
        fault = job.fault if job is not None else None
        # ---- injected answers of a shm server under memory pressure / in trouble
        if fault is not None:
            how = fault
            if isinstance(req, api.AllocateRequest) and how[0] == "fail":
                self.count_fault("allocate:" + how[1])
                return api.ser(api.AllocateResponse(shmid="", error=how[1]))
            if isinstance(req, api.GetRequest) and how[0] == "fail":
                self.count_fault("get:wait")
                return api.ser(api.GetResponse(shmid="", l=0, rdid="", deser_fun="", error="wait"))
            if isinstance(req, api.CloseCallback) and not req.rdid and how[0] == "fail":
                self.count_fault("close-writer")
                return api.ser(api.OkResponse(error="ValueError('injected: close refused')"))
        pre = None
        if isinstance(req, api.PurgeRequest):
            ds = m.datasets.get(req.key)
            pre = {"present": ds is not None, "status": ds.status.name if ds is not None else None,
                   "readers": len(ds.ongoing_reads) if ds is not None else 0}
        srv = object.__new__(self.shm_server.LocalServer)
        srv.sock = _ShmSock([raw, api.ser(api.ShutdownCommand())])
        srv.manager = m
        srv.start()
        out = srv.sock.sent[0]
        resp = api.deser(out)
        err = getattr(resp, "error", "")
        if isinstance(req, api.AllocateRequest):
            if err == "conflict":
                self.obs("conflict", h=h, key=req.key)
            elif not err and job is not None:
                job.pause()                      # stage boundary: allocate granted
        elif isinstance(req, api.CloseCallback):
            if not req.rdid:
                if not err:
                    self.obs("stored", h=h, key=req.key, value=self.segment(h, req.key),
                             deser=m.datasets[req.key].deser_fun)
                    if job is not None and job.name == "store_payload":
                        job.pause()              # stage boundary: writer closed
            elif fault is not None and fault[0] == "closeExc" and job is not None and job.name == "send_payload":
                self.count_fault("close-reader")
                return api.ser(api.OkResponse(error="ValueError('injected: close failed after it was served')"))
        elif isinstance(req, api.GetRequest):
            if not err and job is not None and job.name == "send_payload":
                job.pause()                      # stage boundary: get granted, buffer open
        elif isinstance(req, api.PurgeRequest):
            self.obs("shm-purge", h=h, key=req.key, pre=pre, answer=err or "ok",
                     pool_pending=[self.job_ds(j) for j in self.pools[h].jobs],
                     inprog=[self.key_ds(k) for k in self.srv[h].futs_in_progress])
        return out

    def count_fault(self, what):
        job = self.cur_job
        last = self.observations[-1] if self.observations else {}
        if last.get("kind") == "fault" and last.get("what") == what and last.get("op") == self.opno:
            return            # the client polls a waiting server 600 times
        self.observations.append({"kind": "fault", "what": what, "op": self.opno, "h": self.cur,
                                  "job": job.name if job is not None else None,
                                  "ds": self.job_ds(job) if job is not None else -1})

    # ---- instrumentation
    def obs(self, kind, **kw):
        kw["kind"] = kind
        kw["op"] = self.opno
        self.observations.append(kw)
        h = kw.get("h")
        job = self.cur_job
        if kind == "stored":
            idx = job.args[0].header.confirm_idx if job is not None and job.name == "store_payload" else -1
            kw["idx"] = idx
            if idx == -1:
                return                        # initial contents written by the harness
            self.events.append({"e": "stored", "h": h, "ds": self.key2ds.get(kw["key"], -1), "idx": idx,
                                "value": kw["value"].hex(), "deser": kw["deser"]})
        elif kind == "conflict":
            idx = job.args[0].header.confirm_idx if job is not None and job.name == "store_payload" else -1
            self.events.append({"e": "redundant", "h": h, "ds": self.key2ds.get(kw["key"], -1), "idx": idx})
        elif kind == "shm-purge":
            d = self.key2ds.get(kw["key"], -1)
            self.events.append({"e": "purged", "h": h, "ds": d, "inprog": sum(1 for x in kw["inprog"] if x == d)})

    def key_ds(self, k):
        M = self.M
        if isinstance(k, M.DatasetTransmitCommand):
            return self.dsno(k.ds)
        return self.dsno(k.header.ds)

    def job_ds(self, job):
        return self.key_ds(job.args[0])

    def on_submit(self, h, fn, a):
        if fn.__name__ == "send_payload":
            c = a[0]
            retry = c.idx in self.seen_submit[h]
            self.seen_submit[h].add(c.idx)
            self.events.append({"e": "submit", "h": h, "idx": c.idx, "ds": self.dsno(c.ds), "retry": retry})
            self.observations.append({"kind": "submit-send", "h": h, "idx": c.idx, "ds": self.dsno(c.ds), "retry": retry, "op": self.opno})
        elif fn.__name__ == "store_payload":
            self.n_store_submits[h] += 1

    def key_json(self, k):
        if isinstance(k, self.M.DatasetTransmitCommand):
            return {"k": "cmd", "c": self.cmd_json(k)}
        return {"k": "pay", "p": self.pay_json(k)}

    def route(self, address, parts):
        M = self.M
        job = self.cur_job
        if isinstance(parts, _Lazy):
            if not (len(parts) == 3 and job is not None and job.name == "send_payload"):
                parts = list(parts.fix())
            else:
                # the payload frame of a send job: the socket holds the buffers until the job has returned
                self.lazy.append(parts)
                head = [bytes(parts[0]), bytes(parts[1])]
                hd = pickle.loads(head[1])
                c = job.args[0]
                self.net.append((address, parts))
                self.pending_sent.append((parts, {"h": self.cur, "idx": c.idx, "ds": self.dsno(hd.ds), "deser": hd.deser_fun,
                                                 "to": address}))
                return
        if address.startswith("m:"):
            m = pickle.loads(parts[0])
            h = int(address[3:])
            if isinstance(m, M.DatasetPublished):
                if job is not None and job.fault is not None and job.fault[0] == "fail" and job.name == "store_payload":
                    job.fault = None
                    self.count_fault("push-published")
                    raise InjectedSendError("injected: local push failed")
                self.events.append({"e": "announced", "h": h, "ds": self.dsno(m.ds), "idx": m.transmit_idx})
                self.observations.append({"kind": "announced", "h": h, "ds": self.dsno(m.ds), "idx": m.transmit_idx,
                                          "origin": m.origin, "op": self.opno})
            elif isinstance(m, M.DatasetTransmitFailure):
                info = {}
                if job is not None and job.name == "send_payload":
                    self.events.append({"e": "sendFail", "h": h, "idx": job.args[0].idx})
                    info = {"src": "send", "idx": job.args[0].idx, "ds": self.dsno(job.args[0].ds)}
                elif job is not None and job.name == "store_payload":
                    p = job.args[0]
                    self.events.append({"e": "storeFail", "h": h, "ds": self.dsno(p.header.ds), "idx": p.header.confirm_idx,
                                        "stage": min(job.stage, 2)})
                    info = {"src": "store", "idx": p.header.confirm_idx, "ds": self.dsno(p.header.ds), "stage": min(job.stage, 2)}
                else:
                    key = None
                    for k, f in self.srv[h].futs_in_progress.items():
                        if f.done() and f.exception() is not None:
                            key = k
                            break
                    self.events.append({"e": "futFail", "h": h, "key": self.key_json(key) if key is not None else None})
                    info = {"src": "future", "ds": self.key_ds(key) if key is not None else -1,
                            "idx": key.idx if isinstance(key, M.DatasetTransmitCommand) else
                                   key.header.confirm_idx if key is not None else -1}
                info.update({"kind": "failure", "h": h, "detail": m.detail, "op": self.opno})
                self.observations.append(info)
            elif isinstance(m, M.DatasetPurge):
                pass
            else:
                self.events.append({"e": "callback?", "h": h, "type": type(m).__name__})
            self.exe[h].mlistener.socket.queue.append(list(parts))
            return
        if address.startswith("ipc://"):
            # a worker's socket: the executor shells have NO workers, so nothing may be sent there
            self.events.append({"e": "to-worker?", "to": address, "n": len(parts)})
            return
        if len(parts) == 3 and job is not None and job.name == "send_payload":
            if job.fault is not None and job.fault[0] == "fail":
                job.fault = None
                self.count_fault("send-data")
                raise InjectedSendError("injected: send_data failed")
            hd = pickle.loads(parts[1])
            c = job.args[0]
            self.events.append({"e": "sent", "h": self.cur, "idx": c.idx, "ds": self.dsno(hd.ds), "value": parts[2].hex(), "deser": hd.deser_fun})
            self.observations.append({"kind": "sent", "h": self.cur, "idx": c.idx, "ds": self.dsno(hd.ds), "value": parts[2],
                                      "deser": hd.deser_fun, "to": address, "op": self.opno})
        if address.startswith("d:") and len(parts) == 1 and self.cur_exec is not None:
            m = pickle.loads(parts[0])
            if isinstance(m, M.DatasetPurge):
                h = self.cur_exec
                self.events.append({"e": "purgeFwd", "h": h, "ds": self.dsno(m.ds)})
                self.observations.append({"kind": "purge-forwarded", "h": h, "ds": self.dsno(m.ds), "op": self.opno})
                self.n_purge_fwd[h] += 1
                self.srv[self.aid(address)].dlistener.socket.queue.append(list(parts))
                return
        self.net.append((address, parts))

    cur_exec = None

    def to_controller(self, h, m):
        M = self.M
        if isinstance(m, M.DatasetPublished):
            self.events.append({"e": "ctrlPub", "h": h, "ds": self.dsno(m.ds), "idx": m.transmit_idx})
            self.observations.append({"kind": "ctrl-published", "h": h, "ds": self.dsno(m.ds), "idx": m.transmit_idx,
                                      "origin": m.origin, "op": self.opno})
        elif isinstance(m, M.DatasetTransmitFailure):
            self.events.append({"e": "ctrlFail", "h": h})
            self.observations.append({"kind": "ctrl-failure", "h": h, "detail": m.detail, "op": self.opno})
        else:
            self.events.append({"e": "to-controller?", "h": h, "type": type(m).__name__, "what": repr(m)[:120]})
            self.observations.append({"kind": "ctrl-other", "h": h, "what": repr(m)[:200], "op": self.opno})

    def fake_wait(self, futs, timeout=None, return_when=ALL_COMPLETED):
        """`concurrent.futures.wait` over the manual pool.  Without a timeout the call blocks: the pool runs the
        awaited pending jobs (all of them / one of them), in the order of the scheduler oracle.  WITH a timeout the
        fake clock decides: a pool job that has not finished yet needs longer than any finite timeout (a transfer of
        a large dataset, a shm server under memory pressure), so the call returns after `timeout` seconds of fake
        time with those jobs in `not_done` - which is what the real `wait` does then."""
        from concurrent.futures._base import DoneAndNotDoneFutures
        futs = list(futs)
        if timeout is None and self.force_wait_timeout is not None and return_when == ALL_COMPLETED:
            timeout = self.force_wait_timeout
        pool = self.pools[self.cur]
        allf = list(self.srv[self.cur].futs_in_progress.values()) if self.cur in self.srv else []
        self.waits.append({"h": self.cur, "op": self.opno, "timeout": timeout, "return_when": return_when,
                           "n": len(futs), "all": len(futs) == len(allf) and all(any(a is f for f in futs) for a in allf)})

        def cands():
            return [j for j in pool.jobs if any(j.fut is f for f in futs)]

        def result():
            done = {f for f in futs if f.done()}
            return DoneAndNotDoneFutures(done, set(futs) - done)
        if timeout is not None:
            if cands() and not (return_when == FIRST_COMPLETED and any(f.done() for f in futs)):
                self.now_ms += int(timeout * 1000)
                self.observations.append({"kind": "wait-timed-out", "h": self.cur, "op": self.opno, "timeout": timeout,
                                          "not_done": len(cands())})
            return result()
        if return_when == FIRST_COMPLETED:
            if any(f.done() for f in futs):
                return result()
            c = cands()
            if c:
                k = self.sched.pop(0) if self.sched else 0
                c[k % len(c)].resume(False)
            return result()
        while True:
            c = cands()
            if not c:
                return result()
            k = self.sched.pop(0) if self.sched else 0
            c[k % len(c)].resume(False)

    # ---- ops
    def mk_cmd(self, c):
        return self.M.DatasetTransmitCommand(source=self.hname(c["source"]), target=self.hname(c["target"]),
                                             daddress=self.aname(c["daddr"]), ds=self.dsid(c["ds"]), idx=c["idx"])

    def apply(self, op):
        self.opno += 1
        self.events = []
        k = op["op"]
        try:
            if k == "tick":
                self._tick(op)
            elif k in ("job", "jobstep"):
                h = op["h"]
                if not self.crashed[h] and self.pools[h].jobs:
                    job = self.pools[h].jobs[op["c"] % len(self.pools[h].jobs)]
                    if k == "job":
                        job.resume(False)
                    else:
                        f = op.get("fault") or "none"
                        fault = None if f == "none" else (f, op.get("how") or "wait")
                        self.observations.append({"kind": "jobstep", "h": h, "job": job.name, "stage": job.stage,
                                                  "fault": f, "op": self.opno})
                        job.resume(True, fault)
            elif k == "etick":
                self._etick(op)
            elif k == "adv":
                self.now_ms += op["d"]
            elif k == "drop":
                if op["i"] < len(self.net):
                    a, parts = self.net.pop(op["i"])
                    self.observations.append({"kind": "dropped", "op": self.opno})
            elif k == "ctrl":
                self._ctrl(op)
        except Exception as e:   # harness-level surprise: make it visible in the comparison
            self.events.append({"e": "harness-exception", "what": "%s: %s" % (type(e).__name__, e)})
        for parts, info in self.pending_sent:       # zero-copy sends: what really went out
            parts.fix()
            self.events.append({"e": "sent", "h": info["h"], "idx": info["idx"], "ds": info["ds"], "value": parts[2].hex(),
                                "deser": info["deser"]})
            self.observations.append({"kind": "sent", "h": info["h"], "idx": info["idx"], "ds": info["ds"], "value": parts[2],
                                      "deser": info["deser"], "to": info["to"], "op": self.opno})
        self.pending_sent = []
        return self.abstract()

    def _tick(self, op):
        h = op["h"]
        srv = self.srv[h]
        M = self.M
        for inp in op["inputs"]:
            if inp["k"] == "frame":
                i = inp["i"]
                if i < len(self.net) and self.net[i][0] == self.aname(h):
                    fr = self.net[i] if inp["dup"] else self.net.pop(i)
                    srv.dlistener.socket.queue.append(list(fr[1]))
                    self.observations.append({"kind": "fed", "h": h, "frame": self.frame_json(fr), "dup": inp["dup"], "op": self.opno})
            elif inp["k"] == "cmd":
                c = self.mk_cmd(inp)
                srv.dlistener.socket.queue.append([pickle.dumps(c)])
                self.observations.append({"kind": "cmd", "h": h, "c": dict(inp), "op": self.opno})
            else:
                srv.dlistener.socket.queue.append([pickle.dumps(M.DatasetPurge(ds=self.dsid(inp["ds"])))])
                self.observations.append({"kind": "purge-cmd", "h": h, "ds": inp["ds"], "op": self.opno})
        if self.crashed[h]:
            return
        self.cur = h
        self.cur_job = None
        self.sched = list(op.get("sched", []))
        self.observations.append({"kind": "tick-begin", "h": h, "op": self.opno, "now": self.now_ms,
                                  "awaiting": {i: (self.dsno(c.ds), at) for i, (c, at) in srv.awaiting_confirmation.items()},
                                  "acks": repr(getattr(srv, "acks", ())), "invalid": repr(srv.invalid),
                                  "sock": [self.frame_json((self.aname(h), p)) for p in srv.dlistener.socket.queue]})
        srv._arm = 1
        try:
            srv.recv_loop()
        except Exception as e:
            self.crashed[h] = True
            s = str(e)
            why = (1 if "transmit idx conflict" in s else 2 if "unexpected transmit command" in s else
                   3 if "asked for retry" in s else
                   5 if isinstance(e, KeyError) else 99)
            ev = {"e": "crashed", "h": h, "why": why}
            if why == 99:
                ev["what"] = "%s: %s" % (type(e).__name__, s[:100])
            self.events.append(ev)
            self.observations.append({"kind": "crashed", "h": h, "why": why, "what": "%s: %s" % (type(e).__name__, s[:200]), "op": self.opno})
        self.observations.append({"kind": "tick-end", "h": h, "op": self.opno, "sock_left": len(srv.dlistener.socket.queue)})

    def _etick(self, op):
        h = op["h"]
        x = self.exe[h]
        M = self.M
        for d in op.get("purges", []):
            x.mlistener.socket.queue.append([pickle.dumps(M.DatasetPurge(ds=self.dsid(d)))])
            self.observations.append({"kind": "purge-to-executor", "h": h, "ds": d, "op": self.opno,
                                      "known": self.dsid(d) in x.datasets})
        self.cur = h
        self.cur_job = None
        self.cur_exec = h
        x._arm = 1
        try:
            x.recv_loop()
        finally:
            self.cur_exec = None
        if x._terminated:
            x._terminated = False
            self.events.append({"e": "executor-terminated", "h": h})

    def _ctrl(self, op):
        i = op["i"]
        if i >= len(self.net) or self.net[i][0] != "ctrl" or len(self.net[i][1]) != 3:
            return
        fr = self.net[i] if op["dup"] else self.net.pop(i)
        self.ctrl.socket.queue.append(list(fr[1]))
        self.cur = 0
        self.cur_job = None
        m = self.ctrl._recv_one(0)
        if m is not None:
            self.events.append({"e": "ctrlGot", "p": self.pay_json(m)})
            self.observations.append({"kind": "ctrl-got", "ds": self.dsno(m.header.ds), "idx": m.header.confirm_idx,
                                      "value": bytes(m.value), "deser": m.header.deser_fun, "op": self.opno})

    # ---- abstraction (same shape as Drive/C07.lean prints)
    def cmd_json(self, c):
        return {"source": self.hid(c.source), "target": self.hid(c.target), "daddr": self.aid(c.daddress),
                "ds": self.dsno(c.ds), "idx": c.idx}

    def pay_json(self, p):
        return {"ca": self.aid(p.header.confirm_address), "ci": p.header.confirm_idx, "ds": self.dsno(p.header.ds),
                "deser": p.header.deser_fun, "value": bytes(p.value).hex()}

    def msg_json(self, m):
        M = self.M
        if isinstance(m, M.DatasetTransmitCommand):
            return {"k": "cmd", "c": self.cmd_json(m)}
        if isinstance(m, M.Ack):
            return {"k": "ack", "idx": m.idx}
        if isinstance(m, M.DatasetPurge):
            return {"k": "purge", "ds": self.dsno(m.ds)}
        return {"k": "?", "type": type(m).__name__}

    def emsg_json(self, parts):
        M = self.M
        if len(parts) != 1:
            return {"k": "?", "n": len(parts)}
        m = pickle.loads(parts[0])
        if isinstance(m, M.DatasetPublished):
            return {"k": "pub", "ds": self.dsno(m.ds), "idx": m.transmit_idx}
        if isinstance(m, M.DatasetTransmitFailure):
            return {"k": "fail"}
        if isinstance(m, M.DatasetPurge):
            return {"k": "purge", "ds": self.dsno(m.ds)}
        return {"k": "?", "type": type(m).__name__}

    def frame_json(self, fr):
        addr, parts = fr
        if len(parts) == 3:
            syn = pickle.loads(parts[0])
            hd = pickle.loads(parts[1])
            p = self.M.DatasetTransmitPayload(hd, parts[2])
            return {"t": "data", "dst": self.aid(addr), "si": syn.idx, "sa": self.aid(syn.addr), "p": self.pay_json(p)}
        if len(parts) == 1:
            return {"t": "plain", "dst": self.aid(addr), "m": self.msg_json(pickle.loads(parts[0]))}
        return {"t": "?", "dst": self.aid(addr), "n": len(parts)}

    def _sorted_or_repr(self, x, f=lambda v: v):
        try:
            return sorted(f(v) for v in x)
        except Exception:
            return ["?", repr(x)[:200]]

    def acked_json(self, listener):
        """`Listener.acked` as the model has it (a set of Syn(idx, addr)); whatever else a changed __init__ makes of it is
        shown as it is (a disagreement), the run goes on so that the oracle gets to see the history"""
        a = listener.acked
        try:
            return sorted([x.idx, self.aid(x.addr)] for x in a)
        except Exception:
            return ["?", repr(a)[:200]]

    def shm_view(self, h):
        """(store, allocd, other) read from the real Manager and the real segments"""
        store, allocd, other = [], [], []
        for k, ds in self.mgr[h].datasets.items():
            d = self.key2ds.get(k, -1)
            if ds.status.name == "in_memory":
                try:
                    c = self._segcache.get((h, k))
                    if c is None or c[0] is not ds:      # contents are immutable once the writer has closed;
                        c = (ds, self.segment(h, k).hex())   # the oracle re-reads the segments at the end
                        self._segcache[(h, k)] = c
                    store.append([d, c[1], ds.deser_fun])
                except Exception as e:
                    other.append([d, "segment:" + type(e).__name__])
            elif ds.status.name == "created":
                allocd.append(d)
            else:
                other.append([d, ds.status.name])
        return sorted(store), sorted(allocd), sorted(other)

    def shm_view_fresh(self, h):
        """what is REALLY in the store of host h: bytes re-read from the segments"""
        self._segcache = {k: v for k, v in self._segcache.items() if k[0] != h}
        store, allocd, other = self.shm_view(h)
        return {"store": {e[0]: (e[1], e[2]) for e in store}, "allocd": allocd, "other": other}

    def abstract(self):
        M = self.M
        hosts = []
        for h in self.hosts:
            s = self.srv[h]
            futs = []
            for k, f in s.futs_in_progress.items():
                res, stage = None, None
                if f.done():
                    res = "exc" if f.exception() is not None else f.result() // MS
                else:
                    j = self.pools[h].job_of(f)
                    stage = j.stage if j is not None else -1
                futs.append({"key": self.key_json(k), "res": res, "stage": stage})
            store, allocd, other = self.shm_view(h)
            hj = {
                "store": store,
                "awaiting": [[i, self.cmd_json(c), None if at == -1 else at // MS] for i, (c, at) in s.awaiting_confirmation.items()],
                "acks": self._sorted_or_repr(getattr(s, "acks", ())),
                "invalid": self._sorted_or_repr(s.invalid, self.dsno),
                "futs": futs,
                "acked": self.acked_json(s.dlistener),
                "sock": [self.frame_json((self.aname(h), p)) for p in s.dlistener.socket.queue],
                "crashed": self.crashed[h],
                "allocd": allocd,
                "published": sorted(self.dsno(d) for d in self.exe[h].datasets),
                "mbox": [self.emsg_json(p) for p in self.exe[h].mlistener.socket.queue],
            }
            if other:
                hj["shm_other"] = other
            hosts.append(hj)
        return {"hosts": hosts, "net": [self.frame_json(f) for f in self.net], "now": self.now_ms,
                "ctrlAcked": self.acked_json(self.ctrl),
                "events": list(self.events)}

    # ---- end of a case: no thread, no segment left behind
    def close(self):
        if self.closed:
            return
        self.closed = True
        for h in self.hosts:
            for j in list(self.pools[h].jobs):
                if j.thread is not None and not j.finished:
                    j.abort = True
                    j.go.release()
                    j.back.acquire(timeout=5)
            try:
                self.mgr[h].atexit()
            except Exception:
                pass
            pref = self.mgr[h].prefix
            for nm in os.listdir("/dev/shm"):
                if nm.startswith(pref):
                    try:
                        os.unlink("/dev/shm/" + nm)
                    except OSError:
                        pass


def canon_model(out):
    """Canonicalise one output line of the Lean driver the way `World.abstract` does (sets sorted;
    model-internal events the real run cannot observe are dropped)."""
    for h in out["hosts"]:
        h["store"] = sorted(h["store"])
        h["acks"] = sorted(h["acks"])
        h["invalid"] = sorted(h["invalid"])
        h["acked"] = sorted(h["acked"])
        h["allocd"] = sorted(h["allocd"])
        h["published"] = sorted(h["published"])
    out["ctrlAcked"] = sorted(out["ctrlAcked"])
    # `ignored` (a payload of a purged dataset discarded) and `purgeDropped` (a purge the executor did not pass on) ARE
    # compared: the real run observes them at the listeners (World._watch_ds / _watch_ex).  `ackRecv` is not an event
    # of its own on the real side: its effect is the `acks` set, which is part of the compared state.
    out["events"] = [e for e in out["events"] if e["e"] != "ackRecv"]
    return out
