"""C07 simulation: two or three REAL DataServer objects (shells: no sockets, no thread pool, no shm
server) driven one `recv_loop` iteration at a time over a fake network.

What is real:  DataServer.recv_loop / maybe_clean / send_payload / store_payload, comms.Listener
               (_recv_one, recv_messages), comms.send_data / callback, serde (pickle framing), msg.
What is fake:  zmq sockets + poller (in-memory queues), the thread pool (ManualPool: jobs are run when
               the harness says so; `wait` = run the awaited pending jobs), the shm client module
               (dict store: allocate -> ConflictError if the key exists, get, purge -> ValueError if
               the key is unknown, which is what the real client raises on the server's KeyError),
               the clock (data_server.time_ns).
"""
import pickle
from concurrent.futures import ALL_COMPLETED, FIRST_COMPLETED, Future

MS = 1_000_000


class Conflict(Exception):
    pass


class _Buf:
    def __init__(self, world, host, key, l, deser_fun, create):
        self.world, self.host, self.key, self.l, self.deser_fun, self.create = world, host, key, l, deser_fun, create
        self.closed = False
        if create:
            self.data = bytearray(l)
        else:
            self.data = world.stores[host][key][0]

    def view(self):
        return memoryview(self.data) if self.create else memoryview(bytes(self.data)).toreadonly()

    def close(self):
        if self.closed:
            return
        self.closed = True
        w = self.world
        if self.create:
            w.stores[self.host][self.key] = (bytes(self.data), self.deser_fun)
            w.pending_alloc[self.host].discard(self.key)
            w.obs("stored", h=self.host, key=self.key, value=bytes(self.data), deser=self.deser_fun)


class FakeShm:
    """Stands in for the module `cascade.shm.client` inside data_server."""
    ConflictError = Conflict
    AllocatedBuffer = _Buf

    def __init__(self, world):
        self.w = world

    def allocate(self, key, l, deser_fun, timeout_sec=60.0):
        w = self.w
        h = w.cur
        if key in w.stores[h] or key in w.pending_alloc[h]:
            w.obs("conflict", h=h, key=key)
            raise Conflict()
        w.pending_alloc[h].add(key)
        return _Buf(w, h, key, l, deser_fun, True)

    def get(self, key, timeout_sec=60.0):
        w = self.w
        h = w.cur
        if key not in w.stores[h]:
            raise ValueError("KeyError(%r)" % key)
        v, f = w.stores[h][key]
        return _Buf(w, h, key, len(v), f, False)

    def purge(self, key):
        w = self.w
        h = w.cur
        if key not in w.stores[h]:
            raise ValueError("KeyError(%r)" % key)
        w.obs("shm-purge", h=h, key=key,
              pool_pending=[w.job_ds(j) for j in w.pools[h].jobs],
              inprog=[w.key_ds(k) for k in w.srv[h].futs_in_progress])
        del w.stores[h][key]


class OutSocket:
    def __init__(self, world, address):
        self.w, self.address = world, address

    def set(self, *a):
        pass

    def connect(self, a):
        pass

    def send(self, b):
        self.w.route(self.address, [bytes(b)])

    def send_multipart(self, parts):
        self.w.route(self.address, [bytes(p) for p in parts])


class InSocket:
    def __init__(self):
        self.queue = []

    def recv_multipart(self):
        return self.queue.pop(0)


class Poller:
    def __init__(self, sock):
        self.sock = sock

    def poll(self, timeout=None):
        return [(self.sock, 1)] if self.sock.queue else []


class ManualPool:
    def __init__(self, world, host):
        self.w, self.host, self.jobs = world, host, []

    def submit(self, fn, *a):
        f = Future()
        self.jobs.append((f, fn, a))
        self.w.on_submit(self.host, fn, a)
        return f

    def run(self, i):
        f, fn, a = self.jobs.pop(i)
        prev = self.w.cur_job
        self.w.cur_job = (fn.__name__, a)
        try:
            f.set_result(fn(*a))
        except Exception as e:   # never expected: both job bodies catch Exception
            f.set_exception(e)
        finally:
            self.w.cur_job = prev


class World:
    """The real side. `apply(op)` executes one op and returns the abstract state in the model's format."""

    def __init__(self, n, stores):
        import cascade.executor.comms as comms
        import cascade.executor.data_server as dsv
        from cascade.executor import msg as M
        from cascade.executor.runner.memory import ds2shmid
        from cascade.low.core import DatasetId
        self.comms, self.dsv, self.M = comms, dsv, M
        self.DatasetId, self.ds2shmid = DatasetId, ds2shmid
        self.n = n
        self.now_ms = 1
        self.hosts = list(range(1, n + 1))
        self.key2ds = {}
        self.stores = {h: {} for h in self.hosts}
        self.pending_alloc = {h: set() for h in self.hosts}
        for h, d, v, f in stores:
            self.stores[h][self.key(d)] = (bytes.fromhex(v), f)
        self.net = []            # [(address, [frames])]
        self.events = []         # model-comparable events of the current op
        self.observations = []   # raw observations for the oracle (whole history)
        self.cur = None
        self.cur_job = None
        self.sched = []
        self.crashed = {h: False for h in self.hosts}
        self.seen_submit = {h: set() for h in self.hosts}
        self.opno = 0
        # ---- module globals replaced
        comms.get_socket = lambda address: OutSocket(self, address)
        dsv.time_ns = lambda: self.now_ms * MS
        dsv.shm_client = FakeShm(self)
        dsv.wait = self.fake_wait
        dsv.mark = lambda *a, **k: None
        world = self

        class Shell(dsv.DataServer):
            @property
            def terminating(s):
                if s._arm > 0:
                    s._arm -= 1
                    return False
                return True

            @terminating.setter
            def terminating(s, v):
                pass

        self.srv, self.pools = {}, {}
        for h in self.hosts:
            s = object.__new__(Shell)
            s._arm = 0
            s.host = self.hname(h)
            s.maddress = "m:" + self.hname(h)
            s.daddress = self.aname(h)
            s.dlistener = self.mk_listener(self.aname(h))
            s.cap = 2
            self.pools[h] = ManualPool(self, h)
            s.ds_proc_tp = self.pools[h]
            s.futs_in_progress = {}
            s.awaiting_confirmation = {}
            s.invalid = set()
            s.acks = set()
            self.srv[h] = s
        self.ctrl = self.mk_listener("ctrl")

    # ---- naming
    def hname(self, h):
        return "controller" if h == 0 else "h%d" % h

    def hid(self, name):
        return 0 if name == "controller" else int(name[1:]) if name[0] == "h" and name[1:].isdigit() else 999

    def aname(self, a):
        return "ctrl" if a == 0 else "d:h%d" % a

    def aid(self, addr):
        if addr == "ctrl":
            return 0
        if addr.startswith("d:h"):
            return int(addr[3:])
        return 999

    def dsid(self, d):
        return self.DatasetId("t", str(d))

    def dsno(self, ds):
        return int(ds.output)

    def key(self, d):
        k = self.ds2shmid(self.dsid(d))
        self.key2ds[k] = d
        return k

    def mk_listener(self, address):
        l = object.__new__(self.comms.Listener)
        l.address = address
        l.socket = InSocket()
        l.poller = Poller(l.socket)
        l.acked = set()
        return l

    # ---- instrumentation
    def obs(self, kind, **kw):
        kw["kind"] = kind
        kw["op"] = self.opno
        self.observations.append(kw)
        h = kw.get("h")
        if kind == "stored":
            idx = self.cur_job[1][0].header.confirm_idx if self.cur_job and self.cur_job[0] == "store_payload" else -1
            kw["idx"] = idx
            self.events.append({"e": "stored", "h": h, "ds": self.key2ds.get(kw["key"], -1), "idx": idx,
                                "value": kw["value"].hex(), "deser": kw["deser"]})
        elif kind == "conflict":
            idx = self.cur_job[1][0].header.confirm_idx if self.cur_job and self.cur_job[0] == "store_payload" else -1
            self.events.append({"e": "redundant", "h": h, "ds": self.key2ds.get(kw["key"], -1), "idx": idx})
        elif kind == "shm-purge":
            d = self.key2ds.get(kw["key"], -1)
            self.events.append({"e": "purged", "h": h, "ds": d, "inprog": sum(1 for x in kw["inprog"] if x == d)})

    def key_ds(self, k):
        M = self.M
        if isinstance(k, M.DatasetTransmitCommand):
            return self.dsno(k.ds)
        return self.dsno(k.header.ds)

    def job_ds(self, job):
        return self.key_ds(job[2][0])

    def on_submit(self, h, fn, a):
        if fn.__name__ == "send_payload":
            c = a[0]
            retry = c.idx in self.seen_submit[h]
            self.seen_submit[h].add(c.idx)
            self.events.append({"e": "submit", "h": h, "idx": c.idx, "ds": self.dsno(c.ds), "retry": retry})
            self.observations.append({"kind": "submit-send", "h": h, "idx": c.idx, "ds": self.dsno(c.ds), "retry": retry, "op": self.opno})

    def route(self, address, parts):
        M = self.M
        if address.startswith("m:"):
            m = pickle.loads(parts[0])
            h = int(address[3:])
            if isinstance(m, M.DatasetPublished):
                self.events.append({"e": "announced", "h": h, "ds": self.dsno(m.ds), "idx": m.transmit_idx})
                self.observations.append({"kind": "announced", "h": h, "ds": self.dsno(m.ds), "idx": m.transmit_idx,
                                          "origin": m.origin, "op": self.opno})
            elif isinstance(m, M.DatasetTransmitFailure):
                if self.cur_job and self.cur_job[0] == "send_payload":
                    self.events.append({"e": "sendFail", "h": h, "idx": self.cur_job[1][0].idx})
                else:
                    self.events.append({"e": "failure", "h": h, "detail": m.detail[:80]})
                self.observations.append({"kind": "failure", "h": h, "detail": m.detail, "op": self.opno})
            else:
                self.events.append({"e": "callback?", "h": h, "type": type(m).__name__})
            return
        self.net.append((address, parts))
        if len(parts) == 3 and self.cur_job and self.cur_job[0] == "send_payload":
            hd = pickle.loads(parts[1])
            c = self.cur_job[1][0]
            self.events.append({"e": "sent", "h": self.cur, "idx": c.idx, "ds": self.dsno(hd.ds), "value": parts[2].hex(), "deser": hd.deser_fun})
            self.observations.append({"kind": "sent", "h": self.cur, "idx": c.idx, "ds": self.dsno(hd.ds), "value": parts[2],
                                      "deser": hd.deser_fun, "to": address, "op": self.opno})

    def fake_wait(self, futs, timeout=None, return_when=ALL_COMPLETED):
        futs = list(futs)
        pool = self.pools[self.cur]

        def cands():
            return [i for i, j in enumerate(pool.jobs) if any(j[0] is f for f in futs)]
        if return_when == FIRST_COMPLETED:
            if any(f.done() for f in futs):
                return
            c = cands()
            if c:
                k = self.sched.pop(0) if self.sched else 0
                pool.run(c[k % len(c)])
            return
        while True:
            c = cands()
            if not c:
                return
            k = self.sched.pop(0) if self.sched else 0
            pool.run(c[k % len(c)])

    # ---- ops
    def mk_cmd(self, c):
        return self.M.DatasetTransmitCommand(source=self.hname(c["source"]), target=self.hname(c["target"]),
                                             daddress=self.aname(c["daddr"]), ds=self.dsid(c["ds"]), idx=c["idx"])

    def apply(self, op):
        self.opno += 1
        self.events = []
        k = op["op"]
        try:
            if k == "tick":
                self._tick(op)
            elif k == "job":
                h = op["h"]
                if not self.crashed[h] and self.pools[h].jobs:
                    self.cur = h
                    self.pools[h].run(op["c"] % len(self.pools[h].jobs))
            elif k == "adv":
                self.now_ms += op["d"]
            elif k == "drop":
                if op["i"] < len(self.net):
                    a, parts = self.net.pop(op["i"])
                    self.observations.append({"kind": "dropped", "op": self.opno})
            elif k == "ctrl":
                self._ctrl(op)
        except Exception as e:   # harness-level surprise: make it visible in the comparison
            self.events.append({"e": "harness-exception", "what": "%s: %s" % (type(e).__name__, e)})
        return self.abstract()

    def _tick(self, op):
        h = op["h"]
        srv = self.srv[h]
        M = self.M
        for inp in op["inputs"]:
            if inp["k"] == "frame":
                i = inp["i"]
                if i < len(self.net) and self.net[i][0] == self.aname(h):
                    fr = self.net[i] if inp["dup"] else self.net.pop(i)
                    srv.dlistener.socket.queue.append(list(fr[1]))
                    self.observations.append({"kind": "fed", "h": h, "frame": self.frame_json(fr), "dup": inp["dup"], "op": self.opno})
            elif inp["k"] == "cmd":
                c = self.mk_cmd(inp)
                srv.dlistener.socket.queue.append([pickle.dumps(c)])
                self.observations.append({"kind": "cmd", "h": h, "c": dict(inp), "op": self.opno})
            else:
                srv.dlistener.socket.queue.append([pickle.dumps(M.DatasetPurge(ds=self.dsid(inp["ds"])))])
                self.observations.append({"kind": "purge-cmd", "h": h, "ds": inp["ds"], "op": self.opno})
        if self.crashed[h]:
            return
        self.cur = h
        self.sched = list(op.get("sched", []))
        self.observations.append({"kind": "tick-begin", "h": h, "op": self.opno, "now": self.now_ms,
                                  "awaiting": {i: (self.dsno(c.ds), at) for i, (c, at) in srv.awaiting_confirmation.items()},
                                  "acks": set(srv.acks), "invalid": {self.dsno(d) for d in srv.invalid},
                                  "sock": [self.frame_json((self.aname(h), p)) for p in srv.dlistener.socket.queue]})
        srv._arm = 1
        try:
            srv.recv_loop()
        except Exception as e:
            self.crashed[h] = True
            s = str(e)
            why = (1 if "transmit idx conflict" in s else 2 if "unexpected transmit command" in s else
                   3 if "asked for retry" in s else 4 if (isinstance(e, ValueError) and s.startswith("KeyError")) else
                   5 if isinstance(e, KeyError) else 99)
            ev = {"e": "crashed", "h": h, "why": why}
            if why == 99:
                ev["what"] = "%s: %s" % (type(e).__name__, s[:100])
            self.events.append(ev)
            self.observations.append({"kind": "crashed", "h": h, "why": why, "what": s[:200], "op": self.opno})
        self.observations.append({"kind": "tick-end", "h": h, "op": self.opno, "sock_left": len(srv.dlistener.socket.queue)})

    def _ctrl(self, op):
        i = op["i"]
        if i >= len(self.net) or self.net[i][0] != "ctrl" or len(self.net[i][1]) != 3:
            return
        fr = self.net[i] if op["dup"] else self.net.pop(i)
        self.ctrl.socket.queue.append(list(fr[1]))
        self.cur = 0
        m = self.ctrl._recv_one(0)
        if m is not None:
            self.events.append({"e": "ctrlGot", "p": self.pay_json(m)})
            self.observations.append({"kind": "ctrl-got", "ds": self.dsno(m.header.ds), "idx": m.header.confirm_idx,
                                      "value": bytes(m.value), "deser": m.header.deser_fun, "op": self.opno})

    # ---- abstraction (same shape as Drive/C07.lean prints)
    def cmd_json(self, c):
        return {"source": self.hid(c.source), "target": self.hid(c.target), "daddr": self.aid(c.daddress),
                "ds": self.dsno(c.ds), "idx": c.idx}

    def pay_json(self, p):
        return {"ca": self.aid(p.header.confirm_address), "ci": p.header.confirm_idx, "ds": self.dsno(p.header.ds),
                "deser": p.header.deser_fun, "value": bytes(p.value).hex()}

    def msg_json(self, m):
        M = self.M
        if isinstance(m, M.DatasetTransmitCommand):
            return {"k": "cmd", "c": self.cmd_json(m)}
        if isinstance(m, M.Ack):
            return {"k": "ack", "idx": m.idx}
        if isinstance(m, M.DatasetPurge):
            return {"k": "purge", "ds": self.dsno(m.ds)}
        return {"k": "?", "type": type(m).__name__}

    def frame_json(self, fr):
        addr, parts = fr
        if len(parts) == 3:
            syn = pickle.loads(parts[0])
            hd = pickle.loads(parts[1])
            p = self.M.DatasetTransmitPayload(hd, parts[2])
            return {"t": "data", "dst": self.aid(addr), "si": syn.idx, "sa": self.aid(syn.addr), "p": self.pay_json(p)}
        if len(parts) == 1:
            return {"t": "plain", "dst": self.aid(addr), "m": self.msg_json(pickle.loads(parts[0]))}
        return {"t": "?", "dst": self.aid(addr), "n": len(parts)}

    def abstract(self):
        M = self.M
        hosts = []
        for h in self.hosts:
            s = self.srv[h]
            futs = []
            for k, f in s.futs_in_progress.items():
                if isinstance(k, M.DatasetTransmitCommand):
                    kj = {"k": "cmd", "c": self.cmd_json(k)}
                else:
                    kj = {"k": "pay", "p": self.pay_json(k)}
                res = None
                if f.done():
                    res = ("exc:" + repr(f.exception())) if f.exception() else f.result() // MS
                futs.append({"key": kj, "res": res})
            hosts.append({
                "store": sorted([self.key2ds.get(k, -1), v.hex(), f] for k, (v, f) in self.stores[h].items()),
                "awaiting": [[i, self.cmd_json(c), None if at == -1 else at // MS] for i, (c, at) in s.awaiting_confirmation.items()],
                "acks": sorted(s.acks),
                "invalid": sorted(self.dsno(d) for d in s.invalid),
                "futs": futs,
                "acked": sorted([x.idx, self.aid(x.addr)] for x in s.dlistener.acked),
                "sock": [self.frame_json((self.aname(h), p)) for p in s.dlistener.socket.queue],
                "crashed": self.crashed[h],
            })
        return {"hosts": hosts, "net": [self.frame_json(f) for f in self.net], "now": self.now_ms,
                "ctrlAcked": sorted([x.idx, self.aid(x.addr)] for x in self.ctrl.acked),
                "events": list(self.events)}


def canon_model(out):
    """Canonicalise one output line of the Lean driver the way `World.abstract` does (sets sorted;
    model-internal events the real run cannot observe are dropped)."""
    for h in out["hosts"]:
        h["store"] = sorted(h["store"])
        h["acks"] = sorted(h["acks"])
        h["invalid"] = sorted(h["invalid"])
        h["acked"] = sorted(h["acked"])
    out["ctrlAcked"] = sorted(out["ctrlAcked"])
    out["events"] = [e for e in out["events"] if e["e"] not in ("ignored", "ackRecv")]
    return out
