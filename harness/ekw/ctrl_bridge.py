"""What the REAL `cascade.executor.bridge.Bridge` makes of the controller's four calls (audit C03 #1, C04 #4/#8): the
commands of C02–C04 are observed by SimBridge at the Bridge API; the last step to the wire — which executor process a
command is routed to and which addresses / indices it carries — is the real Bridge's. This module drives the real
`Bridge.task_sequence / transmit / fetch / purge / shutdown` on a shell object (no sockets: `sender` is a recorder) and
checks, from the meaning of the commands only:

  * a task sequence goes to the executor of the worker's host, unchanged (worker, tasks, publish);
  * a purge of (host, ds) goes to the EXECUTOR of that host (which forwards it to its workers and its data server);
  * a transmit (ds, source, target) goes to the DATA SERVER of the source, names source and target, carries the data
    address of the TARGET's data server and a fresh index;
  * a fetch (ds, source) goes to the data server of the source, target "controller", carries the controller's address;
  * indices of transmit/fetch commands are pairwise distinct (the answer `DatasetPublished(transmit_idx)` identifies them);
  * shutdown sends ExecutorShutdown to every registered executor (and not to the data servers).
"""


class _Sock:
    pass


class _Sender:
    def __init__(self, hosts):
        self.hosts = hosts
        self.sent = []

    def send(self, host, m):
        self.sent.append((host, m))


class _Listener:
    address = "tcp://controller:5555"

    def recv_messages(self, timeout_ms=None):
        return []


def check_bridge(rng, n_calls=30):
    """returns (failures, counts): failures = list of (kind, detail)"""
    import cascade.executor.bridge as B
    from cascade.executor.msg import DatasetPurge, DatasetTransmitCommand, ExecutorShutdown, TaskSequence
    from cascade.low.core import DatasetId, WorkerId

    H = rng.randint(1, 4)
    hosts = {}
    for h in range(H):
        hosts[f"h{h}"] = (_Sock(), f"tcp://h{h}:1000")
        hosts[f"data.h{h}"] = (_Sock(), f"tcp://h{h}:2000")
    br = object.__new__(B.Bridge)
    br.sender = _Sender(hosts)
    br.mlistener = _Listener()
    br.transmit_idx_counter = 0
    fails, counts, idxs = [], {}, []

    def bump(k):
        counts[k] = counts.get(k, 0) + 1

    for _ in range(n_calls):
        kind = rng.choice(["task", "transmit", "fetch", "purge"])
        ds = DatasetId(f"t{rng.randrange(5)}", rng.choice(["0", "a", "b"]))
        src, tgt = f"h{rng.randrange(H)}", f"h{rng.randrange(H)}"
        before = len(br.sender.sent)
        try:
            if kind == "task":
                w = WorkerId(src, f"w{rng.randrange(3)}")
                ts = TaskSequence(worker=w, tasks=[ds.task], publish={ds, DatasetId(ds.task, "z")})
                br.task_sequence(ts)
                exp = [(src, ts)]
            elif kind == "transmit":
                br.transmit(ds, src, tgt)
                exp = None
            elif kind == "fetch":
                br.fetch(ds, src)
                exp = None
            else:
                br.purge(src, ds)
                exp = [(src, DatasetPurge(ds=ds))]
        except Exception as e:
            fails.append(("bridge-call-raised", [kind, repr(e)[:120]]))
            continue
        new = br.sender.sent[before:]
        bump("bridge_" + kind)
        if len(new) != 1:
            fails.append(("bridge-message-count", [kind, len(new)]))
            continue
        to, m = new[0]
        if exp is not None:
            if (to, m) != exp[0]:
                fails.append(("bridge-routing", [kind, to, repr(m)[:160], "expected", exp[0][0]]))
            continue
        if not isinstance(m, DatasetTransmitCommand):
            fails.append(("bridge-routing", [kind, to, repr(m)[:160]]))
            continue
        idxs.append(m.idx)
        want_to = "data." + src
        want_target = tgt if kind == "transmit" else "controller"
        want_addr = hosts["data." + tgt][1] if kind == "transmit" else _Listener.address
        if to != want_to or m.source != src or m.target != want_target or m.ds != ds or m.daddress != want_addr:
            fails.append(("bridge-routing", [kind, to, repr(m)[:200], "expected", want_to, src, want_target, want_addr]))
    if len(set(idxs)) != len(idxs):
        fails.append(("bridge-transmit-idx-reused", sorted(idxs)))
    # shutdown: every executor gets ExecutorShutdown, no data server does; the loop that waits for the exits is cut
    # short by emptying `hosts` from the recorder's side after the sends
    before = len(br.sender.sent)
    try:
        real_hosts = dict(br.sender.hosts)
        # Bridge.shutdown loops `while self.sender.hosts and time < grace`: hand it a listener that reports every exit
        from cascade.executor.msg import ExecutorExit

        class _ExitListener(_Listener):
            def recv_messages(self, timeout_ms=None):
                return [ExecutorExit(host=h) for h in list(real_hosts) if not h.startswith("data.")]
        br.mlistener = _ExitListener()
        br.shutdown()
        new = br.sender.sent[before:]
        got = sorted(to for to, m in new if isinstance(m, ExecutorShutdown))
        want = sorted(h for h in real_hosts if not h.startswith("data."))
        bump("bridge_shutdown")
        if got != want or any(not isinstance(m, ExecutorShutdown) for _, m in new):
            fails.append(("bridge-shutdown-routing", [got, want]))
    except Exception as e:
        fails.append(("bridge-call-raised", ["shutdown", repr(e)[:160]]))
    return fails, counts
