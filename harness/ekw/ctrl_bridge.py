"""What the REAL `cascade.executor.bridge.Bridge` makes of the controller's four calls (audit C03 #1, C04 #4/#8): the
commands of C02–C04 are observed by SimBridge at the Bridge API; the last step to the wire — which executor process a
command is routed to and which addresses / indices it carries — is the real Bridge's. This module drives the real
`Bridge.task_sequence / transmit / fetch / purge / shutdown` on a shell object (no sockets: `sender` is a recorder) and
checks, from the meaning of the commands only:

  * a task sequence goes to the executor of the worker's host, unchanged (worker, tasks, publish);
  * a purge of (host, ds) goes to the EXECUTOR of that host (which forwards it to its workers and its data server);
  * a transmit (ds, source, target) goes to the DATA SERVER of the source, names source and target, carries the data
    address of the TARGET's data server and a fresh index;
  * a fetch (ds, source) goes to the data server of the source, target "controller", carries the controller's address;
  * indices of transmit/fetch commands are pairwise distinct (the answer `DatasetPublished(transmit_idx)` identifies them);
  * shutdown sends ExecutorShutdown to every registered executor (and not to the data servers).
"""


class _Sock:
    pass


def real_bridge_init(batches, expected=None, controller_url="tcp://controller:5555"):
    """the REAL `Bridge.__init__` driven with fake registration traffic: `batches` = what successive
    `Listener.recv_messages` calls return (lists of ExecutorRegistration messages). Returns (Environment, bridge)."""
    import cascade.executor.bridge as B

    class L:
        def __init__(self, url):
            self.address = url
            self.script = [list(b) for b in batches]

        def recv_messages(self, timeout_ms=None):
            return self.script.pop(0) if self.script else []

    class Snd:
        def __init__(self, address, resend):
            self.hosts = {}
            self.sent = []

        def add_host(self, host, address):
            self.hosts[host] = (_Sock(), address)

        def send(self, host, m):
            self.sent.append((host, m))

    saved = (B.Listener, B.ReliableSender)
    B.Listener, B.ReliableSender = L, Snd
    was = B.logger.disabled
    B.logger.disabled = True        # "double registration ..." warnings of the scripted traffic
    try:
        hosts = []
        for b in batches:
            for m in b:
                if m.host not in hosts:
                    hosts.append(m.host)
        br = B.Bridge(controller_url, len(hosts) if expected is None else expected)
        return br.get_environment(), br
    finally:
        B.Listener, B.ReliableSender = saved
        B.logger.disabled = was


def check_bridge_init(rng):
    """What the controller believes about the cluster (audit C02 probe G): 1-4 hosts with 1-13 workers and 0..n+1 GPUs each
    build their ExecutorRegistration with the REAL Executor.__init__; the messages reach the REAL Bridge.__init__ in
    random batches, with empty polls and repeated registrations in between. From the meaning of a registration only: the
    Environment lists exactly the registered workers, each with the cpu / gpu / memory figures its executor registered
    (gpu = 1 exactly for the workers with index < CASCADE_GPU_COUNT of that host), and the routing table holds the
    executor's and the data server's addresses of every host."""
    from ekw import c02_exec
    fails, counts = [], {}
    H = rng.randint(1, 4)
    regs, want, shape = [], {}, {}
    for h in range(H):
        nw = rng.choice([1, 2, 3, rng.randint(4, 13)])
        gpus = rng.choice([0, 0, 1, nw, rng.randint(0, nw + 1)])
        m = c02_exec.real_registration(nw, gpus, host=f"h{h}", full=True)
        regs.append(m)
        shape[f"h{h}"] = [h, nw, gpus]
        for idx in range(nw):
            want[(f"h{h}", idx)] = (1 if idx < gpus else 0)
        counts["bridge_init_workers"] = counts.get("bridge_init_workers", 0) + nw
        if 0 < gpus < nw:
            counts["bridge_init_hosts_with_gpu_and_cpu_workers"] = counts.get("bridge_init_hosts_with_gpu_and_cpu_workers", 0) + 1
    order = list(regs)
    rng.shuffle(order)
    stream = []
    for m in order:
        stream.append(m)
        if rng.random() < 0.3:
            stream.append(rng.choice(stream))          # a registration that arrives twice
            counts["bridge_init_double_registrations"] = counts.get("bridge_init_double_registrations", 0) + 1
    counts["_model_line"] = {"op": "bridge_init", "regs": [shape[m.host] for m in stream]}    # delivery order, repeats included
    batches = []
    while stream:
        if rng.random() < 0.2:
            batches.append([])
        k = rng.randint(1, min(3, len(stream)))
        batches.append(stream[:k])
        stream = stream[k:]
    counts["bridge_init"] = 1
    try:
        env, br = real_bridge_init(batches, expected=H)
    except Exception as e:
        return [("bridge-init-raised", repr(e)[:160])], counts
    # for the comparison with Model/BridgeInit.lean: the Environment in dict (insertion) order, the executor entries of the routing table
    counts["_impl"] = {"env": [[int(w.host[1:]), w.worker_num(), int(v.gpu)] for w, v in env.workers.items()],
                       "hosts": [int(h[1:]) for h in br.sender.hosts if not h.startswith("data.")]}
    got = {(w.host, w.worker_num()): v for w, v in env.workers.items()}
    if sorted(got) != sorted(want):
        fails.append(("bridge-environment-worker-set", [sorted(got), sorted(want)]))
    reg_of = {(m.host, w.worker_id.worker_num()): w for m in regs for w in m.workers}
    for k in sorted(want):
        if k not in got:
            continue
        if int(got[k].gpu) != want[k]:
            fails.append(("bridge-environment-gpu-flag", [list(k), "controller believes gpu=%s" % got[k].gpu, "executor registered gpu=%d" % want[k]]))
            break
    for k in sorted(want):
        if k in got and k in reg_of and (got[k].cpu, got[k].memory_mb) != (reg_of[k].cpu, reg_of[k].memory_mb):
            fails.append(("bridge-environment-cpu-or-memory", [list(k), [got[k].cpu, got[k].memory_mb], [reg_of[k].cpu, reg_of[k].memory_mb]]))
            break
    for m in regs:
        if br.sender.hosts.get(m.host, (None, None))[1] != m.maddress or br.sender.hosts.get("data." + m.host, (None, None))[1] != m.daddress:
            fails.append(("bridge-init-routing-table", [m.host, repr(br.sender.hosts.get(m.host))[:80], repr(br.sender.hosts.get("data." + m.host))[:80]]))
            break
    if sorted(br.heartbeat_checker) != sorted(m.host for m in regs):
        fails.append(("bridge-init-heartbeat-table", sorted(br.heartbeat_checker)))
    return fails, counts


class _Sender:
    def __init__(self, hosts):
        self.hosts = hosts
        self.sent = []

    def send(self, host, m):
        self.sent.append((host, m))


class _Listener:
    address = "tcp://controller:5555"

    def recv_messages(self, timeout_ms=None):
        return []


def check_bridge(rng, n_calls=30):
    """returns (failures, counts): failures = list of (kind, detail)"""
    import cascade.executor.bridge as B
    from cascade.executor.msg import DatasetPurge, DatasetTransmitCommand, ExecutorShutdown, TaskSequence
    from cascade.low.core import DatasetId, WorkerId

    H = rng.randint(1, 4)
    hosts = {}
    for h in range(H):
        hosts[f"h{h}"] = (_Sock(), f"tcp://h{h}:1000")
        hosts[f"data.h{h}"] = (_Sock(), f"tcp://h{h}:2000")
    br = object.__new__(B.Bridge)
    br.sender = _Sender(hosts)
    br.mlistener = _Listener()
    br.transmit_idx_counter = 0
    # Bridge.shutdown addresses the registered executors = the keys of heartbeat_checker (since /repo 269cdbb)
    br.heartbeat_checker = {f"h{h}": object() for h in range(H)}
    fails, counts, idxs = [], {}, []

    def bump(k):
        counts[k] = counts.get(k, 0) + 1

    for _ in range(n_calls):
        kind = rng.choice(["task", "transmit", "fetch", "purge"])
        ds = DatasetId(f"t{rng.randrange(5)}", rng.choice(["0", "a", "b"]))
        src, tgt = f"h{rng.randrange(H)}", f"h{rng.randrange(H)}"
        before = len(br.sender.sent)
        try:
            if kind == "task":
                w = WorkerId(src, f"w{rng.randrange(3)}")
                ts = TaskSequence(worker=w, tasks=[ds.task], publish={ds, DatasetId(ds.task, "z")})
                br.task_sequence(ts)
                exp = [(src, ts)]
            elif kind == "transmit":
                br.transmit(ds, src, tgt)
                exp = None
            elif kind == "fetch":
                br.fetch(ds, src)
                exp = None
            else:
                br.purge(src, ds)
                exp = [(src, DatasetPurge(ds=ds))]
        except Exception as e:
            fails.append(("bridge-call-raised", [kind, repr(e)[:120]]))
            continue
        new = br.sender.sent[before:]
        bump("bridge_" + kind)
        if len(new) != 1:
            fails.append(("bridge-message-count", [kind, len(new)]))
            continue
        to, m = new[0]
        if exp is not None:
            if (to, m) != exp[0]:
                fails.append(("bridge-routing", [kind, to, repr(m)[:160], "expected", exp[0][0]]))
            continue
        if not isinstance(m, DatasetTransmitCommand):
            fails.append(("bridge-routing", [kind, to, repr(m)[:160]]))
            continue
        idxs.append(m.idx)
        want_to = "data." + src
        want_target = tgt if kind == "transmit" else "controller"
        want_addr = hosts["data." + tgt][1] if kind == "transmit" else _Listener.address
        if to != want_to or m.source != src or m.target != want_target or m.ds != ds or m.daddress != want_addr:
            fails.append(("bridge-routing", [kind, to, repr(m)[:200], "expected", want_to, src, want_target, want_addr]))
    if len(set(idxs)) != len(idxs):
        fails.append(("bridge-transmit-idx-reused", sorted(idxs)))
    # shutdown: every executor gets ExecutorShutdown, no data server does; the loop that waits for the exits is cut
    # short by emptying `hosts` from the recorder's side after the sends
    before = len(br.sender.sent)
    try:
        real_hosts = dict(br.sender.hosts)
        # Bridge.shutdown loops `while self.sender.hosts and time < grace`: hand it a listener that reports every exit
        from cascade.executor.msg import ExecutorExit

        class _ExitListener(_Listener):
            def recv_messages(self, timeout_ms=None):
                return [ExecutorExit(host=h) for h in list(real_hosts) if not h.startswith("data.")]
        br.mlistener = _ExitListener()
        br.shutdown()
        new = br.sender.sent[before:]
        got = sorted(to for to, m in new if isinstance(m, ExecutorShutdown))
        want = sorted(h for h in real_hosts if not h.startswith("data."))
        bump("bridge_shutdown")
        if got != want or any(not isinstance(m, ExecutorShutdown) for _, m in new):
            fails.append(("bridge-shutdown-routing", [got, want]))
    except Exception as e:
        fails.append(("bridge-call-raised", ["shutdown", repr(e)[:160]]))
    return fails, counts
