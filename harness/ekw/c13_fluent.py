"""C13/C14 helper: fluent programs — generator, execution on the REAL earthkit.workflows.fluent,
canonical unfolding of the real graph, and the NumPy reference used by the C13 oracle.

A *program* is a list of statements in SSA form (statement k defines variable k):

    {"op": "source", "dims": [["d0", [0, 10]], ...], "base": 0}
    {"op": "map", "a": v, "fn": "neg"|"affine"|"twice", "k": int?, "yields": [name, labels]?}
    {"op": "reduce", "a": v, "fn": "wsum"|"first"|"minmax", "dim": d, "bs": b, "keep": bool, "yields": ...?}
    {"op": "named", "a": v, "name": "sum|prod|min|max|mean|std", "dim": d, "bs": b, "keep": bool, "kw": [[k, v], ...]}
    {"op": "stack"|"concatenate", "a": v, "dim": d, "bs": b, "keep": bool, "axis": int}
    {"op": "flatten", "a": v, "dim": d, "axis": int}
    {"op": "select"|"iselect", "a": v, "dim": d, "val": x | "vals": [x...], "drop": bool}
    {"op": "expand", "a": v, "dim": name | [name, labels], "internal": int, "size": n, "axis": int}
    {"op": "broadcast", "a": v, "b": w}
    {"op": "join", "a": v, "b": w, "dim": name | [name, labels], "match": bool}
    {"op": "arith", "a": v, "fn": "add|subtract|multiply|divide|pow", "b": w | "scalar": k}
    {"op": "transform", "a": v, "func": "mul"|"seldrop"|"sel"|"take", "params": [...], "dim": ..., "axis": int, "fdim": d?}
    {"op": "transform", "a": v, "func": "lookup", "r": [w...], "params": [i...], ...}   (C14: func hands back the existing action r[i])
    {"op": "map", "a": v, "fn": "keep", "static": spec}    (C14: static arguments of other types, see make_static)
    {"op": "alias", "a": v, "how": "select"|"iselect"}     (C14: a.select({}) — documented to hand back the action itself)
    map / reduce with "share": n                             (C14: ONE Payload object per n and build, passed to several operations)
C13 extensions (generated only with Gen(ext=True); C14 keeps the statement kinds above):
    {"op": "mapn", "a": v, "shape": [..], "ks": [k per position, row-major], "as": "ndarray"|"list"}  map(array of payloads affine(k))
    {"op": "selectn", "a": v, "how": "select"|"iselect", "crit": [[d, "val"|"vals", x], ...], "drop": bool,
                      "via": "dict"|"kwargs"|"mixed", "alias": bool}      several criteria; **kwargs; sel / isel
    expand with "internal": int | str, or "icoord": [name, [values]] instead; "kw": [[k, v]...] (backend_kwargs); "size": null
    broadcast with "exclude": [names]
    stack / concatenate / flatten with "kw": [[k, v]...] (backend_kwargs), negative "axis"
    named with "kw": [["keepdims", 0|1]] besides [["axis", n]]; an EMPTY kw calls the method without backend_kwargs (its default)
    family "repeat": the same operation twice with different backend arguments (axis / backend_kwargs), chained or side by side
    any statement with "reg": name     the operation is called through the registered-action wrapper a.<name>.<method>(...)
    program flag "xr": true            source values are xarray DataArrays (internal dims i0, i1, ... with coordinates): the
                                       xarray backend is dispatched
Second audit (ext only):
    named / reduce / flatten with "dim": null        the argument is OMITTED in the call (a.mean(), a.reduce(f), a.flatten());
                                                     "dim": "" passes the signature default explicitly
    arith pow with "scalar" in {0, 1, 2, 3, 4, -1}   and 0.5 on float values (never an integral float: the tie writes 2.0 as "2.0")
    program flag "dtype": "float32"|"int64"|"int32"  inputs of that NumPy type (plain arrays then run in float mode)
    program flag "family": "long-dimension"          one dimension of 8..12 elements, first reduced in batches of 2 or 3

Nothing here depends on the Lean model.
"""
from __future__ import annotations

import functools
import warnings
from fractions import Fraction

import numpy as np

warnings.filterwarnings("ignore")

OPAQUE = "<opaque>"

# ----------------------------------------------------------------------------- payload functions


def srcfn(i):  # replaced per run by an evaluator-side table: the value of source i
    raise RuntimeError("source payloads are evaluated by the interpreter")


def neg(x):
    return -x


def affine(x, k):
    return x * k + 1


def twice(x):
    yield x
    yield 2 * x


def wsum(*xs):
    """order-sensitive, not batchable: sum_i (i+1) * x_i"""
    r = xs[0]
    for i, x in enumerate(xs[1:], start=2):
        r = r + i * x
    return r


def first(*xs):
    """batchable: the first of the firsts is the first"""
    return xs[0]


first.batchable = True  # type: ignore[attr-defined]


def minmax(*xs):
    yield functools.reduce(np.minimum, xs)
    yield functools.reduce(np.maximum, xs)


def _make_scale(k):
    def scale(x):          # two different functions, both with __name__ == "scale"
        return x * k
    return scale


# C14: callables that differ although their __name__ is the same
lam1 = lambda x: x + 1      # noqa: E731
lam2 = lambda x: x * 2      # noqa: E731
dupA = _make_scale(3)
dupB = _make_scale(5)
rlam1 = lambda *xs: xs[0]       # noqa: E731
rlam2 = lambda *xs: xs[-1]      # noqa: E731

def keep(x, *statics, **options):
    """C14: a callable that takes any static arguments"""
    return x


class Config:
    """C14: a user-defined object without __repr__ (its repr shows its address)"""

    def __init__(self, level):
        self.level = level


# statics are created once per process (a configuration object, a weights array that a script passes to several products)
_BIG_A = np.zeros(2000)
_BIG_B = np.zeros(2000)
_BIG_B[1000] = 1.0
_CONFIGS = {}


def make_static(spec):
    """(args, kwargs) of a payload from a JSON description:
    {"int": 3} | {"big": "A"|"B"} (2000-element arrays that differ at index 1000) | {"config": n} (one Config object per n and
    process) | {"newconfig": n} (a new Config object per call) | {"kwdict": {...}} | {"kwlist": [...]} | {"nested": [..]} |
    {"float": x} | {"bool": b} | {"mixed": [[type, value]…]} | {"tuple": [[type, value]…]} | {"set": [..]} | {"frozenset": [..]} |
    {"kwset": [..]} | {"nestedset": [..]}"""
    kind, val = next(iter(spec.items()))
    if kind == "int":
        return ("input0", val), {}
    if kind == "big":
        return ("input0", _BIG_A if val == "A" else _BIG_B), {}
    if kind == "config":
        return ("input0", _CONFIGS.setdefault(val, Config(val))), {}
    if kind == "newconfig":
        return ("input0", Config(val)), {}
    if kind == "kwdict":
        return ("input0",), {"opts": dict(val)}
    if kind == "kwlist":
        return ("input0",), {"opts": list(val)}
    if kind == "nested":
        return ("input0", [list(x) if isinstance(x, list) else x for x in val]), {}
    # C14 (second audit): scalars of different types that compare equal (2, 2.0, True), unordered containers
    if kind == "float":
        return ("input0", float(val)), {}
    if kind == "bool":
        return ("input0", bool(val)), {}
    if kind == "mixed":          # a list given as [["i", 2], ["f", 2.0], ["b", 1], ["s", "x"], ["n", 0]]
        return ("input0", [_typed(t, v) for t, v in val]), {}
    if kind == "tuple":
        return ("input0", tuple(_typed(t, v) for t, v in val)), {}
    if kind == "set":            # built in the listed order: the iteration order of the set is the interpreter's business
        return ("input0", set(val)), {}
    if kind == "frozenset":
        return ("input0", frozenset(val)), {}
    if kind == "kwset":
        return ("input0",), {"params": set(val)}
    if kind == "nestedset":
        return ("input0", [set(val), len(val)]), {"opts": {"levels": frozenset(val)}}
    raise ValueError(spec)


def _typed(t, v):
    return {"i": int, "f": float, "b": bool, "s": str, "n": lambda _: None}[t](v)


CUSTOM = {"keep": keep, "neg": neg, "affine": affine, "twice": twice, "wsum": wsum, "first": first, "minmax": minmax,
          "lam1": lam1, "lam2": lam2, "dupA": dupA, "dupB": dupB, "rlam1": rlam1, "rlam2": rlam2}


def err_class(e: BaseException) -> str:
    if isinstance(e, KeyError):
        return "key"
    if isinstance(e, IndexError):
        return "index"
    if isinstance(e, AssertionError):
        return "assert"
    if isinstance(e, TypeError):
        return "type"
    if isinstance(e, NotImplementedError):
        return "notimpl"
    if isinstance(e, ValueError):
        return "value"
    return "other"


# ----------------------------------------------------------------------------- real execution

def _dimarg(d):
    return d if isinstance(d, str) else (d[0], list(d[1]))


_SHARED_PAYLOADS = {}     # (id(env), n) -> Payload object, per build


def _shared_payload(st, env, payload):
    """C14: a user may keep one Payload object and pass it to several operations"""
    from earthkit.workflows import fluent as fl
    key = (id(env), st["share"])
    if key not in _SHARED_PAYLOADS:
        _SHARED_PAYLOADS[key] = payload if isinstance(payload, fl.Payload) else fl.Payload(payload)
    return _SHARED_PAYLOADS[key]


def exec_stmt(st, env):
    """Apply one statement to the REAL fluent API. env: list of Action | None. Returns Action."""
    from earthkit.workflows import backends
    from earthkit.workflows import fluent as fl

    op = st["op"]
    if not env:
        for key in [k for k in _SHARED_PAYLOADS if k[0] == id(env)]:
            del _SHARED_PAYLOADS[key]
    if op == "source":
        dims = [d for d, _ in st["dims"]]
        shape = tuple(len(l) for _, l in st["dims"])
        arr = np.empty(shape, dtype=object)
        for i, idx in enumerate(np.ndindex(*shape)):
            arr[idx] = functools.partial(srcfn, st["base"] + i)
        return fl.from_source(arr, dims=dims, coords={d: list(l) for d, l in st["dims"]})
    a = env[st["a"]]
    if "reg" in st:
        # the same operation through the registered-action wrapper: a.<name>.<method>(...) casts to the registered class and back
        _ensure_registered()
        a = getattr(a, st["reg"])
    if op == "mapn":
        shape = tuple(st["shape"])
        arr = np.empty(shape, dtype=object)
        for i, idx in enumerate(np.ndindex(*shape)):
            arr[idx] = fl.Payload(affine, args=("input0", st["ks"][i]))
        return a.map(arr.tolist() if st.get("as") == "list" else arr)
    if op == "selectn":
        crit = [(d, (x if kind == "val" else list(x))) for d, kind, x in st["crit"]]
        meth = {"select": "sel", "iselect": "isel"}[st["how"]] if st.get("alias") else st["how"]
        via = st.get("via", "dict")
        if via == "kwargs":
            return getattr(a, meth)(drop=st["drop"], **dict(crit))
        if via == "mixed":
            return getattr(a, meth)(dict(crit[:1]), drop=st["drop"], **dict(crit[1:]))
        return getattr(a, meth)(dict(crit), drop=st["drop"])
    if op == "map":
        fn = CUSTOM[st["fn"]]
        payload = fl.Payload(fn, args=("input0", st["k"])) if st["fn"] == "affine" else fn
        if "static" in st:
            sargs, skw = make_static(st["static"])
            payload = fl.Payload(fn, args=sargs, kwargs=skw)
        if "share" in st:
            payload = _shared_payload(st, env, payload)
        y = st.get("yields")
        return a.map(payload, yields=(y[0], list(y[1])) if y else None)
    if op == "reduce":
        y = st.get("yields")
        rp = _shared_payload(st, env, CUSTOM[st["fn"]]) if "share" in st else CUSTOM[st["fn"]]
        dkw = {} if st["dim"] is None else {"dim": st["dim"]}      # "dim": null = the argument is OMITTED (a.reduce(f))
        return a.reduce(rp, yields=(y[0], list(y[1])) if y else None, batch_size=st["bs"], keep_dim=st["keep"], **dkw)
    if op == "named":
        kw = dict(st.get("kw") or [])
        dkw = {} if st["dim"] is None else {"dim": st["dim"]}      # "dim": null = the argument is OMITTED (a.mean())
        if not kw:      # as a user writes it: a.sum("d") — the DEFAULT backend_kwargs of the method (one object for all calls)
            return getattr(a, st["name"])(batch_size=st["bs"], keep_dim=st["keep"], **dkw)
        return getattr(a, st["name"])(batch_size=st["bs"], keep_dim=st["keep"], backend_kwargs=kw, **dkw)
    bkw = {"backend_kwargs": dict(st["kw"])} if st.get("kw") and op in ("stack", "concatenate", "flatten", "expand") else {}
    if op == "stack":
        return a.stack(st["dim"], batch_size=st["bs"], keep_dim=st["keep"], axis=st["axis"], **bkw)
    if op == "concatenate":
        return a.concatenate(st["dim"], batch_size=st["bs"], keep_dim=st["keep"], **bkw)
    if op == "flatten":
        if st["dim"] is None:
            return a.flatten(axis=st["axis"], **bkw)
        return a.flatten(dim=st["dim"], axis=st["axis"], **bkw)
    if op == "alias":
        return getattr(a, st["how"])({})
    if op in ("select", "iselect"):
        v = st["val"] if "val" in st else list(st["vals"])
        return getattr(a, op)({st["dim"]: v}, drop=st["drop"])
    if op == "expand":
        internal = (st["icoord"][0], list(st["icoord"][1])) if "icoord" in st else st["internal"]
        return a.expand(_dimarg(st["dim"]), internal, dim_size=st.get("size"), axis=st["axis"], **bkw)
    if op == "broadcast":
        if "exclude" in st:
            return a.broadcast(env[st["b"]], exclude=list(st["exclude"]))
        return a.broadcast(env[st["b"]])
    if op == "join":
        return a.join(env[st["b"]], _dimarg(st["dim"]), match_coord_values=st["match"])
    if op == "arith":
        other = env[st["b"]] if "b" in st else st["scalar"]
        meth = {"pow": "power"}.get(st["fn"], st["fn"])
        return getattr(a, meth)(other)
    if op == "transform":
        kind = st["func"]
        if kind == "mul":
            f = lambda act, v: act.multiply(v)  # noqa: E731
        elif kind == "seldrop":
            f = lambda act, v: act.select({st["fdim"]: v}, drop=True)  # noqa: E731
        elif kind == "sel":
            f = lambda act, v: act.select({st["fdim"]: v})  # noqa: E731
        elif kind == "take":
            f = lambda act, v: fl._expand_transform(act, v, 0)  # noqa: E731
        elif kind == "ident":       # C14 probe: a func that hands its argument back
            f = lambda act, v: act  # noqa: E731
        elif kind == "lookup":      # C14 probe: a func that hands back a previously built action (a table of products)
            f = lambda act, v: env[st["r"][v]]  # noqa: E731
        else:
            raise ValueError(kind)
        return a.transform(f, [(p,) for p in st["params"]], _dimarg(st["dim"]), axis=st["axis"])
    raise ValueError(op)


_REGISTERED = {}


def _ensure_registered():
    """Action.register("c13sub", <a subclass of Action>): reached as a.c13sub.<method>; "default" is registered by fluent itself"""
    from earthkit.workflows import fluent as fl
    if "c13sub" not in fl.Action.REGISTRY:
        if "cls" not in _REGISTERED:
            _REGISTERED["cls"] = type("C13SubAction", (fl.Action,), {})
        fl.Action.register("c13sub", _REGISTERED["cls"])


def operands(st):
    ops = [st[k] for k in ("a", "b") if k in st and isinstance(st[k], int) and st["op"] != "source"]
    if st.get("func") == "lookup":
        ops += [j for j in st.get("r", []) if isinstance(j, int) and j not in ops]
    return ops


def run_real(prog, hook=None):
    """Runs the program on the real code. Returns list of Action | ("err", class, text) | ("skip",).
    hook(k, st, env) is called before and after each statement (C14 operand snapshots)."""
    env = []
    for k, st in enumerate(prog["stmts"]):
        if any(not _is_action(env[o]) for o in operands(st)):
            env.append(("skip",))
            continue
        if hook:
            hook("before", k, st, env)
        try:
            r = exec_stmt(st, env)
        except Exception as e:  # a result to compare, never a crash of the check
            r = ("err", err_class(e), f"{type(e).__name__}: {str(e)[:160]}")
        env.append(r)
        if hook:
            hook("after", k, st, env)
    return env


def _is_action(x):
    return not isinstance(x, tuple)


# ----------------------------------------------------------------------------- canonical form of the real result

def _canon_label(x):
    if isinstance(x, np.generic):
        x = x.item()
    if isinstance(x, bool):
        return str(x)
    if isinstance(x, int):
        return x
    if isinstance(x, float) and x == int(x):
        return int(x)
    s = str(x)
    if "<xarray." in s:
        return OPAQUE
    return s


_KEEP_RE = None


def _strict_label(x, dim=None):
    """C13: labels compared WITHOUT merging types (1.0 is not 1, True is not 1); the label `reduce(keep_dim=True)` gives the kept
    dimension `dim` — f"{coords[dim][0]}-{coords[dim][-1]}", the texts of two 0-d DataArrays named `dim` (each followed by
    whatever scalar coordinates are attached) — is read back as keep:<first>:<last>"""
    global _KEEP_RE
    if isinstance(x, np.generic):
        x = x.item()
    if isinstance(x, bool):
        return "b:" + str(x)
    if isinstance(x, int):
        return x
    if isinstance(x, float):
        return "f:" + repr(x)
    s = str(x)
    if "<xarray." in s:
        if _KEEP_RE is None:
            import re
            _KEEP_RE = re.compile(r" Size: [^\n]*\narray\(('(?:[^'\\]|\\.)*'|-?\d+)(?:, dtype=[^)]*)?\)")
        if dim is not None:
            parts = s.split(f"<xarray.DataArray {dim!r} ()>")
            if len(parts) == 3 and parts[0] == "":
                m = [_KEEP_RE.match(q) for q in parts[1:]]
                if all(m):
                    return "keep:" + ":".join(t.group(1)[1:-1] if t.group(1).startswith("'") else t.group(1) for t in m)
        return OPAQUE
    return s


def _canon_static(x, strict=False):
    """strict (C13): an integral FLOAT is not the int of the same value — 2.0 is written "2.0", 2 is "2" (the model's numbers are
    the ints and the non-integral rationals the program / the rewrites write down: x ** 2.0 on Fractions is a float computation);
    NumPy scalars are not unwrapped to Python numbers silently either"""
    if isinstance(x, np.generic):
        if strict:
            return "?" + type(x).__name__ + ":" + str(x)
        x = x.item()
    if isinstance(x, bool):
        return "b" + str(x)
    if isinstance(x, int):
        return str(x)
    if isinstance(x, float):
        if x != x or x in (float("inf"), float("-inf")):
            return "?float:" + repr(x)
        f = Fraction(x)
        if f.denominator == 1:
            return str(f.numerator) + (".0" if strict else "")
        return f"{f.numerator}/{f.denominator}"
    if isinstance(x, str):
        return "'" + x + "'"
    if isinstance(x, (list, tuple)):
        return "[" + ",".join(_canon_static(y, strict) for y in x) + "]"
    return "?" + type(x).__name__


def _fname(func):
    return getattr(func, "__name__", "")


class Unfolder:
    """Unfolds real fluent nodes into canonical expression strings (memoised per node object)."""

    def __init__(self, strict=False):
        self.memo = {}
        self.strict = strict

    def node(self, n):
        key = id(n)
        if key in self.memo:
            return self.memo[key][1]
        func, args, kwargs = n.payload
        names = list(n.inputs.keys())
        if not names and _fname(func) == "srcfn":
            s = "s%d" % args[0]
        else:
            targs = []
            for a in args:
                if isinstance(a, str) and a in n.inputs:
                    targs.append("$" + a[len("input"):])
                else:
                    targs.append(_canon_static(a, self.strict))
            kw = ",".join(f"{k}={_canon_static(v, self.strict)}" for k, v in kwargs.items())
            # inputs in input-name order input0, input1, ... (the order Node() was given them)
            order = sorted(names, key=lambda s: int(s[len("input"):]) if s.startswith("input") and s[5:].isdigit() else 1 << 30)
            kids = ",".join(self.ref(n.inputs[i]) for i in order)
            s = f"{_fname(func)}({','.join(targs)};{kw})[{kids}]"
        self.memo[key] = (n, s)   # keep n alive so that id() stays unique
        return s

    def ref(self, x):
        """x: fluent Node or graph Output"""
        from earthkit.workflows.graph import Output
        if isinstance(x, Output):
            p = x.parent
            if len(p.outputs) == 1 and p.outputs[0] == x.name:
                return self.node(p)
            return f"{p.outputs.index(x.name)}@{self.node(p)}"
        return self.node(x)


def canon_action(action, unf=None, strict=False):
    unf = unf or Unfolder()
    n = action.nodes
    lab = _strict_label if strict else _canon_label
    dims = []
    for d in n.dims:
        d = str(d)
        if d in n.coords:
            dims.append([d, [(lab(x, d) if strict else lab(x)) for x in n.coords[d].data.tolist()], True])
        else:
            dims.append([d, list(range(n.sizes[d])), False])
    scalars = sorted(([str(k), (lab(v.data.item(), str(k)) if strict and v.data.shape == () else
                                lab(v.data.item() if v.data.shape == () else v.data.tolist()))]
                      for k, v in n.coords.items() if k not in n.dims), key=lambda kv: kv[0])
    data = n.data
    exprs = [unf.ref(data[idx]) for idx in np.ndindex(*data.shape)] if data.shape else [unf.ref(data.item())]
    return {"dims": dims, "scalars": scalars, "exprs": exprs}


def canon_result(r, unf=None, strict=False):
    if isinstance(r, tuple):
        if r[0] == "skip":
            return {"skip": True}
        return {"err": r[1]}
    try:
        return canon_action(r, unf, strict)
    except Exception as e:
        return {"err": "canon:" + type(e).__name__}


# ----------------------------------------------------------------------------- interpreter for the real graph

INTERNAL_COORD0 = 100     # xr mode: internal dimension i<k> has the coordinate labels 100 + 10 k + j


def _elem(seed, idx, exact):
    """value of the idx-th source element of a run: every element of every source is DISTINCT (idx is part of the value), never
    zero, of random sign, and carries 32 (exact) / 10 (float) random low bits so that sums, products, differences and quotients of
    different selections of elements coincide only with negligible probability: a mis-wired node is seen."""
    import random
    r = random.Random(f"{seed}:{idx}")
    if exact:
        v = ((idx + 1) << 32) + r.getrandbits(32)
    else:
        v = (idx + 1) * 1024 + r.getrandbits(10)
    return -v if r.random() < 0.5 else v


def internal_names(prog):
    return ["i%d" % k for k in range(len(prog.get("internal", [])))]


def source_value(prog, i):
    """the internal array of source node i: exact Fractions; floats when the program needs sqrt (std); an xarray DataArray of
    floats (dims i0, i1, ..., labelled) when the program runs on the xarray backend"""
    shape = tuple(prog.get("internal", []))
    seed = prog.get("vseed", 0)
    n = int(np.prod(shape)) if shape else 1
    exact = not (prog.get("float") or prog.get("xr") or prog.get("dtype"))
    vals = [_elem(seed, i * n + j, exact) for j in range(n)]
    dtype = np.dtype(prog.get("dtype") or "float64")     # "dtype": float32 / int64 / int32 inputs (10-bit noise: exact in float32)
    if prog.get("xr"):
        import xarray as xr
        names = internal_names(prog)
        return xr.DataArray(np.array(vals, dtype=dtype).reshape(shape), dims=names,
                            coords={nm: [INTERNAL_COORD0 + 10 * k + j for j in range(shape[k])] for k, nm in enumerate(names)})
    if prog.get("float") or prog.get("dtype"):
        return np.array(vals, dtype=dtype).reshape(shape)
    arr = np.empty(n, dtype=object)
    for j, v in enumerate(vals):
        arr[j] = Fraction(v)
    return arr.reshape(shape)


def _arr(x):
    """NumPy returns bare Python objects from 0-d object arrays; keep them arrays (as float data would be)"""
    if isinstance(x, Fraction):
        a = np.empty((), dtype=object)
        a[()] = x
        return a
    return x


class Interp:
    """Evaluates real fluent nodes by calling their real payload functions (memoised per node)."""

    def __init__(self, prog):
        self.prog = prog
        self.cache = {}

    def node(self, n):
        key = id(n)
        if key not in self.cache:
            func, args, kwargs = n.payload
            if not n.inputs and _fname(func) == "srcfn":
                res = source_value(self.prog, args[0])
            else:
                ins = {k: self.ref(v) for k, v in n.inputs.items()}
                a = [ins[x] if isinstance(x, str) and x in ins else x for x in args]
                res = func(*a, **kwargs)
                if len(n.outputs) > 1 or (len(n.outputs) == 1 and hasattr(res, "__next__")):
                    res = [_arr(x) for x in res]
                else:
                    res = _arr(res)
            self.cache[key] = (n, res)
        return self.cache[key][1]

    def ref(self, x):
        from earthkit.workflows.graph import Output
        if isinstance(x, Output):
            res = self.node(x.parent)
            if isinstance(res, list):
                return res[x.parent.outputs.index(x.name)]
            return res
        return self.node(x)

    def values(self, action):
        """(ndarray of shape node_shape + internal_shape, names of the internal dimensions | None). The names are those of the
        xarray DataArrays the nodes evaluate to (xarray backend); None for plain arrays."""
        data = action.nodes.data
        raw = [self.ref(data[idx]) for idx in np.ndindex(*data.shape)] if data.shape else [self.ref(data.item())]
        names = None
        self.last_icoords = None
        if raw and all(type(o).__name__ == "DataArray" and hasattr(o, "dims") for o in raw):
            dimsets = {tuple(map(str, o.dims)) for o in raw}
            if len(dimsets) != 1:
                raise ValueError(f"nodes of one action evaluate to different internal dimensions {sorted(dimsets)}")
            names = list(dimsets.pop())
            # the coordinate labels of the internal dimensions (None = the dimension has no coordinate), per node; the oracle
            # compares them with the labels the direct computation has — all nodes of one action must agree
            per_node = [{nm: ([_strict_label(x) for x in o.coords[nm].values.tolist()] if nm in o.coords else None) for nm in names}
                        for o in raw]
            self.last_icoords = per_node[0] if all(c == per_node[0] for c in per_node) else ("differ", per_node)
            raw = [o.values for o in raw]
        out = [np.asarray(o) for o in raw]
        shapes = {o.shape for o in out}
        if len(shapes) != 1:
            raise ValueError(f"nodes of one action evaluate to different internal shapes {sorted(shapes)}")
        # the nodes of one action may evaluate to different dtypes (an int source joined with a float mean): the common type, as
        # NumPy gives the array the reference stacks them into — never the first node's (floats would be truncated)
        dt = object if any(o.dtype == object for o in out) else np.result_type(*[o.dtype for o in out])
        arr = np.empty((len(out),) + out[0].shape, dtype=dt)
        for i, o in enumerate(out):
            arr[i] = o
        return arr.reshape(tuple(data.shape) + out[0].shape), names


# ----------------------------------------------------------------------------- NumPy reference (the oracle's "direct" computation)

class Ref:
    """What the program denotes when every operation is applied directly to the stacked source
    arrays with NumPy. dims: node dimension names in documented order; labels[d]: coordinate labels
    (None = the operation documents none); data: ndarray, node axes first, then internal axes;
    ordered: False when the documentation fixes only the set of dimensions, not their order;
    idims / icoords: names and labels of the internal axes when the values are xarray DataArrays (None for plain arrays)."""

    def __init__(self, dims, labels, data, ordered=True, scalars=(), idims=None, icoords=None):
        self.dims = list(dims)
        self.scalars = set(scalars)   # names of scalar coordinates left behind by select / squeeze
        self.labels = dict(labels)
        if not isinstance(data, np.ndarray):
            d0 = np.empty((), dtype=object)
            d0[()] = data
            data = d0 if isinstance(data, Fraction) else np.asarray(data)
        self.data = data
        self.ordered = ordered
        self.idims = None if idims is None else list(idims)
        self.icoords = None if icoords is None else {k: list(v) for k, v in icoords.items()}

    def like(self, dims, labels, data, ordered=True, idims="same", icoords="same"):
        """a value derived from this one: the internal dimension names are carried along unless given"""
        return Ref(dims, labels, data, ordered=ordered,
                   idims=self.idims if idims == "same" else idims, icoords=self.icoords if icoords == "same" else icoords)

    @property
    def nnode(self):
        return len(self.dims)

    @property
    def internal(self):
        return self.data.shape[self.nnode:]

    def ax(self, d):
        return self.dims.index(d)

    def aligned(self, dims):
        """data with node axes permuted to `dims` (same set)"""
        perm = [self.dims.index(d) for d in dims] + list(range(self.nnode, self.data.ndim))
        return np.transpose(self.data, perm)

    def spread(self, dims_out, internal_ndim):
        """data with one node axis per name in dims_out (size 1 where this value has no such dimension: NumPy then broadcasts
        it) and the internal axes padded in front to internal_ndim"""
        have = [d for d in dims_out if d in self.dims]
        data = self.aligned(have)
        for pos, d in enumerate(dims_out):
            if d not in self.dims:
                data = np.expand_dims(data, pos)
        for _ in range(internal_ndim - len(self.internal)):
            data = np.expand_dims(data, len(dims_out))
        return data


class RefUndefined(Exception):
    """the reference has no value for this statement (operation raises / undocumented corner)"""


def _np(f, *args, **kw):
    """A NumPy call of the reference that NumPy itself may refuse (shapes do not fit, axis out of range, division by an exact
    zero): then the operation has no NumPy meaning — `RefUndefined`, with the reason. Any OTHER exception anywhere in the
    reference is a bug of the reference and is reported as such by `run_ref` (never silently 'no reference')."""
    try:
        return f(*args, **kw)
    except (ValueError, IndexError, TypeError, ZeroDivisionError, OverflowError) as e:
        raise RefUndefined("numpy refuses: " + type(e).__name__)


def _wsum(data, ax):
    n = data.shape[ax]
    w = np.arange(1, n + 1).reshape([n if i == ax else 1 for i in range(data.ndim)])
    # the weights are Python ints in the user's function: they take the dtype of the data (no promotion to int64 / float64)
    w = w.astype(data.dtype)
    return (data * w).sum(axis=ax, dtype=None if data.dtype == object else data.dtype)


def _label_pos(labels, v):
    if labels is None:
        raise RefUndefined("no documented labels")
    hits = [i for i, l in enumerate(labels) if _same_label(l, v)]
    if len(hits) != 1:
        raise RefUndefined("label not found exactly once")
    return hits[0]


def _same_label(x, y):
    return type(x) is type(y) and x == y if isinstance(x, str) or isinstance(y, str) else x == y


def ref_stmt(st, env, prog):
    """reference value of one statement; scalar-coordinate names are carried along only to recognise
    the cases where a dimension name is re-used while a scalar coordinate of that name is still attached
    (xarray refuses or merges those; the fluent documentation says nothing about them)"""
    r = _ref_stmt(st, env, prog)
    scal = set()
    for key in ("a", "b"):
        if st["op"] != "source" and isinstance(st.get(key), int) and env[st[key]] is not None:
            scal |= env[st[key]].scalars
    op = st["op"]
    a = env[st["a"]] if op != "source" else None
    if op in ("select", "iselect") and "val" in st and not st["drop"]:
        scal.add(st["dim"])
    if op == "selectn" and not st["drop"]:
        scal |= {c[0] for c in st["crit"] if c[1] == "val"}
    if op in ("stack", "concatenate") and not st["keep"] and len(r.dims) < len(a.dims) and r.data.ndim == a.data.ndim - 1:
        scal.add(st["dim"])
    if op in ("expand", "transform") and _nparams(st) == 1:
        scal.add(st["dim"] if isinstance(st["dim"], str) else st["dim"][0])
    if op == "transform" and st["func"] == "sel":
        scal.discard(st["fdim"]) if len(st["params"]) > 1 else scal.add(st["fdim"])
    if scal & set(r.dims):
        raise RefUndefined("a dimension is named like an attached scalar coordinate")
    r.scalars = scal
    return r


def _nparams(st):
    if st["op"] == "transform":
        return len(st["params"])
    if "icoord" in st:
        return len(st["icoord"][1])
    return st.get("size") if st.get("size") is not None else -1


def _kw(st):
    return dict((k, v) for k, v in (st.get("kw") or []))


def _select_one(a, how, dim, kind, x):
    """one criterion of select / iselect applied to the reference value"""
    if dim not in a.dims:
        raise RefUndefined("criterion on a non-dimension")
    ax = a.ax(dim)
    n = a.data.shape[ax]
    rest = [d for d in a.dims if d != dim]
    if kind == "val":
        i = _label_pos(a.labels[dim], x) if how == "select" else x
        if not (0 <= i < n):
            raise RefUndefined("index")
        return a.like(rest, {d: a.labels[d] for d in rest}, np.take(a.data, i, axis=ax))
    if how == "select" and a.labels[dim] is not None and len({(type(l).__name__, l) for l in a.labels[dim]}) != len(a.labels[dim]):
        # pandas refuses a LIST selection on a coordinate with repeated labels, whatever is asked for
        raise RefUndefined("list selection on a coordinate with repeated labels")
    idx = [(_label_pos(a.labels[dim], v) if how == "select" else v) for v in x]
    if any(not (0 <= i < n) for i in idx):
        raise RefUndefined("index")
    labels = dict(a.labels)
    labels[dim] = None if a.labels[dim] is None else [a.labels[dim][i] for i in idx]
    return a.like(a.dims, labels, np.take(a.data, idx, axis=ax))


def _new_internal_axis(a, st, what):
    """stack / flatten: (position k of the new internal axis counted from the front, idims, icoords) — `numpy.stack(arrays, axis)`;
    on DataArrays the new axis needs a name (`backend_kwargs={"dim": name}`)"""
    kw = _kw(st)
    axis = st.get("axis", 0)
    nd = len(a.internal)
    k = axis + nd + 1 if axis < 0 else axis
    if not (0 <= k <= nd):
        raise RefUndefined("axis")
    if a.idims is None:
        if kw:
            raise RefUndefined("backend kwargs the array backend's %s does not take" % what)
        return k, None, None
    name = kw.pop("dim", None)
    if not isinstance(name, str) or name in a.idims or kw:
        raise RefUndefined("xarray %s needs backend_kwargs={'dim': <new name>} only" % what)
    return k, a.idims[:k] + [name] + a.idims[k:], a.icoords


def _ref_stmt(st, env, prog):
    op = st["op"]
    if op == "source":
        dims = [d for d, _ in st["dims"]]
        shape = tuple(len(l) for _, l in st["dims"])
        n = int(np.prod(shape)) if shape else 1
        vals = [source_value(prog, st["base"] + i) for i in range(n)]
        idims = icoords = None
        if prog.get("xr"):
            idims = internal_names(prog)
            icoords = {nm: [INTERNAL_COORD0 + 10 * k + j for j in range(prog["internal"][k])] for k, nm in enumerate(idims)}
            vals = [v.values for v in vals]
        data = np.array(vals, dtype=vals[0].dtype).reshape(shape + vals[0].shape)
        return Ref(dims, {d: list(l) for d, l in st["dims"]}, data, idims=idims, icoords=icoords)
    a = env[st["a"]]
    if a is None:
        raise RefUndefined("operand undefined")
    dim = st.get("dim")
    if op in ("reduce", "named", "stack", "concatenate", "flatten"):
        if dim is None and op in ("stack", "concatenate"):
            raise RefUndefined("stack / concatenate have no default dimension")
        if dim == "" or dim is None:
            # the signature default of reduce / sum / prod / min / max / mean / std / flatten is dim="": the FIRST dimension of the
            # node array (written here from the signature and the convention of the API, not read from the code)
            if not a.dims:
                raise RefUndefined("no dims")
            dim = a.dims[0]
        if dim not in a.dims:
            raise RefUndefined("missing dim")
    if op == "map":
        fn = st["fn"]
        if fn == "neg":
            return a.like(a.dims, a.labels, -a.data)
        if fn == "affine":
            return a.like(a.dims, a.labels, a.data * st["k"] + 1)
        if fn == "twice":
            y, yl = st["yields"]
            data = np.stack([a.data, 2 * a.data], axis=a.nnode)
            if len(yl) != 2 or y in a.dims:
                raise RefUndefined("yields")
            return a.like(a.dims + [y], {**a.labels, y: list(yl)}, data)
        raise RefUndefined(fn)
    if op == "mapn":
        # one payload per node: node idx gets affine(k[idx]) — NumPy: data * K + 1 with K shaped like the node array
        if tuple(st["shape"]) != a.data.shape[:a.nnode]:
            raise RefUndefined("payload array shape differs from the node array shape")
        ks = np.array(st["ks"], dtype=a.data.dtype).reshape(tuple(st["shape"]) + (1,) * len(a.internal))
        return a.like(a.dims, a.labels, a.data * ks + 1)
    if op in ("reduce", "named"):
        ax = a.ax(dim)
        n = a.data.shape[ax]
        bs = st["bs"]
        keep = st["keep"]
        rest = [d for d in a.dims if d != dim]
        labels = {d: a.labels[d] for d in rest}
        if op == "reduce":
            fn = st["fn"]
            if st.get("yields") and bs != 0:
                raise RefUndefined("generator cannot be batched")
            if fn == "wsum":
                if 1 < bs < n:
                    raise RefUndefined("not batchable")
                data = _wsum(a.data, ax)
            elif fn == "first":
                data = np.take(a.data, 0, axis=ax)
            elif fn == "minmax":
                y, yl = st["yields"]
                if len(yl) != 2 or y in a.dims:
                    raise RefUndefined("yields")
                data = np.stack([a.data.min(axis=ax), a.data.max(axis=ax)], axis=a.nnode - 1)
                dims = rest + [y]
                labels[y] = list(yl)
                if keep:
                    data = np.expand_dims(data, ax)
                    dims = dims[:ax] + [dim] + dims[ax:]
                    labels[dim] = None
                return a.like(dims, labels, data)
            else:
                raise RefUndefined(fn)
        else:
            name = st["name"]
            if n < 2:
                # property C13 quantifies over reduced dimensions of size >= 2 (a backend function applied
                # to ONE array is a different overload: it reduces the array itself)
                raise RefUndefined("named reduction over a dimension of size < 2")
            f = {"sum": np.sum, "prod": np.prod, "min": np.min, "max": np.max, "mean": np.mean, "std": np.std}[name]
            if name == "std" and a.data.dtype == object:
                raise RefUndefined("std needs float mode")
            kw = _kw(st)
            kw.pop("axis", None)     # both backends fix the axis themselves when given several arrays
            keepdims = kw.pop("keepdims", 0)
            if kw or keepdims not in (0, 1) or (keepdims and a.idims is not None):
                raise RefUndefined("backend kwargs")
            if keepdims and 1 < bs < n:
                # numpy.<f>(stacked, axis=0, keepdims=True) per batch and again over the batches: the shape depends on the batching
                raise RefUndefined("backend kwargs: keepdims with batches")
            data = _np(f, a.data, axis=ax)
            if keepdims:
                # numpy.<f>(numpy.stack(arrays), axis=0, keepdims=True): the reduced axis stays, of size 1, as the FIRST internal axis
                data = np.expand_dims(data, a.nnode - 1)
        dims = rest
        if keep:
            data = np.expand_dims(data, ax)
            dims = rest[:ax] + [dim] + rest[ax:]
            labels[dim] = None       # the docstring promises the dimension and its position, no label
        return a.like(dims, labels, data)
    if op in ("stack", "concatenate", "flatten"):
        ax = a.ax(dim)
        n = a.data.shape[ax]
        rest = [d for d in a.dims if d != dim]
        labels = {d: a.labels[d] for d in rest}
        keep = st.get("keep", False)
        bs = st.get("bs", 0)
        idims, icoords = a.idims, a.icoords
        if op != "flatten" and n == 1:
            # documented as a no-op on a single element
            if keep:
                return a.like(a.dims, a.labels, a.data)
            return a.like(rest, labels, np.take(a.data, 0, axis=ax))
        if op == "stack" and 1 < bs < n:
            raise RefUndefined("stack is not batchable")
        if op == "concatenate":
            kw = _kw(st)
            if a.idims is None:
                k = kw.pop("axis", 0)
                if kw or not isinstance(k, int):
                    raise RefUndefined("backend kwargs")
            else:
                nm = kw.pop("dim", None)
                if kw or nm not in a.idims:
                    raise RefUndefined("xarray concat needs backend_kwargs={'dim': <existing internal dim>}")
                k = a.idims.index(nm)
                icoords = dict(a.icoords)
                if nm in icoords:          # a dimension that stack() introduced has no labels
                    icoords[nm] = icoords[nm] * n
            nd = len(a.internal)
            if nd < 1 or not (-nd <= k < nd):
                raise RefUndefined("concat axis")
            k %= nd
            # numpy.concatenate(the n arrays along the node dimension, axis=k): move the node axis in front of internal axis k, merge
            moved = np.moveaxis(a.data, ax, a.nnode - 1 + k)
            shp = moved.shape
            p = a.nnode - 1 + k
            data = moved.reshape(shp[:p] + (shp[p] * shp[p + 1],) + shp[p + 2:])
        else:
            k, idims, icoords = _new_internal_axis(a, st, "stack")
            data = np.moveaxis(a.data, ax, a.nnode - 1 + k)
        dims = rest
        if keep:
            data = np.expand_dims(data, ax)
            dims = rest[:ax] + [dim] + rest[ax:]
            labels[dim] = None
        return a.like(dims, labels, data, idims=idims, icoords=icoords)
    if op in ("select", "iselect"):
        return _select_one(a, op, dim, "val" if "val" in st else "vals", st["val"] if "val" in st else st["vals"])
    if op == "selectn":
        if len({c[0] for c in st["crit"]}) != len(st["crit"]):
            raise RefUndefined("a criterion given twice")
        r = a
        for d_, kind, x in st["crit"]:
            r = _select_one(r, st["how"], d_, kind, x)
        return r
    if op == "expand":
        d = st["dim"]
        name, lab = (d, None) if isinstance(d, str) else (d[0], list(d[1]))
        axis = st["axis"]
        kw = _kw(st)
        nd = len(a.internal)
        if "icoord" in st:
            # internal_dim = (name of the internal dimension, the selection criteria): only arrays with NAMED dimensions have that
            iname, crit = st["icoord"]
            if a.idims is None or iname not in a.idims:
                raise RefUndefined("internal dimension by name on plain arrays")
            i = a.idims.index(iname)
            method = kw.pop("method", "isel")
            if kw or method not in ("isel", "sel"):
                raise RefUndefined("backend kwargs")
            pos = [(_label_pos(a.icoords[iname], c) if method == "sel" else c) for c in crit]
            size = len(pos)
        else:
            i, size = st["internal"], st.get("size")
            if size is None:
                raise RefUndefined("dim_size is required")
            if isinstance(i, str):
                if a.idims is None or i not in a.idims:
                    raise RefUndefined("internal dimension by name on plain arrays")
                i = a.idims.index(i)
            mode = None
            if a.idims is None:
                mode = kw.pop("mode", None)          # numpy.take(..., mode="wrap" | "clip")
                if mode not in (None, "wrap", "clip"):
                    raise RefUndefined("backend kwargs")
            else:
                if kw.pop("missing_dims", "raise") != "raise" or kw.pop("drop", True) is not True:
                    raise RefUndefined("backend kwargs")
            if kw:
                raise RefUndefined("backend kwargs")
            if -nd <= i < 0:
                i += nd
            pos = list(range(size))
            if mode is not None and 0 <= i < nd and size >= 1:
                m_ = a.internal[i]
                pos = [(q % m_) if mode == "wrap" else min(q, m_ - 1) for q in pos]
        if name in a.dims or not (0 <= i < nd) or size < 1 or not (0 <= axis <= a.nnode):
            raise RefUndefined("expand arguments")
        if any((not isinstance(q, int)) or not (0 <= q < a.internal[i]) for q in pos):
            raise RefUndefined("expand index outside the internal axis")
        if lab is not None and len(lab) != size:
            raise RefUndefined("labels")
        data = np.take(a.data, pos, axis=a.nnode + i)
        data = np.moveaxis(data, a.nnode + i, axis)
        idims = None if a.idims is None else a.idims[:i] + a.idims[i + 1:]
        icoords = None if a.icoords is None else {k_: v for k_, v in a.icoords.items() if k_ in idims}
        if size == 1:
            # "Remove expanded dimension if only a single element"
            return a.like(a.dims, a.labels, np.take(data, 0, axis=axis), idims=idims, icoords=icoords)
        dims = a.dims[:axis] + [name] + a.dims[axis:]
        return a.like(dims, {**a.labels, name: lab if lab is not None else list(range(size))}, data, idims=idims, icoords=icoords)
    if op == "broadcast":
        b = env[st["b"]]
        if b is None:
            raise RefUndefined("operand undefined")
        excl = set(st.get("exclude") or [])
        if ((a.scalars & (b.scalars | set(b.dims))) | (b.scalars & set(a.dims))) - excl:
            # the code compares coordinates of the same name, scalar ones included; the reference does not follow their values
            raise RefUndefined("a scalar coordinate is named like a coordinate of the other action")
        for d in b.dims:
            if d in excl:
                continue
            if d in a.dims and (a.labels[d] is None or b.labels[d] is None or a.labels[d] != b.labels[d]):
                raise RefUndefined("coordinates of shared dimensions differ")
        extra = [d for d in b.dims if d not in a.dims and d not in excl]
        sizes = [b.data.shape[b.ax(d)] for d in extra]
        data = np.broadcast_to(a.data, tuple(sizes) + a.data.shape)
        return a.like(extra + a.dims, {**a.labels, **{d: b.labels[d] for d in extra}}, data, ordered=False)
    if op in ("join", "arith") and "b" in st:
        b = env[st["b"]]
        if b is None:
            raise RefUndefined("operand undefined")
        if (a.idims is None) != (b.idims is None) or (a.idims is not None and a.idims != b.idims):
            raise RefUndefined("internal dimensions differ")
    if op == "join":
        d = st["dim"]
        name, lab = (d, None) if isinstance(d, str) else (d[0], list(d[1]))
        if name in a.dims and name in b.dims and isinstance(d, str):
            rest = [x for x in a.dims if x != name]
            if set(rest) != set(x for x in b.dims if x != name):
                raise RefUndefined("different dimensions")
            bd = b.aligned(a.dims)
            for x in rest:
                if not st["match"] and (a.labels[x] is None or b.labels[x] is None):
                    raise RefUndefined("labels of a shared dimension are not documented (join is exact on labels)")
                if not st["match"] and a.labels[x] != b.labels[x]:
                    raise RefUndefined("coords differ")
                if a.data.shape[a.ax(x)] != bd.shape[a.ax(x)]:
                    raise RefUndefined("sizes differ")
            if a.internal != b.internal:
                raise RefUndefined("internal shapes differ")
            la, lb = a.labels[name], b.labels[name]
            if (la is None) != (lb is None):
                # one side has no coordinate for the dimension (or an undocumented one): xarray refuses
                # to concatenate a coordinate-less dimension with a labelled one; nothing is documented
                raise RefUndefined("coordinate on one side only")
            labels = dict(a.labels)
            labels[name] = None if (la is None or lb is None or st["match"]) else la + lb
            return a.like(a.dims, labels, _np(np.concatenate, [a.data, bd], axis=a.ax(name)))
        if name in a.dims or name in b.dims:
            raise RefUndefined("join dimension present on one side only")
        if a.internal != b.internal:
            raise RefUndefined("internal shapes differ")
        # stacking along a NEW dimension; a dimension only one side has is broadcast (by NAME) on the other
        union = a.dims + [x for x in b.dims if x not in a.dims]
        labels = dict(a.labels)
        for x in union:
            if x in a.dims and x in b.dims:
                if a.data.shape[a.ax(x)] != b.data.shape[b.ax(x)]:
                    raise RefUndefined("sizes differ")
                if not st["match"] and (a.labels[x] is None or b.labels[x] is None):
                    raise RefUndefined("labels of a shared dimension are not documented (join is exact on labels)")
                if not st["match"] and a.labels[x] != b.labels[x]:
                    raise RefUndefined("coords differ")
            elif x not in a.dims:
                labels[x] = b.labels[x]
        if lab is not None and len(lab) != 2:
            raise RefUndefined("labels")
        nd = len(a.internal)
        full = _np(np.broadcast_shapes, a.spread(union, nd).shape, b.spread(union, nd).shape)
        data = np.stack([np.broadcast_to(a.spread(union, nd), full), np.broadcast_to(b.spread(union, nd), full)], axis=0)
        return a.like([name] + union, {**labels, name: lab}, data, ordered=False)
    if op == "arith":
        fn = st["fn"]
        f = {"add": lambda x, y: x + y, "subtract": lambda x, y: x - y, "multiply": lambda x, y: x * y,
             "divide": lambda x, y: x / y, "pow": lambda x, y: x ** y}[fn]
        if "b" not in st:
            return a.like(a.dims, a.labels, _np(f, a.data, st["scalar"]))
        if fn == "pow":
            # the exponents would be source values (32-bit magnitudes): not evaluated — the tie still compares the graph
            raise RefUndefined("power with an array exponent is not evaluated")
        # element-wise between two node arrays: dimensions are matched by NAME, a dimension only one side has is broadcast
        union = a.dims + [x for x in b.dims if x not in a.dims]
        labels = dict(a.labels)
        for x in union:
            if x in a.dims and x in b.dims:
                if a.data.shape[a.ax(x)] != b.data.shape[b.ax(x)]:
                    raise RefUndefined("sizes of a shared dimension differ (no broadcasting by name)")
            elif x not in a.dims:
                labels[x] = b.labels[x]
        nd = max(len(a.internal), len(b.internal))
        if a.idims is not None and len(a.internal) != len(b.internal):
            raise RefUndefined("internal dimensions differ")
        return a.like(union, labels, _np(f, a.spread(union, nd), b.spread(union, nd)), ordered=set(a.dims) == set(b.dims))
    if op == "transform":
        kind, params, axis = st["func"], st["params"], st["axis"]
        d = st["dim"]
        name, lab = (d, None) if isinstance(d, str) else (d[0], list(d[1]))
        if not params:
            raise RefUndefined("no params")
        pieces = []
        for p in params:
            if kind == "mul":
                pieces.append(a.like(a.dims, a.labels, a.data * p))
            elif kind in ("seldrop", "sel"):
                pieces.append(_select_one(a, "select", st["fdim"], "val", p))
            elif kind == "take":
                if len(a.internal) < 1 or not (0 <= p < a.internal[0]):
                    raise RefUndefined("take")
                pieces.append(a.like(a.dims, a.labels, np.take(a.data, p, axis=a.nnode),
                                     idims=None if a.idims is None else a.idims[1:],
                                     icoords=None if a.icoords is None else {k_: v for k_, v in a.icoords.items() if k_ != a.idims[0]}))
            else:
                raise RefUndefined(kind)
        p0 = pieces[0]
        if name in p0.dims:
            raise RefUndefined("dimension exists")
        if kind == "sel":
            # the selected coordinate stays attached to each piece; the pieces are joined along it
            if name != st["fdim"] or lab is not None:
                raise RefUndefined("sel joins along the selected dimension")
            if len(params) == 1:
                return p0
            return p0.like([name] + p0.dims, {**p0.labels, name: list(params)}, np.stack([x.data for x in pieces], axis=0), ordered=False)
        if not (0 <= axis <= p0.nnode):
            raise RefUndefined("axis")
        if lab is not None and len(lab) < len(params):
            raise RefUndefined("labels")
        if len(params) == 1:
            return p0
        dims = p0.dims[:axis] + [name] + p0.dims[axis:]
        labels = {**p0.labels, name: (lab[:len(params)] if lab is not None else list(range(len(params))))}
        return p0.like(dims, labels, np.stack([x.data for x in pieces], axis=axis))
    raise RefUndefined(op)


class RefEnv(list):
    """reference values per statement (None = no reference value) + why[k] = the reason + crashed = [(k, text)] for
    statements on which the REFERENCE ITSELF failed (a bug of the oracle, reported loudly by the check)"""

    def __init__(self):
        super().__init__()
        self.why = {}
        self.crashed = []


def run_ref(prog, real=None):
    """reference values of all statements. Where the documentation fixes only the *set* of dimensions
    (broadcast, join on a new dimension) the reference adopts the order the implementation chose, so that
    later, order-sensitive statements are judged relative to it."""
    env = RefEnv()
    for k, st in enumerate(prog["stmts"]):
        try:
            r = ref_stmt(st, env, prog)
        except RefUndefined as e:
            r = None
            env.why[k] = str(e)
        except Exception as e:      # NOT "no reference": the reference is broken on this input
            r = None
            env.why[k] = "REFERENCE CRASHED"
            env.crashed.append((k, f"{type(e).__name__}: {str(e)[:160]}"))
        if r is not None and not r.ordered and real is not None and not isinstance(real[k], tuple):
            dims = [str(d) for d in real[k].nodes.dims]
            if sorted(dims) == sorted(r.dims) and len(set(dims)) == len(dims):
                r.data = r.aligned(dims)
                r.dims = dims
        env.append(r)
    return env


def oracle_stmt(prog, k, real, ref, interp, scale=1.0):
    """Compare the real action of statement k with the NumPy reference. Returns None or (kind, text)."""
    st = prog["stmts"][k]
    if ref is None:
        return None
    if isinstance(real, tuple):
        if real[0] == "skip":
            return None
        return ("raises", f"statement {k} {st} raised {real[2]} although the operation is defined (NumPy reference has a value)")
    n = real.nodes
    dims = [str(d) for d in n.dims]
    if set(dims) != set(ref.dims) or len(dims) != len(ref.dims):
        return ("dims", f"statement {k} {st}: dimensions {dims}, documented {ref.dims}")
    if ref.ordered and dims != ref.dims:
        return ("dims-order", f"statement {k} {st}: dimensions {dims}, documented order {ref.dims}")
    for d in dims:
        want = ref.labels.get(d)
        if want is None:
            continue
        got = [_strict_label(x) for x in n.coords[d].data.tolist()] if d in n.coords else list(range(n.sizes[d]))
        if got != [_strict_label(x) for x in want]:
            return ("coords", f"statement {k} {st}: coordinate {d} = {got}, documented {want}")
    try:
        got, inames = interp.values(real)
    except Exception as e:
        # the direct computation has a value (a division by an exact zero there makes the reference undefined, see `_np`):
        # ANY exception while evaluating the graph, ZeroDivisionError included, is a disagreement
        return ("eval-raises", f"statement {k} {st}: evaluating the graph raised {type(e).__name__}: {str(e)[:120]}")
    if (inames is None) != (ref.idims is None) or (inames is not None and inames != ref.idims):
        return ("internal-dims", f"statement {k} {st}: the values have internal dimensions {inames}, the direct computation {ref.idims}")
    if inames is not None and ref.icoords is not None:
        ic = getattr(interp, "last_icoords", None)
        if isinstance(ic, tuple):
            return ("internal-coords", f"statement {k} {st}: the nodes of one action carry different internal coordinates {ic[1][:3]}")
        wantc = {nm: ([_strict_label(x) for x in ref.icoords[nm]] if nm in ref.icoords else None) for nm in ref.idims}
        if ic is not None and ic != wantc:
            bad = next(nm for nm in ref.idims if ic.get(nm) != wantc.get(nm))
            return ("internal-coords", f"statement {k} {st}: internal dimension {bad} has the coordinate {ic.get(bad)}, the direct "
                    f"computation on the labelled source arrays gives {wantc.get(bad)}")
    want = ref.aligned(dims)
    if got.shape != want.shape:
        return ("value-shape", f"statement {k} {st}: value shape {got.shape}, NumPy {want.shape}")
    if got.dtype == object or want.dtype == object:
        # exact programs: Fractions on both sides, compared with ==; a float among the real values is an inexact computation
        # (e.g. x ** 2.0 instead of x ** 2) and is reported, never waved through with a tolerance
        try:
            same = bool(np.all(got == want))
        except Exception:
            same = False
        if same and any(isinstance(x, (float, np.floating)) for x in got.flat) and not any(isinstance(x, (float, np.floating)) for x in want.flat):
            return ("value-inexact", f"statement {k} {st}: the graph evaluates to floats where the direct computation on exact "
                    f"rationals stays exact (first: {next(x for x in got.flat if isinstance(x, (float, np.floating)))!r})")
    else:
        if prog.get("dtype") in (None, "float64") and got.dtype.kind == "f" and want.dtype.kind == "f" and got.dtype.itemsize < want.dtype.itemsize:
            # double-precision inputs: every NumPy result is float64, so is every node's value — a narrower float is a downcast
            # inside the graph whose error (1e-7 relative) lies below the tolerance. (On float32 / integer inputs the nodes of
            # one action may legitimately have narrower types than the ONE array the reference stacks them into — an int64
            # source joined with a float64 mean — so there the dtype is not judged; a wrong integer computation shows in the values.)
            return ("value-precision", f"statement {k} {st}: the values have dtype {got.dtype}, the direct NumPy computation on the "
                    f"same double-precision inputs {want.dtype} (precision lost)")
        same = _allclose(got, want, scale, f32=(got.dtype.itemsize <= 4 or want.dtype.itemsize <= 4) and want.dtype.kind == "f")
    if not same:
        bad = next((idx for idx in np.ndindex(*got.shape) if not _close(got[idx], want[idx], scale)), None)
        return ("value", f"statement {k} {st}: value at {bad} is {got[bad] if bad is not None else '?'}, NumPy gives {want[bad] if bad is not None else '?'}")
    return None


FLOAT_RTOL = 1e-7
FLOAT_ATOL = 1e-6   # float mode exists only for std: sqrt turns an eps*x^2 cancellation error of the rewrite into 1e-8*|x|


def _close(x, y, scale=1.0):
    try:
        if x == y:
            return True
        fx, fy = float(x), float(y)
        if fx != fx:     # nan: sqrt of a slightly negative difference where the true variance is ~0 (float rounding, out of scope)
            return fy != fy or abs(fy) <= 1e-4 * scale
        return abs(fx - fy) <= FLOAT_ATOL * scale + FLOAT_RTOL * abs(fy)
    except Exception:
        return False


FLOAT32_RTOL = 2e-5  # single-precision inputs (a few programs): batched and direct summation round differently


def _allclose(got, want, scale=1.0, f32=False):
    g = got.astype(float)
    w = want.astype(float)
    ok = np.isclose(g, w, rtol=FLOAT32_RTOL if f32 else FLOAT_RTOL, atol=FLOAT_ATOL * scale, equal_nan=True) | (np.isnan(g) & (np.abs(w) <= 1e-4 * scale))
    return bool(np.all(ok))


def has_nan(interp, action):
    try:
        got, _ = interp.values(action)
        return bool(np.isnan(got.astype(float)).any())
    except Exception:
        return False


class Snapshot:
    """What one statement's action IS at one moment: dimension names in order, the labels of every dimension (None = no
    coordinate), the scalar coordinates, and the VALUE at every coordinate — the real graph evaluated by the given interpreter
    (a fresh `Interp` evaluates every node anew, from the payloads as they are now) — or the exception evaluating raised.
    Two snapshots of the same action taken at different moments must be equal: building further statements (or further
    programs) must not change what an existing action denotes."""

    def __init__(self, action, interp):
        n = action.nodes
        self.dims = [str(d) for d in n.dims]
        self.labels = {d: ([_strict_label(x, d) for x in n.coords[d].data.tolist()] if d in n.coords else None) for d in self.dims}
        self.sizes = [int(n.sizes[d]) for d in n.dims]
        self.scalars = sorted((str(k), str(_strict_label(v.data.item(), str(k)) if v.data.shape == () else v.data.tolist()))
                              for k, v in n.coords.items() if k not in n.dims)
        self.values = self.inames = self.exc = None
        try:
            self.values, self.inames = interp.values(action)
        except Exception as e:
            self.exc = e


def _same_values(x, y):
    if x.shape != y.shape:
        return False
    if x.dtype == object or y.dtype == object:
        try:
            return all((p == q) or (p != p and q != q) for p, q in zip(x.flat, y.flat))
        except Exception:
            return False
    return bool(np.array_equal(x, y, equal_nan=True))


def snapshot_diff(then, now):
    """None, or in which respect the same action differs between two moments (exact comparison: evaluating the same payloads on
    the same inputs in the same order is deterministic, floats included)"""
    if then.dims != now.dims or then.sizes != now.sizes:
        return f"dimensions were {list(zip(then.dims, then.sizes))}, are now {list(zip(now.dims, now.sizes))}"
    if then.labels != now.labels:
        d = next(d for d in then.dims if then.labels[d] != now.labels[d])
        return f"coordinate {d} was {then.labels[d]}, is now {now.labels[d]}"
    if then.scalars != now.scalars:
        return f"scalar coordinates were {then.scalars}, are now {now.scalars}"
    if (then.exc is None) != (now.exc is None):
        was = "a value" if then.exc is None else f"{type(then.exc).__name__}: {str(then.exc)[:100]}"
        now_ = "a value" if now.exc is None else f"{type(now.exc).__name__}: {str(now.exc)[:100]}"
        return f"evaluating the graph gave {was}, now gives {now_}"
    if then.exc is not None:
        return None if type(then.exc) is type(now.exc) else f"evaluating raised {type(then.exc).__name__}, now raises {type(now.exc).__name__}"
    if then.inames != now.inames:
        return f"the values had internal dimensions {then.inames}, now have {now.inames}"
    if then.values.shape != now.values.shape:
        return f"value shape was {then.values.shape}, is now {now.values.shape}"
    if not _same_values(then.values, now.values):
        bad = next((idx for idx in np.ndindex(*then.values.shape)
                    if not _same_values(np.asarray(then.values[idx]), np.asarray(now.values[idx]))), None)
        return f"value at {bad} was {then.values[bad] if bad is not None else '?'}, is now {now.values[bad] if bad is not None else '?'}"
    return None


def float_scale(prog, k, refs):
    """magnitude of the operands of statement k (1 for exact programs): float tolerances are relative to it"""
    if not prog.get("float"):
        return 1.0
    m = 1.0
    for o in operands(prog["stmts"][k]):
        r = refs[o]
        if r is not None and r.data.size:
            try:
                m = max(m, float(np.max(np.abs(r.data.astype(float)))))
            except Exception:
                pass
    return m


# ----------------------------------------------------------------------------- generator (adaptive: looks at the real results so far)

NAMED = ["sum", "prod", "min", "max", "mean", "std"]


class Gen:
    def __init__(self, rng, max_ops=4, max_pos=36, allow_float=True, ext=False):
        self.rng = rng
        self.max_ops = max_ops
        self.max_pos = max_pos
        self.ext = ext          # C13's extended vocabulary (C14's model knows the basic one only)
        if ext:
            internal = rng.choice([[], [3], [3], [2, 2], [2, 3], [3, 2], [4], [5], [2, 3, 2], [4, 3], [3, 3]])
        else:
            internal = rng.choice([[], [3], [3], [2, 2], [2, 3]])
        self.prog = {"stmts": [], "internal": internal, "vseed": rng.randrange(1000), "float": False}
        if ext and rng.random() < 0.3:
            self.prog["xr"] = True      # values are xarray DataArrays: the other backend is dispatched
            if not internal:
                self.prog["internal"] = rng.choice([[3], [2, 3]])
        self.xr = bool(self.prog.get("xr"))
        if ext and rng.random() < (0.3 if self.xr else 0.06):
            # a few programs on single-precision / integer inputs (the backends' dtype-dependent behaviour); plain arrays then
            # run in float mode (NumPy arrays instead of Fractions)
            self.prog["dtype"] = rng.choice(["float32", "float32", "int64", "int32"])
            if not self.xr:
                self.prog["float"] = True
                if not internal:
                    self.prog["internal"] = rng.choice([[3], [2, 2]])
        # a few programs with ONE long dimension (8..12) that is first reduced in batches of 2 or 3: the batching loop of
        # Action.reduce then runs 2-4 times (batch.0.<d>, batch.1.<d>, ...)
        self.big = ext and rng.random() < 0.07
        self.max_size = 7 if ext else 5
        self.allow_float = allow_float
        self.env = []      # real results
        self.fresh = 0

    # -- helpers
    def name(self, prefix):
        self.fresh += 1
        return f"{prefix}{self.fresh}"

    def labels_for(self, n, style=None):
        style = style or self.rng.choice(["tens", "tens", "tens", "str", "off"])
        if style == "tens":
            return [10 * j for j in range(n)]
        if style == "off":
            return [5 + 3 * j for j in range(n)]
        return ["abcdefgh"[j] if j < 8 else "l%d" % j for j in range(n)]

    def push(self, st):
        if self.ext and st["op"] not in ("source", "alias") and "reg" not in st and self.rng.random() < 0.08:
            st = dict(st, reg=self.rng.choice(["default", "c13sub"]))
        self.prog["stmts"].append(st)
        k = len(self.env)
        if any(isinstance(self.env[o], tuple) for o in operands(st)):
            self.env.append(("skip",))
            return k
        try:
            r = exec_stmt(st, self.env)
        except Exception as e:
            r = ("err", err_class(e), f"{type(e).__name__}: {str(e)[:160]}")
        self.env.append(r)
        return k

    def live(self):
        return [k for k, r in enumerate(self.env) if not isinstance(r, tuple)]

    def base(self):
        return sum(int(np.prod([len(l) for _, l in s["dims"]])) for s in self.prog["stmts"] if s["op"] == "source")

    def new_source(self, dims):
        return self.push({"op": "source", "dims": dims, "base": self.base()})

    def random_dims(self):
        rng = self.rng
        nd = rng.randint(1, 3)
        while True:
            sizes = [rng.randint(1, self.max_size) for _ in range(nd)]
            if int(np.prod(sizes)) <= self.max_pos:
                break
        return [[f"d{i}", self.labels_for(s)] for i, s in enumerate(sizes)]

    def big_dims(self):
        """one dimension of size 8..12 at a random position, the others of size 1..3 (at most max_pos positions)"""
        rng = self.rng
        nd = rng.randint(1, 3)
        big = rng.randint(8, 12)
        while True:
            sizes = [rng.randint(1, 3) for _ in range(nd)]
            sizes[rng.randrange(nd)] = big
            if int(np.prod(sizes)) <= self.max_pos:
                break
        return [[f"d{i}", self.labels_for(s)] for i, s in enumerate(sizes)]

    def big_first_op(self, k):
        """the long dimension reduced in batches of 2 or 3 (a named reduction, mean / std rewrites included, or the batchable
        custom function): 2-4 rounds of batching"""
        rng = self.rng
        dims = self.dims_of(k)
        d = max(dims, key=lambda x: len(x[1]))[0]
        omit = dims[0][0] == d and rng.random() < 0.4
        bs = rng.choice([2, 2, 3])
        keep = rng.random() < 0.25
        if rng.random() < 0.2:
            return self.push({"op": "reduce", "a": k, "fn": "first", "dim": None if omit else d, "bs": bs, "keep": keep})
        name = rng.choice(NAMED if self.allow_float else NAMED[:-1])
        if name == "std":
            self.prog["float"] = True
        return self.push({"op": "named", "a": k, "name": name, "dim": None if omit else d, "bs": bs, "keep": keep, "kw": []})

    def dims_of(self, k):
        n = self.env[k].nodes
        out = []
        for d in n.dims:
            d = str(d)
            lab = [_canon_label(x) for x in n.coords[d].data.tolist()] if d in n.coords else list(range(n.sizes[d]))
            out.append([d, lab])
        return out

    def internal_ndim(self, k):
        """internal ndim of variable k according to the reference (None if unknown)"""
        ref = run_ref(self.prog)[k]
        return None if ref is None else len(ref.internal)

    def partner(self, k, relabel=False, permute=True):
        """a variable with the same dimensions as k (an existing one, or a fresh source)"""
        rng = self.rng
        dk = self.dims_of(k)
        same = [j for j in self.live() if j != k and sorted(map(tuple_, self.dims_of(j))) == sorted(map(tuple_, dk))
                and self.internal_ndim(j) == self.internal_ndim(k)]
        if same and rng.random() < 0.6:
            return rng.choice(same)
        if any(OPAQUE in l for _, l in dk) or self.internal_ndim(k) != len(self.prog["internal"]):
            return rng.choice(same) if same else None
        dims = [[d, list(l)] for d, l in dk]
        if permute and rng.random() < 0.4:
            rng.shuffle(dims)
        if relabel:
            for x in dims:
                if rng.random() < 0.6:
                    x[1] = [100 + v for v in range(len(x[1]))]
        return self.new_source(dims)

    # -- one random operation on variable k
    def op_on(self, k):
        rng = self.rng
        a = self.env[k]
        dims = self.dims_of(k)
        names = [d for d, _ in dims]
        sizes = {d: len(l) for d, l in dims}
        ind = self.internal_ndim(k)
        kinds = ["named"] * 6 + ["reduce"] * 2 + ["map"] * 2 + ["stack", "concatenate", "flatten", "select", "select", "iselect",
                 "expand", "expand", "broadcast", "broadcast", "join", "join", "arith", "arith", "arith", "transform", "transform"]
        if self.ext:
            kinds += ["mapn", "selectn", "selectn", "arithx", "arithx", "arithx", "joinx", "unindexed", "unindexed", "expand", "expand",
                      "repeat", "repeat", "repeat", "repeat", "power", "power", "defaultdim", "defaultdim", "defaultdim"]
        kind = rng.choice(kinds)
        bad = rng.random() < 0.08     # deliberately invalid argument
        if self.ext and kind in ("mapn", "selectn", "arithx", "joinx", "unindexed", "repeat", "power", "defaultdim"):
            return self.op_ext(kind, k, dims, names, sizes, ind, bad)
        if kind in ("named", "reduce", "stack", "concatenate", "flatten", "select", "iselect") and not names:
            kind = "map"
        d = rng.choice(names) if names else ""
        n = sizes.get(d, 0)
        bs = rng.choice([0, 0, 1] + list(range(2, n + 3)))
        keep = rng.random() < 0.35
        if kind == "named":
            big = [x for x in names if sizes[x] >= 2]
            if big and rng.random() < 0.9:
                d = rng.choice(big)
                n = sizes[d]
                bs = rng.choice([0, 0, 1] + list(range(2, n + 3)))
                rem1 = [b for b in range(2, n) if n % b == 1]
                if rem1 and rng.random() < 0.3:
                    bs = rng.choice(rem1)          # the last batch is a singleton
            name = rng.choice(NAMED)
            if name == "std" and not self.allow_float:
                name = "mean"
            if name == "std":
                self.prog["float"] = True
            kw = [["axis", 0]] if (rng.random() < 0.12 and n >= 2) else []
            dd = "zz" if bad else d
            if self.ext and names and rng.random() < 0.22:
                # the dimension is OMITTED (a.mean(), a.sum(batch_size=2)): the default is the first dimension, whichever d was drawn;
                # now and then the default written out (dim="")
                d = names[0]
                n = sizes[d]
                bs = rng.choice([0, 0, 1] + list(range(2, n + 3)))
                dd = None if rng.random() < 0.8 else ""
            elif rng.random() < 0.1 and names and names[0] == d:
                dd = ""
            return self.push({"op": "named", "a": k, "name": name, "dim": dd, "bs": bs, "keep": keep, "kw": kw})
        if kind == "reduce":
            fn = rng.choice(["wsum", "first", "minmax"])
            if self.ext and names and rng.random() < 0.2:
                d = names[0]
                n = sizes[d]
                bs = rng.choice([0, 0, 1] + list(range(2, n + 3)))
                st = {"op": "reduce", "a": k, "fn": fn, "dim": None, "bs": 0, "keep": keep}      # a.reduce(f): dim omitted
            else:
                st = {"op": "reduce", "a": k, "fn": fn, "dim": d, "bs": 0, "keep": keep}
            if fn == "first":
                st["bs"] = bs
            elif fn == "wsum":
                st["bs"] = bs if bad else rng.choice([0, 1, n, n + 1])
            else:
                st["yields"] = [self.name("y"), [0, 1]]
                st["bs"] = 2 if bad else 0
            return self.push(st)
        if kind == "map":
            fn = rng.choice(["neg", "affine", "twice"])
            st = {"op": "map", "a": k, "fn": fn}
            if fn == "affine":
                st["k"] = rng.choice([2, 3, -1])
            if fn == "twice":
                st["yields"] = [self.name("y"), [0, 1]]
            return self.push(st)
        if kind == "stack":
            axis = rng.randint(0, ind) if ind else 0
            st = {"op": "stack", "a": k, "dim": "zz" if bad else d, "bs": bs if bad else rng.choice([0, 1, n, n + 2]), "keep": keep, "axis": axis}
            return self.push(self.with_backend_kw(st, k, ind))
        if kind == "concatenate":
            if not ind:
                return self.push(self.with_backend_kw({"op": "flatten", "a": k, "dim": d, "axis": 0}, k, ind))
            return self.push(self.with_backend_kw({"op": "concatenate", "a": k, "dim": d, "bs": bs, "keep": keep}, k, ind))
        if kind == "flatten":
            if self.ext and rng.random() < 0.2:
                d = None        # a.flatten(): dim omitted, the first dimension
            return self.push(self.with_backend_kw({"op": "flatten", "a": k, "dim": d, "axis": rng.randint(0, ind) if ind else 0}, k, ind))
        if kind == "select":
            lab = dict(dims)[d]
            scal = [(str(c), _canon_label(v.data.item())) for c, v in a.nodes.coords.items() if c not in a.nodes.dims and v.data.shape == ()]
            if scal and rng.random() < 0.25:
                c, v = rng.choice(scal)
                return self.push({"op": "select", "a": k, "dim": c, "val": v if rng.random() < 0.7 else 12345, "drop": rng.random() < 0.5})
            if OPAQUE in lab:
                return self.push({"op": "iselect", "a": k, "dim": d, "val": 0, "drop": rng.random() < 0.5})
            if rng.random() < 0.6:
                v = 12345 if bad else rng.choice(lab)
                return self.push({"op": "select", "a": k, "dim": d, "val": v, "drop": rng.random() < 0.5})
            vs = rng.sample(lab, rng.randint(1, len(lab)))
            return self.push({"op": "select", "a": k, "dim": d, "vals": vs, "drop": rng.random() < 0.5})
        if kind == "iselect":
            if rng.random() < 0.6:
                return self.push({"op": "iselect", "a": k, "dim": d, "val": n + 1 if bad else rng.randrange(n), "drop": rng.random() < 0.5})
            vs = [rng.randrange(n) for _ in range(rng.randint(1, n))]
            return self.push({"op": "iselect", "a": k, "dim": d, "vals": vs, "drop": rng.random() < 0.5})
        if kind == "expand":
            if not ind:
                return self.op_map_fallback(k)
            ref = run_ref(self.prog)[k]
            i = rng.randrange(ind)
            m = ref.internal[i]
            size = m + 1 if (bad and rng.random() < 0.3) else rng.randint(1, m)
            nm = self.name("e")
            dim = nm if rng.random() < 0.6 else [nm, self.labels_for(size if not bad else size + 1, "str")]
            if self.ext and ref.idims is not None and rng.random() < 0.75:
                # arrays with named dimensions: the internal dimension by NAME, or as (name, selection criteria)
                iname = ref.idims[i]
                st = {"op": "expand", "a": k, "dim": dim, "axis": rng.randint(0, len(names))}
                if rng.random() < 0.4:
                    st.update(internal=iname, size=size)
                else:
                    pos = rng.sample(range(m), size) if size <= m else list(range(size))
                    if rng.random() < 0.5 or iname not in (ref.icoords or {}):
                        st.update(icoord=[iname, pos])
                    else:
                        st.update(icoord=[iname, [ref.icoords[iname][q] if q < m else 9999 for q in pos]], kw=[["method", "sel"]])
                    if rng.random() < 0.15:
                        st["size"] = size     # ignored by expand when internal_dim is a Coord
                return self.push(st)
            if rng.random() < (0.6 if (self.ext and ind >= 2) else 0.35):
                i -= ind          # the same internal axis counted from the end (numpy.take accepts negative axes)
            st = {"op": "expand", "a": k, "dim": dim, "internal": i, "size": size, "axis": rng.randint(0, len(names))}
            if self.ext and rng.random() < 0.3:
                # backend_kwargs travel to the backend's take: numpy.take(mode=...) lets the index run past the end
                if ref.idims is None:
                    st["kw"] = [["mode", rng.choice(["wrap", "clip"])]]
                    st["size"] = rng.randint(1, m + 2)
                    if not isinstance(dim, str):
                        st["dim"] = [dim[0], self.labels_for(st["size"], "str")]
                else:
                    st["kw"] = [["missing_dims", "raise"]]
            if self.ext and bad and rng.random() < 0.3:
                st["size"] = None     # dim_size forgotten
            return self.push(st)
        if kind == "broadcast":
            # the other action: shares some of k's dimensions (same labels) and brings new ones
            plain = all(OPAQUE not in l for _, l in dims)
            cands = [j for j in self.live() if j != k]
            if cands and rng.random() < 0.3 or not plain:
                if not cands:
                    return self.op_map_fallback(k)
                st = {"op": "broadcast", "a": k, "b": rng.choice(cands)}
                if self.ext and rng.random() < 0.35:
                    od_names = [x for x, _ in self.dims_of(st["b"])]
                    pool = od_names + names
                    st["exclude"] = rng.sample(pool, rng.randint(0, min(2, len(pool)))) if pool else []
                return self.push(st)
            shared = [[d_, list(l)] for d_, l in dims if rng.random() < 0.6]
            if bad and shared:
                shared[0][1] = [v if isinstance(v, str) else v + 1 for v in shared[0][1]]
            extra = [[self.name("b"), self.labels_for(rng.randint(1, 3))] for _ in range(rng.randint(0, 2))]
            od = shared + extra
            rng.shuffle(od)
            if not od or int(np.prod([len(l) for _, l in od])) * int(np.prod([len(l) for d_, l in dims if d_ not in [x[0] for x in od]] or [1])) > 3 * self.max_pos:
                od = od[:1] or [[self.name("b"), self.labels_for(2)]]
            j = self.new_source(od)
            st = {"op": "broadcast", "a": k, "b": j}
            if self.ext and rng.random() < 0.35:
                pool = [x[0] for x in od] + names + ["zz"]
                st["exclude"] = rng.sample(pool, rng.randint(0, min(2, len(pool))))
            return self.push(st)
        if kind == "join":
            match = rng.random() < 0.4
            j = self.partner(k, relabel=match)
            if j is None:
                return self.op_map_fallback(k)
            r = rng.random()
            if r < 0.4 or not names:
                dim = self.name("j")
            elif r < 0.7:
                dim = [self.name("j"), self.labels_for(2 if not bad else 3, "str")]
            else:
                dim = d
            return self.push({"op": "join", "a": k, "b": j, "dim": dim, "match": match})
        if kind == "arith":
            fn = rng.choice(["add", "subtract", "multiply", "divide", "pow"])
            if rng.random() < 0.45 or fn == "pow":
                sc = 2 if fn == "pow" else rng.choice([2, 3, -1, 5])
                if fn == "pow":
                    # integer exponents 0, 1, 2, 3, 4, -1 (exact on Fractions); the float exponent 0.5 only on float values (C13 basic
                    # vocabulary of C14: the exponent 2)
                    sc = rng.choice([2, 2, 3, 3, 4, 0, 1, -1, 0.5]) if self.ext else 2
                    if sc == 0.5:
                        if self.xr or self.prog.get("float") or self.allow_float:
                            if not self.xr:
                                self.prog["float"] = True
                        else:
                            sc = 3
                return self.push({"op": "arith", "a": k, "fn": fn, "scalar": sc})
            j = self.partner(k, relabel=rng.random() < 0.5)
            if j is None:
                return self.op_map_fallback(k)
            return self.push({"op": "arith", "a": k, "fn": fn, "b": j})
        if kind == "transform":
            func = rng.choice(["mul", "seldrop", "sel", "take"])
            axis = rng.randint(0, len(names) - (1 if func in ("seldrop",) and names else 0))
            nm = self.name("t")
            if func == "take" and not ind:
                func = "mul"
            if func in ("seldrop", "sel") and (not names or OPAQUE in dict(dims)[d]):
                func = "mul"
            if func == "mul":
                params = [rng.choice([2, 3, -1]) for _ in range(rng.randint(1, 3))]
            elif func == "take":
                m = run_ref(self.prog)[k].internal[0]
                params = [rng.randrange(m) for _ in range(rng.randint(1, 3))]
            else:
                lab = dict(dims)[d]
                params = rng.sample(lab, rng.randint(1, min(3, len(lab))))
            st = {"op": "transform", "a": k, "func": func, "params": params, "axis": axis}
            if func in ("seldrop", "sel"):
                st["fdim"] = d
            if func == "sel":
                st["dim"] = d
                st["axis"] = 0
            else:
                st["dim"] = nm if rng.random() < 0.6 else [nm, self.labels_for(len(params), "str")]
            return self.push(st)
        return self.op_map_fallback(k)

    def with_backend_kw(self, st, k, ind):
        """ext: negative axes, and the keyword arguments the backend needs (DataArrays: the NAME of the axis)"""
        rng = self.rng
        if not self.ext:
            return st
        if st["op"] in ("stack", "flatten") and ind is not None and rng.random() < 0.35:
            st["axis"] = -rng.randint(1, ind + 1)
        ref = run_ref(self.prog)[k]
        if ref is not None and ref.idims is not None:
            if st["op"] in ("stack", "flatten"):
                if rng.random() < 0.93:
                    st["kw"] = [["dim", self.name("s")]]
            elif ref.idims and rng.random() < 0.93:
                st["kw"] = [["dim", rng.choice(ref.idims)]]
        elif st["op"] == "concatenate" and ind and rng.random() < 0.3:
            st["kw"] = [["axis", rng.randint(-ind, ind - 1)]]
        return st

    def sub_source(self, dims, allow_extra=True):
        """a fresh source over a subset of the given dimensions (same labels), possibly with one dimension of its own"""
        rng = self.rng
        od = [[d, list(l)] for d, l in dims if rng.random() < 0.5 and OPAQUE not in l and not any(str(x).startswith("keep:") for x in l)]
        if allow_extra and (not od or rng.random() < 0.4):
            od.append([self.name("x"), self.labels_for(rng.randint(1, 3))])
        rng.shuffle(od)
        return self.new_source(od)

    def op_ext(self, kind, k, dims, names, sizes, ind, bad):
        rng = self.rng
        a = self.env[k]
        if kind == "mapn":
            shape = [sizes[d] for d in names]
            n = int(np.prod(shape)) if shape else 1
            ks = [rng.choice([2, 3, 5, 7, -1, -2, 4, 6, 9, 11]) + 20 * i for i in range(n)]     # every node its own payload
            if bad and len(shape) >= 2 and len(set(shape)) > 1:
                shape = shape[::-1]
            elif bad:
                shape, ks = shape + [2], ks + ks
            return self.push({"op": "mapn", "a": k, "shape": shape, "ks": ks, "as": rng.choice(["ndarray", "list"])})
        if kind == "selectn":
            if not names:
                return self.op_map_fallback(k)
            how = rng.choice(["select", "iselect"])
            chosen = rng.sample(names, rng.randint(1, min(3, len(names))))
            crit = []
            for d in chosen:
                lab = dict(dims)[d]
                opaque = OPAQUE in lab
                if how == "select" and not opaque:
                    if rng.random() < 0.6:
                        crit.append([d, "val", rng.choice(lab)])
                    else:
                        crit.append([d, "vals", rng.sample(lab, rng.randint(1, len(lab)))])
                else:
                    how_here = "iselect"
                    if how != how_here:
                        how = how_here
                        crit = []
                    if rng.random() < 0.6:
                        crit.append([d, "val", rng.randrange(sizes[d])])
                    else:
                        crit.append([d, "vals", [rng.randrange(sizes[d]) for _ in range(rng.randint(1, sizes[d]))]])
            if bad:
                if rng.random() < 0.5:
                    crit.append(["zz", "val", 0])
                elif how == "select":
                    crit[-1] = [crit[-1][0], "val", 12345]
                else:
                    crit[-1] = [crit[-1][0], "val", sizes[crit[-1][0]] + 3]
            return self.push({"op": "selectn", "a": k, "how": how, "crit": crit, "drop": rng.random() < 0.5,
                              "via": rng.choice(["dict", "kwargs", "mixed"]), "alias": rng.random() < 0.5})
        if kind in ("arithx", "joinx"):
            # the other operand has DIFFERENT dimensions: a reduction of k (x - x.mean(d)), a source over some of k's
            # dimensions and/or one of its own
            r = rng.random()
            big = [x for x in names if sizes[x] >= 2]
            if r < 0.45 and big:
                d = rng.choice(big)
                nm = rng.choice(["mean", "sum", "max"])
                j = self.push({"op": "named", "a": k, "name": nm, "dim": d, "bs": rng.choice([0, 0, 2]), "keep": rng.random() < 0.25, "kw": []})
            else:
                if self.internal_ndim(k) != len(self.prog["internal"]):
                    return self.op_map_fallback(k)
                j = self.sub_source(dims)
            if isinstance(self.env[j], tuple):
                return j
            x, y = (k, j) if rng.random() < 0.6 else (j, k)
            if kind == "arithx":
                return self.push({"op": "arith", "a": x, "fn": rng.choice(["add", "subtract", "multiply", "divide"]), "b": y})
            dim = self.name("j") if rng.random() < 0.6 else [self.name("j"), self.labels_for(2, "str")]
            return self.push({"op": "join", "a": x, "b": y, "dim": dim, "match": rng.random() < 0.4})
        if kind == "power":
            # a.power(k): integer exponents (exact on Fractions), -1, and the float exponent 0.5 on float values
            sc = rng.choice([0, 1, 3, 3, 4, 4, -1, -1, 2, 0.5])
            if sc == 0.5 and not (self.xr or self.prog.get("float")):
                if self.allow_float and rng.random() < 0.5:
                    self.prog["float"] = True
                else:
                    sc = 3
            return self.push({"op": "arith", "a": k, "fn": "pow", "scalar": sc})
        if kind == "defaultdim":
            # the reduced dimension is OMITTED on an array of >= 2 dimensions whose first dimension has >= 2 elements: a.mean(),
            # a.std(batch_size=2), a.reduce(f), a.flatten() — the default must be the FIRST dimension
            if len(names) < 2 or sizes[names[0]] < 2:
                j = self.new_source([["d0", self.labels_for(rng.randint(2, 5))], ["d1", self.labels_for(rng.randint(2, 4))]] +
                                    ([["d2", self.labels_for(rng.randint(1, 3))]] if rng.random() < 0.3 else []))
                if isinstance(self.env[j], tuple):
                    return j
                k = j
                dims = self.dims_of(k)
                names = [d for d, _ in dims]
                sizes = {d: len(l) for d, l in dims}
            n = sizes[names[0]]
            bs = rng.choice([0, 0, 1] + list(range(2, n + 2)))
            keep = rng.random() < 0.3
            r = rng.random()
            if r < 0.75:
                name = rng.choice(["mean", "mean", "std", "std", "sum", "prod", "min", "max"])
                if name == "std" and not self.allow_float:
                    name = "mean"
                if name == "std":
                    self.prog["float"] = True
                return self.push({"op": "named", "a": k, "name": name, "dim": None, "bs": bs, "keep": keep, "kw": []})
            if r < 0.9:
                return self.push({"op": "reduce", "a": k, "fn": "first", "dim": None, "bs": bs, "keep": keep})
            return self.push(self.with_backend_kw({"op": "flatten", "a": k, "dim": None, "axis": 0}, k, self.internal_ndim(k)))
        if kind == "repeat":
            # the SAME operation twice with DIFFERENT backend arguments (axis / backend_kwargs; the first of them mostly the method's
            # default), chained or side by side on one receiver: what the first call built must not depend on the second
            # (seeded change C13_r3m1: every stack node held ONE kwargs dict by reference, the last call's axis won)
            big = [x for x in names if sizes[x] >= 2]
            ref = run_ref(self.prog)[k]
            if not big or ref is None or ind is None:
                return self.op_map_fallback(k)
            what = rng.choice(["stack", "stack", "concatenate", "named"])
            if what == "concatenate" and not ind:
                what = "stack"
            d1 = rng.choice(big)
            others = [x for x in big if x != d1]
            chain = bool(others) and rng.random() < 0.5
            d2 = rng.choice(others) if chain else rng.choice(big)
            xr_ = ref.idims is not None

            def second_on(first):
                return first if chain else k
            if what == "stack":
                a1 = rng.randint(0, ind)
                nd2 = ind + 1 if chain else ind
                a2 = rng.choice([x for x in range(nd2 + 1) if x != a1] or [-1])
                if a2 >= 0 and rng.random() < 0.25:
                    a2 -= nd2 + 1            # the same position counted from the end
                st1 = {"op": "stack", "a": k, "dim": d1, "bs": 0, "keep": False, "axis": a1}
                if xr_:
                    st1["kw"] = [["dim", self.name("s")]]
                first = self.push(st1)
                if isinstance(self.env[first], tuple):
                    return first
                st2 = {"op": "stack", "a": second_on(first), "dim": d2, "bs": 0, "keep": rng.random() < 0.15, "axis": a2}
                if xr_:
                    st2["kw"] = [["dim", self.name("s")]]
                return self.push(st2)
            if what == "concatenate":
                k1 = rng.randrange(ind)
                k2 = rng.choice([x for x in range(ind) if x != k1] or [-1])

                def ckw(ax):
                    if xr_:
                        return [["dim", ref.idims[ax]]]
                    return [] if (ax == 0 and rng.random() < 0.7) else [["axis", ax]]
                first = self.push({"op": "concatenate", "a": k, "dim": d1, "bs": rng.choice([0, 0, 2]), "keep": False, "kw": ckw(k1)})
                if isinstance(self.env[first], tuple):
                    return first
                return self.push({"op": "concatenate", "a": second_on(first), "dim": d2, "bs": rng.choice([0, 0, 2]),
                                  "keep": rng.random() < 0.15, "kw": ckw(k2)})
            variants = [[], [], [["axis", 0]], [["axis", 1]]] + ([] if xr_ else [[["keepdims", 1]], [["keepdims", 1]], [["keepdims", 0]],
                                                                                 [["axis", 1], ["keepdims", 1]]])
            kw1 = rng.choice(variants)
            kw2 = rng.choice([v for v in variants if v != kw1])
            nm = ["sum", "prod", "min", "max", "mean"]
            first = self.push({"op": "named", "a": k, "name": rng.choice(nm), "dim": d1, "bs": 0 if dict(kw1).get("keepdims") else rng.choice([0, 0, 2]),
                               "keep": False, "kw": kw1})
            if isinstance(self.env[first], tuple):
                return first
            return self.push({"op": "named", "a": second_on(first), "name": rng.choice(nm), "dim": d2,
                              "bs": 0 if dict(kw2).get("keepdims") else rng.choice([0, 0, 2]), "keep": rng.random() < 0.15, "kw": kw2})
        if kind == "unindexed":
            # dimensions WITHOUT coordinate (what join on a new name leaves behind), then the operations that treat them
            # specially: batched reductions with a singleton remainder, stack/concatenate of a single element, keep_dim
            j = self.partner(k, relabel=False, permute=False)
            if j is None:
                return self.op_map_fallback(k)
            z = self.name("z")
            cur = self.push({"op": "join", "a": k, "b": j, "dim": z, "match": False})
            if isinstance(self.env[cur], tuple):
                return cur
            r = rng.random()
            if r < 0.45:
                # grow the dimension to 3..5 so that batch sizes leave a remainder of one
                for _ in range(rng.randint(1, 3)):
                    p2 = self.partner(k, relabel=False, permute=False)
                    if p2 is None:
                        break
                    one = self.push({"op": "join", "a": p2, "b": p2, "dim": z, "match": False})
                    if isinstance(self.env[one], tuple):
                        break
                    one = self.push({"op": "iselect", "a": one, "dim": z, "vals": [0], "drop": False})
                    nxt = self.push({"op": "join", "a": cur, "b": one, "dim": z, "match": False})
                    if isinstance(self.env[nxt], tuple):
                        break
                    cur = nxt
                n = self.env[cur].nodes.sizes[z]
                rem1 = [b for b in range(2, n) if n % b == 1] or [2]
                nm = rng.choice(["sum", "max", "mean", "prod"])
                return self.push({"op": "named", "a": cur, "name": nm, "dim": z, "bs": rng.choice(rem1), "keep": rng.random() < 0.3, "kw": []})
            if r < 0.8:
                one = self.push({"op": "iselect", "a": cur, "dim": z, "vals": [rng.randrange(2)], "drop": rng.random() < 0.5})
                if isinstance(self.env[one], tuple):
                    return one
                op = rng.choice(["stack", "concatenate"])
                return self.push({"op": op, "a": one, "dim": z, "bs": 0, "keep": rng.random() < 0.3, "axis": 0})
            return self.push({"op": "named", "a": cur, "name": rng.choice(["sum", "mean"]), "dim": z, "bs": 0, "keep": True, "kw": []})
        return self.op_map_fallback(k)

    def op_map_fallback(self, k):
        return self.push({"op": "map", "a": k, "fn": "neg"})

    def generate(self):
        rng = self.rng
        k = self.new_source(self.big_dims() if self.big else self.random_dims())
        nops = rng.randint(1, self.max_ops)
        cur = k
        if self.big:
            self.prog["family"] = "long-dimension"
            cur = self.big_first_op(k)
            nops -= 1
        for _ in range(nops):
            lv = self.live()
            if not lv:
                break
            # mostly continue the chain (depth), sometimes branch from an earlier variable
            if isinstance(self.env[cur], tuple) or rng.random() < 0.25:
                cur = rng.choice(lv)
            n = self.env[cur].nodes
            if n.size > 3 * self.max_pos:
                cur = k
            try:
                cur = self.op_on(cur)
            except Exception as e:   # the generator inspects real results; never let that crash a check
                self.prog.setdefault("gen_notes", []).append(f"{type(e).__name__}: {str(e)[:80]}")
                break
        return self.prog


def tuple_(x):
    return (x[0], tuple(x[1]))


def gen_program(rng, max_ops=4, max_pos=36, ext=False):
    return Gen(rng, max_ops=max_ops, max_pos=max_pos, ext=ext).generate()
