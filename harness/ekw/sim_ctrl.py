"""Shared machinery of C01–C04: drives the REAL `cascade.controller.impl.run` against SimBridge (a Python
mirror of the environment `Env` of Model/Ctrl.lean with an adversarial seeded scheduler), records a trace of
(oracle, commands, abstraction(State)) per controller phase, replays it on the Lean model and diffs.

The monitors in SimBridge are the property oracles: they are written from the texts of C02/C04 (and the
end-of-run checks from C01/C03), independently of the Lean model.
"""
import json
import random
import signal
import traceback

from cascade.low.core import DatasetId, Environment, JobInstance, Task2TaskEdge, TaskDefinition, TaskInstance, Worker, WorkerId


# ----------------------------------------------------------------------------- generators

def gen_job_replication(rng, allow_gpu=True):
    """directed family: one (or two) datasets consumed by several tasks that become computable at different times,
    so that on clusters with many single-worker hosts the dataset is replicated to several hosts while earlier
    transfers / fetches of it are still in flight"""
    tasks = [{"nOut": rng.choice([1, 2]), "gpu": False, "params": []}]          # t0: the shared producer
    nb = rng.randint(2, 4)
    big = rng.random() < 0.06
    if big:
        nb = rng.randint(5, 10)        # scale class (re-audit C04 5(iii)): a dataset with 5-10 consumers, on 5 or more hosts
    for _ in range(nb):                                                          # independent sources of different "length"
        tasks.append({"nOut": 1, "gpu": False, "params": []})
        for _ in range(rng.randint(0, 1 if big else 2)):
            tasks.append({"nOut": 1, "gpu": False, "params": [[len(tasks) - 1, 0]]})
    tails = [i for i in range(1, len(tasks)) if not any([i, 0] in t["params"] for t in tasks)]
    for b in tails:                                                              # consumers of t0 joined with each chain's tail
        tasks.append({"nOut": 1, "gpu": allow_gpu and rng.random() < 0.1,
                      "params": [[0, rng.randrange(tasks[0]["nOut"])], [b, 0]]})
    allds = [[t, k] for t in range(len(tasks)) for k in range(tasks[t]["nOut"])]
    p = rng.choice([0.0, 0.3, 1.0])
    ext = [d for d in allds if rng.random() < p or (d[0] == 0 and rng.random() < 0.7)]
    return {"tasks": tasks, "ext": ext, "family": "replication", "branches": nb}


def gen_job_wide(rng):
    """wide family: 33-45 source tasks that are all computable in the first round, joined by a shallow tree (joins of 4-9
    sources, one sink per component) into one or two components; with gen_cluster's 8-15 hosts x 3-4 workers a single
    assign() round hands out 32 or more commands (a per-round cap / any bookkeeping that is only right for short rounds)"""
    nsrc = rng.randint(33, 45)
    tasks = [{"nOut": 2 if rng.random() < 0.1 else 1, "gpu": False, "params": []} for _ in range(nsrc)]
    srcs = list(range(nsrc))
    rng.shuffle(srcs)
    cut = nsrc if rng.random() < 0.7 else rng.randint(nsrc // 2 - 3, nsrc // 2 + 3)
    for group in (srcs[:cut], srcs[cut:]):
        joins = []
        i = 0
        while i < len(group):
            m = rng.randint(4, 9)
            piece = sorted(group[i:i + m])
            i += m
            tasks.append({"nOut": 1, "gpu": False, "params": [[t, rng.randrange(tasks[t]["nOut"])] for t in piece]})
            joins.append(len(tasks) - 1)
        if len(joins) > 1:
            tasks.append({"nOut": 1, "gpu": False, "params": [[t, 0] for t in joins]})
    allds = [[t, k] for t in range(len(tasks)) for k in range(tasks[t]["nOut"])]
    p = rng.choice([0.0, 0.05, 0.2])
    ext = [d for d in allds if rng.random() < p or (d[0] >= nsrc and rng.random() < 0.5)]
    return {"tasks": tasks, "ext": ext, "family": "wide"}


def gen_job(rng, maxn=8, allow_gpu=True, wide=0.0):
    """spec = {"tasks":[{"nOut","gpu","params":[[t,k],...],"nkw","skw","sps"}], "ext":[[t,k],...]} ; tasks are topologically
    numbered. `params` lists ALL upstream inputs of the task; the last `nkw` of them arrive through KEYWORD edges
    (Task2TaskEdge.sink_input_kw), the others through positional edges; `skw`/`sps` = number of static keyword / positional
    inputs of the TaskInstance. For the controller (and for the Lean model's job) a keyword edge is one more input."""
    spec = _gen_job_base(rng, maxn, allow_gpu, wide)
    return decorate_job(rng, spec)


def decorate_job(rng, spec):
    """keyword edges and static inputs (audit probe K): in about 70 % of the jobs every task with upstream inputs gets, with
    probability 1/2, 1..all of its edges turned into keyword edges (so that jobs have tasks fed ONLY by keyword edges, tasks
    with both kinds, and sources consumed through a keyword edge by one task and positionally by another); tasks get 0-2
    static keyword and 0-2 static positional inputs"""
    style = rng.random()
    for t in spec["tasks"]:
        t["nkw"] = t["skw"] = t["sps"] = 0
        if style < 0.3:
            continue
        if t["params"] and rng.random() < (0.5 if style < 0.85 else 1.0):
            t["nkw"] = len(t["params"]) if rng.random() < 0.4 else rng.randint(1, len(t["params"]))
        if rng.random() < 0.4:
            t["skw"] = rng.randint(0, 2)
            t["sps"] = rng.randint(0, 2)
    return spec


def _gen_job_base(rng, maxn=8, allow_gpu=True, wide=0.0):
    if wide and rng.random() < wide:
        return gen_job_wide(rng)
    if maxn >= 6 and rng.random() < 0.3:
        return gen_job_replication(rng, allow_gpu)
    if maxn >= 6 and rng.random() < 0.12:
        # few independent components (isolated tasks / short chains): with more hosts than components the
        # migration round-robin of assign() step II is exercised, incl. components drained within the round
        tasks = []
        for _ in range(rng.randint(2, 4)):
            tasks.append({"nOut": 1, "gpu": False, "params": []})
            if rng.random() < 0.4:
                tasks.append({"nOut": 1, "gpu": False, "params": [[len(tasks) - 1, 0]]})
        allds = [[t, 0] for t in range(len(tasks))]
        return {"tasks": tasks, "ext": [d for d in allds if rng.random() < 0.5]}
    shape = rng.random()
    n = rng.randint(0, maxn) if shape > 0.05 else 0
    tasks = []
    big = rng.random() < 0.3       # jobs with tasks of 4-6 outputs and 4-8 parameters (audit C03 5(ii))
    for i in range(n):
        nout = rng.choice([1, 1, 1, 2, 3])
        if big and rng.random() < 0.35:
            nout = rng.randint(4, 6)
        params = []
        r = rng.random()
        if i > 0 and big and rng.random() < 0.4:
            # 4-8 parameters; the same dataset may feed several of them
            for _ in range(rng.randint(4, 8)):
                src = rng.randrange(i)
                params.append([src, rng.randrange(tasks[src]["nOut"])])
        elif i > 0 and r < 0.78:
            for _ in range(rng.randint(1, min(3, i))):
                src = rng.randrange(i) if rng.random() < 0.6 else i - 1
                params.append([src, rng.randrange(tasks[src]["nOut"])])
        tasks.append({"nOut": nout, "gpu": allow_gpu and rng.random() < 0.15, "params": params})
    allds = [[t, k] for t in range(n) for k in range(tasks[t]["nOut"])]
    p = rng.choice([0.0, 0.3, 0.5, 1.0])
    ext = [d for d in allds if rng.random() < p]
    return {"tasks": tasks, "ext": ext}


def gen_cluster(rng, spec, maxh=3, maxw=3):
    if spec.get("family") == "wide":
        # >= 32 workers, few per host (the base model's purge step is expensive for many workers per host)
        H, W = (rng.randint(11, 15), 3) if rng.random() < 0.6 else (rng.randint(8, 12), 4)
        return [[h, w, rng.random() < 0.2] for h in range(H) for w in range(W)]
    H = rng.randint(1, maxh)
    W = rng.randint(1, maxw)
    if rng.random() < (0.75 if spec.get("family") == "replication" else 0.3):
        # many hosts with one worker each: maximises inter-host transfers; with the replication family the shared dataset
        # ends up on several hosts, so that later transfers of it have a real choice of `available` sources
        H, W = rng.randint(3, max(3, maxh + 1)), 1
        if spec.get("branches", 0) >= 5:
            H = rng.randint(5, min(8, spec["branches"] + 1))
    ws = [[h, w, rng.random() < 0.3] for h in range(H) for w in range(W)]
    if any(t["gpu"] for t in spec["tasks"]) and not any(w[2] for w in ws):
        ws[rng.randrange(len(ws))][2] = True
    return ws


def inputs_of(task):
    seen = []
    for d in task["params"]:
        if d not in seen:
            seen.append(d)
    return seen


def tname(t):
    return f"t{t}"


# output names: the DECLARATION order of a task's outputs is index order 0..nOut-1; the names are chosen so that
# declaration order differs from lexicographic order (the runner/controller must not depend on sorted names)
_ONAMES = {1: ["0"], 2: ["b", "a"], 3: ["c", "a", "b"]}


def onames(nout):
    return _ONAMES.get(nout) or [f"o{(k * 7 + 3) % nout:02d}" for k in range(nout)]


_NOUT = {}   # task name -> nOut of the job currently built (set by build_job)


def dsid(d):
    return DatasetId(tname(d[0]), onames(_NOUT[d[0]])[d[1]])


def wid(w):
    return WorkerId(f"h{w[0]}", f"w{w[1]}")


def un_ds(ds):
    t = int(ds.task[1:])
    return [t, onames(_NOUT[t]).index(ds.output)]


def un_w(w):
    return [int(w.host[1:]), int(w.worker[1:])]


def un_h(h):
    return int(h[1:])


def build_job(spec):
    tasks = {}
    edges = []
    _NOUT.clear()
    for i, t in enumerate(spec["tasks"]):
        _NOUT[i] = t["nOut"]
    for i, t in enumerate(spec["tasks"]):
        npos = len(t["params"]) - t.get("nkw", 0)
        skw = {f"s{q}": f"static-{i}-{q}" for q in range(t.get("skw", 0))}
        sps = {str(npos + q): q for q in range(t.get("sps", 0))}      # static positions follow the positions fed by edges
        schema = {f"k{p}": "Any" for p in range(npos, len(t["params"]))}
        schema.update({k: "str" for k in skw})
        d = TaskDefinition(func="x", environment=[], input_schema=schema, output_schema={o: "Any" for o in onames(t["nOut"])}, needs_gpu=t["gpu"])
        tasks[tname(i)] = TaskInstance(definition=d, static_input_kw=skw, static_input_ps=sps)
        for p, src in enumerate(t["params"]):
            if p < npos:
                edges.append(Task2TaskEdge(source=dsid(src), sink_task=tname(i), sink_input_kw=None, sink_input_ps=p))
            else:
                edges.append(Task2TaskEdge(source=dsid(src), sink_task=tname(i), sink_input_kw=f"k{p}", sink_input_ps=None))
    return JobInstance(tasks=tasks, edges=edges, ext_outputs=[dsid(d) for d in spec["ext"]])


def build_env(ws):
    return Environment(workers={wid(w): Worker(cpu=1, gpu=1 if w[2] else 0, memory_mb=1) for w in ws})


def sem(t, k, args):
    return f"t{t}.{k}(" + ",".join(args) + ")"


def seq_eval(spec):
    """sequential evaluation in one process (the reference of C01)"""
    tbl = {}
    for i, t in enumerate(spec["tasks"]):
        args = [tbl[tuple(d)] for d in inputs_of(t)]
        for k in range(t["nOut"]):
            tbl[(i, k)] = sem(i, k, args)
    return tbl


# ----------------------------------------------------------------------------- SimBridge

# C04 clause (c), "never drops it while a transfer or fetch it commanded from that host is still unanswered". Decision (audit
# re-look item C04.1): READ LITERALLY - the answer of a transfer is the DatasetPublished(transmit_idx) notice reaching the
# controller - the clause FAILS on the real controller in exactly one way: the transfer has been performed, the copy is stored at
# the target, a consumer on the target has completed and its completion reached the controller BEFORE the bare notice of the
# transfer did; the source is then purged with the notice still on its way (Lean: c04_transfer_notice_full_fails; what IS
# guaranteed: c04_queued_purge_io_done / c04_purge_io_done; witness corpus/Ctrl_c04_late_transfer_notice.json). It is harmless
# (nothing reads the source any more) but it is a violation of the text as written, so it is a KNOWN FINDING with the
# mechanism-specific signature {kind: purge-before-transfer-notice, transfer: performed-and-stored-at-target}
# (id C04-purge-before-transfer-notice, proposed in known/r2ctrl.json). A purge while a transfer from that host has NOT been
# performed is a different kind (`purge-while-outstanding-from`, always on), and a pending notice whose copy is not at the target is
# reported with transfer: not-stored-at-target, which no known finding matches.
# The literal monitor reports through the oracle as soon as known_findings.json lists the finding (the check cannot list it
# itself: known_findings.json is the coordinator's); until then the situation is counted
# (`purges_of_a_source_whose_transfer_notice_is_undelivered`) and its corpus witness must reproduce (ctrl_check).
LITERAL_FINDING_ID = "C04-purge-before-transfer-notice"


def _literal_monitor_on():
    try:
        from ekw.core import KNOWN_FILE
        return any(k.get("id") == LITERAL_FINDING_ID and k.get("status") == "known" for k in json.loads(KNOWN_FILE.read_text()).get("findings", []))
    except Exception:
        return False


FLAG_LITERAL_UNANSWERED = _literal_monitor_on()
# monitors of SimBridge that the model's environment does not have (subtracted when the two monitor sets are compared)
NOT_MODEL_MONITORS = {"C04 purge-before-transfer-notice"}

class WaitWithNothingOutstanding(Exception):
    pass


class StrictVal:
    """A payload value that refuses to be COMPARED (half of the runs deliver requested values wrapped in it): the values of
    a job are arbitrary Python objects - NumPy arrays, xarray objects - whose `==`/`!=` are element-wise or raise, so a
    controller that looks at a delivered value with anything but `is` (== / != / `in` over a list of values) is wrong for
    them. `==`/`!=` with anything that is not a StrictVal raise TypeError, which surfaces as a controller exception (C03
    controller-exception, C01 run-did-not-return-requested-outputs). repr/str give the underlying term, so the abstraction
    of the State and the comparison with the model's values are unchanged. Picklable by reference (module level)."""
    __slots__ = ("v",)

    def __init__(self, v):
        self.v = v

    def __repr__(self):
        return self.v

    __str__ = __repr__

    def __hash__(self):
        return hash(("StrictVal", self.v))

    def __eq__(self, other):
        if isinstance(other, StrictVal):
            return self.v == other.v
        raise TypeError("StrictVal: a delivered value was compared with == to " + type(other).__name__)

    def __ne__(self, other):
        if isinstance(other, StrictVal):
            return self.v != other.v
        raise TypeError("StrictVal: a delivered value was compared with != to " + type(other).__name__)

    def __bool__(self):
        raise TypeError("StrictVal: the truth value of a delivered value was taken")

    def __reduce__(self):
        return (StrictVal, (self.v,))


def unwrap(v):
    return v.v if isinstance(v, StrictVal) else v


class Livelock(BaseException):
    pass


class SimBridge:
    """Abstract executors. Every scheduling choice comes from `rng`; `fifo` keeps events in production order."""

    def __init__(self, spec, ws, rng, fifo, trace, none_output=None, strict=False):
        from cascade.executor.msg import DatasetPublished, DatasetTransmitPayload, DatasetTransmitPayloadHeader
        self.DP, self.DTP, self.DTPH = DatasetPublished, DatasetTransmitPayload, DatasetTransmitPayloadHeader
        self.spec, self.ws, self.rng, self.fifo, self.trace = spec, ws, rng, fifo, trace
        self.env = build_env(ws)
        self.hosts = sorted({w[0] for w in ws})
        self.present = {h: {} for h in self.hosts}       # host -> {(t,k): val}
        self.queued = []                                  # [(w(h,i), t)]
        self.outstanding = []                             # [("transmit",(t,k),src,tgt,idx) | ("fetch",(t,k),src,None,idx)]
        self.pending = []                                 # [("pubW",h,i,t,k) | ("pubT",h,t,k) | ("pay",t,k,val)]
        self.idx = 0
        self.viol = []                                    # (kind, detail)
        self.cmds = []                                    # commands since the last trace entry
        self.dispatched = {}
        self.ran = set()
        self.produced = set()
        self.delivered = set()
        self.purged = set()
        self.shutdowns = 0
        self.calls_since_wait = 0
        self.none_output = none_output
        self.strict = strict                              # payload values travel wrapped in StrictVal
        self.gpu = {(w[0], w[1]): w[2] for w in ws}
        # non-atomic task bodies (Model/CtrlN.lean): a started body publishes its outputs one at a time, in index order,
        # as separate environment steps; `ran`/`produced` keep the base model's meaning (set when the body starts)
        self.running = {}                                 # t -> [w, values, next index]
        self.yielded = set()                              # datasets really handed to a host's store
        # executor steps BETWEEN the bridge calls of one controller round (half of the runs): the model allows them between
        # any two controller micro-steps; they are recorded with the number of commands of the round issued before them
        self.midround = rng.random() < 0.5
        self.mid = []                                     # [[k, op], ...] of the current round
        self._mid_k = None
        self.mid_steps = 0
        self.late_notice = rng.random() < 0.3             # any-order runs: transfer notices are delivered last
        self.observe_mid = rng.random() < 0.4             # also compare the State after assign()+act() and after plan()
        self.notes = {}                                   # counters of noteworthy situations (input distribution)
        self.publish = {}                                 # t -> set of (t,k): what the task sequence naming t CARRIED
        self.local_only = set()                           # outputs computed but outside the publish set (never announced)
        self.atomic = rng.random() < 0.25                 # a quarter of the runs: bodies publish everything at once
        # lazy I/O adversary (a third of the runs): some transfers/fetches are performed only when nothing else can happen
        # (no runnable body, no other I/O, no undelivered event) — a slow link; exposes commands that outlive their purpose
        self.lazy_io = rng.random() < 0.33
        self.starved = set()
        self.max_running = 0

    def flag(self, kind, detail):
        self.viol.append((kind, detail))

    def note(self, key, n=1):
        self.notes[key] = self.notes.get(key, 0) + n

    def emit(self, op):
        if self._mid_k is not None:
            self.mid.append([self._mid_k, {k: v for k, v in op.items() if k != "op"}])
        else:
            self.trace.append(op)

    def _maybe_mid(self, purge_ds=None):
        """perform a few executor steps in the middle of a controller round, before the command that is being issued"""
        if not self.midround:
            return
        if purge_ds is not None and self.cmds and self.cmds[-1][0] == "purge" and tuple(self.cmds[-1][2:4]) == purge_ds:
            return      # inside the purge group of one dataset (one micro-step of the model)
        if self.rng.random() >= 0.3:
            return
        self._mid_k = len(self.cmds)
        try:
            for _ in range(self.rng.randint(1, 2)):
                acts = self.enabled_steps()
                if not acts:
                    break
                self.do_step(self.rng.choice(acts))
                self.mid_steps += 1
        finally:
            self._mid_k = None

    # --- Bridge API used by the controller
    def get_environment(self):
        return self.env

    def task_sequence(self, ts):
        self.calls_since_wait += 1
        self._maybe_mid()
        w = tuple(un_w(ts.worker))
        try:
            pub = sorted(un_ds(d) for d in ts.publish)
        except Exception as e:      # a publish set naming something that is not a dataset of the job
            pub = ["unreadable: " + repr(e)[:80]]
        for tn in ts.tasks:
            t = int(tn[1:])
            # the command as it was CARRIED: worker, task and the publish set (the executor publishes nothing else)
            self.cmds.append(["task", w[0], w[1], t, [d for d in pub if isinstance(d, list)]])
            self.publish[t] = {tuple(d) for d in pub if isinstance(d, list)}
            if w not in self.gpu:
                self.flag("C02 unknown-worker", [w, t])
            # "not already busy": nothing dispatched to this worker is still waiting to start AND no body started on it
            # is still running (a started body is no longer in `queued`)
            if any(q[0] == w for q in self.queued) or any(r[0] == w for r in self.running.values()):
                self.flag("C02 busy-worker", [w, t])
            self.dispatched[t] = self.dispatched.get(t, 0) + 1
            if self.dispatched[t] > 1:
                self.flag("C02 double-dispatch", [t])
            if self.spec["tasks"][t]["gpu"] and not self.gpu.get(w, False):
                self.flag("C02 gpu", [w, t])
            for d in map(tuple, inputs_of(self.spec["tasks"][t])):
                if d not in self.produced:
                    self.flag("C02 input-not-produced", [t, d])
                elif d not in self.yielded:
                    self.flag("C02 input-not-published", [t, d])
                if (w[0], d) in self.purged:
                    self.flag("C04 input-purged-on-target", [t, d, w[0]])
                if d not in self.present[w[0]] and not any(o[0] == "transmit" and o[1] == d and o[3] == w[0] for o in self.outstanding):
                    self.flag("C02 input-neither-present-nor-in-transfer", [t, d, w[0]])
            self.queued.append((w, t))

    def transmit(self, ds, src, tgt):
        self.calls_since_wait += 1
        self._maybe_mid()
        d, s, g = tuple(un_ds(ds)), un_h(src), un_h(tgt)
        self.cmds.append(["transmit", d[0], d[1], s, g])
        if d not in self.present[s]:
            self.flag("C04 transmit-from-missing", [d, s])
        self.outstanding.append(("transmit", d, s, g, self.idx))
        dup = any(o[0] == "transmit" and o[1] == d and o[3] == g for o in self.outstanding[:-1])
        if dup or (self.lazy_io and self.rng.random() < 0.4):
            # a second transfer of the same dataset to the same host is redundant: the adversary always lets it linger
            self.starved.add(self.idx)
        self.idx += 1

    def fetch(self, ds, src):
        self.calls_since_wait += 1
        self._maybe_mid()
        d, s = tuple(un_ds(ds)), un_h(src)
        self.cmds.append(["fetch", d[0], d[1], s])
        if d not in self.present[s]:
            self.flag("C04 fetch-from-missing", [d, s])
        self.outstanding.append(("fetch", d, s, None, self.idx))
        if self.lazy_io and self.rng.random() < 0.25:
            self.starved.add(self.idx)
        self.idx += 1

    def purge(self, host, ds):
        self.calls_since_wait += 1
        d, h = tuple(un_ds(ds)), un_h(host)
        self._maybe_mid(purge_ds=(d[0], d[1]))
        self.cmds.append(["purge", h, d[0], d[1]])
        # the literal reading of "unanswered": the notice of a transfer from this host has not reached the controller yet
        if any(e[0] == "pubT" and (e[2], e[3]) == d and e[5] == h for e in self.pending):
            self.note("purges_of_a_source_whose_transfer_notice_is_undelivered")
            if FLAG_LITERAL_UNANSWERED:
                stored = all(d in self.present[e[1]] or (e[1], d) in self.purged
                             for e in self.pending if e[0] == "pubT" and (e[2], e[3]) == d and e[5] == h)
                self.flag("C04 purge-before-transfer-notice", [d, h, "performed-and-stored-at-target" if stored else "not-stored-at-target"])
        if any(e[0] == "pubT" and (e[2], e[3]) == d and e[1] == h for e in self.pending):
            self.note("purges_of_a_host_still_believed_preparing")
        if any(o[1] == d and o[2] == h for o in self.outstanding):
            self.flag("C04 purge-while-outstanding-from", [d, h])
        for i, t in enumerate(self.spec["tasks"]):
            if list(d) in t["params"] and i not in self.ran:
                self.flag("C04 purge-before-consumer-done", [d, i])
            elif list(d) in t["params"] and i in self.running:
                self.flag("C04 purge-while-consumer-running", [d, i, self.running[i][2]])
        if list(d) in self.spec["ext"] and d not in self.delivered:
            self.flag("C04 purge-before-output-delivered", [d])
        for (w, t) in self.queued:
            if w[0] == h and list(d) in self.spec["tasks"][t]["params"]:
                self.flag("C04 purge-needed-by-queued-task", [d, t])
        self.present[h].pop(d, None)
        self.purged.add((h, d))

    def shutdown(self):
        self.shutdowns += 1

    # --- environment steps
    def enabled_steps(self):
        acts = []
        busy = {r[0] for r in self.running.values()}
        for (w, t) in self.queued:
            # a worker process executes one task sequence at a time: a body starts only when none is running on its worker
            if w not in busy and all(tuple(d) in self.present[w[0]] for d in inputs_of(self.spec["tasks"][t])):
                acts.append(("run", w, t))
        for t in self.running:
            acts.append(("yield", t))
        late = []
        for o in self.outstanding:
            (late if o[4] in self.starved else acts).append(("io", o))
        if not acts and not self.pending:
            acts = late
        return acts

    def do_yield(self, t):
        w, vals, k = self.running[t]
        if (t, k) in self.publish.get(t, ()):
            self.present[w[0]][(t, k)] = vals[k]
            self.yielded.add((t, k))
            self.pending.append(("pubW", w[0], w[1], t, k))
        else:
            # not in the publish set the command carried: the value stays in the worker's local memory, reaches no
            # host store and is never announced (runner.run: `outputId in executionContext.publish`)
            self.local_only.add((t, k))
        self.emit({"op": "env", "yield": [t, k]})
        if k + 1 == len(vals):
            del self.running[t]
        else:
            self.running[t][2] = k + 1

    def do_step(self, a):
        if a[0] == "run":
            _, w, t = a
            self.queued.remove((w, t))
            self.ran.add(t)
            args = [self.present[w[0]][tuple(d)] for d in inputs_of(self.spec["tasks"][t])]
            n = self.spec["tasks"][t]["nOut"]
            for k in range(n):
                self.produced.add((t, k))
            self.emit({"op": "env", "run": [w[0], w[1], t]})
            if n > 0:
                self.running[t] = [w, [sem(t, k, args) for k in range(n)], 0]
                self.max_running = max(self.max_running, len(self.running))
            if self.atomic:
                while t in self.running:
                    self.do_yield(t)
        elif a[0] == "yield":
            self.do_yield(a[1])
        else:
            o = a[1]
            self.outstanding.remove(o)
            kind, d, src, tgt, idx = o
            if kind == "transmit":
                self.emit({"op": "env", "io": ["transmit", d[0], d[1], src, tgt]})
            else:
                self.emit({"op": "env", "io": ["fetch", d[0], d[1], src]})
            if d not in self.present[src]:
                self.flag("C04 io-source-gone " + kind, [d, src])
                return
            if kind == "transmit":
                if d not in self.present[tgt]:
                    self.present[tgt][d] = self.present[src][d]
                    self.pending.append(("pubT", tgt, d[0], d[1], idx, src))
                    nh = sum(1 for hh in self.hosts if d in self.present[hh])
                    if nh >= 3:
                        self.note("datasets_on_3_or_more_hosts")
                    if nh >= 5:
                        self.note("datasets_on_5_or_more_hosts")
            else:
                self.pending.append(("pay", d[0], d[1], self.present[src][d]))

    def to_event(self, e):
        import cloudpickle
        if e[0] == "pubW":
            return self.DP(WorkerId(f"h{e[1]}", f"w{e[2]}"), dsid([e[3], e[4]]), None)
        if e[0] == "pubT":
            return self.DP(f"h{e[1]}", dsid([e[2], e[3]]), e[4])
        val = e[3]
        if self.none_output is not None and [e[1], e[2]] == self.none_output:
            val = None
        elif self.strict:
            val = StrictVal(val)
        return self.DTP(self.DTPH("", 0, dsid([e[1], e[2]]), "cloudpickle.loads"), cloudpickle.dumps(val))

    def recv_events(self):
        self.calls_since_wait = 0
        while True:
            acts = self.enabled_steps()
            moved = False
            if acts and (not self.pending or self.rng.random() < 0.6):
                self.do_step(self.rng.choice(acts))
                moved = True
            if self.pending and (not moved or self.rng.random() < 0.4):
                k = self.rng.randint(1, len(self.pending))
                if not self.fifo:
                    self.rng.shuffle(self.pending)
                    if self.late_notice:
                        # transfer notices travel slowly: everything else is delivered first
                        self.pending.sort(key=lambda e: e[0] == "pubT")
                batch, self.pending = self.pending[:k], self.pending[k:]
                for e in batch:
                    if e[0] == "pay":
                        self.delivered.add((e[1], e[2]))
                self.trace.append({"op": "deliver", "events": [list(e[:4]) if e[0] == "pubT" else list(e) for e in batch]})
                return [self.to_event(e) for e in batch]
            if not moved and not self.pending:
                raise WaitWithNothingOutstanding()


# ----------------------------------------------------------------------------- abstraction of the real State

def unfetched(v):
    """the controller's marker for a requested output whose value has not arrived (None on the pinned tree, a placeholder
    object of the scheduler afterwards); a delivered VALUE None is told apart by the caller (it knows which output is None-valued)"""
    if v is None:
        return True
    # exactly the scheduler's marker (OutputStatus.not_fetched on the repaired tree), not "any object of a cascade type":
    # a delivered VALUE of some cascade class would otherwise pass for missing
    try:
        from cascade.scheduler.core import OutputStatus
        return isinstance(v, OutputStatus)
    except ImportError:
        return type(v).__module__.startswith("cascade.")


def _observe(st, spec):
    """abstraction of the real State for the comparison with the model; a State the harness cannot read (a field changed its
    type or vanished) is a broken correspondence, not a crash of the run: the run goes on so that the monitors still see it"""
    try:
        return {"ctl": digest_state(st, spec), "sch": digest_sch(st)}
    except Exception as e:
        return {"unobservable": f"{type(e).__name__}: {e}"[:200]}


def digest_state(state, spec):
    from cascade.scheduler.core import DatasetStatus
    sname = {DatasetStatus.preparing: "preparing", DatasetStatus.available: "available"}
    comp, tracker = [], []
    for c in state.components:
        comp += [int(t[1:]) for t in c.computable]
        for t, s in c.is_computable_tracker.items():
            tracker.append([int(t[1:]), sorted(un_ds(d) for d in s)])
    d = {
        "computable": sorted(comp),
        "computableCnt": state.computable,
        "idle": sorted(un_w(w) for w in state.idle_workers),
        "ongoing": sorted(un_w(w) + [int(t[1:])] for w, ts in state.ongoing.items() for t in ts),
        "ongoingTotal": state.ongoing_total,
        "tracker": sorted(tracker),
        "ptrack": sorted([un_ds(ds), sorted(int(t[1:]) for t in ts)] for ds, ts in state.purging_tracker.items()),
        "purgeQ": sorted(un_ds(ds) for ds in state.purging_queue),
        "fetchQ": [un_ds(ds) + [un_h(h)] for ds, h in state.fetching_queue.items()],
        "fetchIssued": sorted(un_ds(ds) for ds in getattr(state, "fetching_issued", set())),
        "outputs": sorted(un_ds(ds) + [None if unfetched(v) else v if isinstance(v, str) else repr(v)] for ds, v in state.outputs.items()),
        "hostDs": sorted([un_h(h)] + un_ds(ds) + [sname.get(s, str(s))] for h, m in state.host2ds.items() for ds, s in m.items()),
        "dsHost": sorted([un_h(h)] + un_ds(ds) + [sname.get(s, str(s))] for ds, m in state.ds2host.items() for h, s in m.items()),
        "workerDs": sorted(un_w(w) + un_ds(ds) + [sname.get(s, str(s))] for w, m in state.worker2ds.items() for ds, s in m.items()),
        "remaining": state.remaining,
        # the record from which completion is detected (notices of ALL outputs processed); absent on a tree without the
        # repair of notify.py: the comparison with the model's `published` then reports the divergence
        "published": sorted(un_ds(DatasetId(t, o)) for t, outs in getattr(state, "published_outputs", {}).items() for o in outs),
    }
    # ds2worker must mirror worker2ds
    mirror = sorted(un_w(w) + un_ds(ds) + [sname.get(s, str(s))] for ds, m in state.ds2worker.items() for w, s in m.items())
    if mirror != d["workerDs"]:
        d["ds2worker_mismatch"] = mirror
    return d


def digest_sch(state):
    return {
        "host2comp": sorted([un_h(h), c] for h, c in state.host2component.items()),
        "weight": [c.weight for c in state.components],
        "distDom": [sorted(un_w(w) for w in c.worker2task_distance.keys()) for c in state.components],
        "values": [sorted(int(t[1:]) for t in c.worker2task_values) for c in state.components],
        "ovDom": sorted([un_w(w), sorted(int(t[1:]) for t in m.keys())] for w, m in state.worker2task_overhead.items() if m),
    }


def canon_model_sch(m):
    return {
        "host2comp": sorted(m["host2comp"]),
        "weight": m["weight"],
        "distDom": [sorted(x) for x in m["distDom"]],
        "values": [sorted(x) for x in m["values"]],
        "ovDom": sorted([w, sorted(ts)] for w, ts in m["ovDom"] if ts),
    }


def canon_model_ctl(m):
    m = dict(m)
    for k in ("idle", "ongoing", "purgeQ", "fetchIssued", "outputs", "hostDs", "dsHost", "workerDs", "computable", "published"):
        m[k] = sorted(m[k])
    m["tracker"] = sorted([t, sorted(s)] for t, s in m["tracker"])
    m["ptrack"] = sorted([d, sorted(s)] for d, s in m["ptrack"])
    m.pop("hasComputable", None)
    m.pop("hasAwaitable", None)
    return m


# ----------------------------------------------------------------------------- one run of the real controller

def fingerprint_pre(pre):
    """canonical, order-free rendering of a Preschedule (edge_i, edge_o, task_o, components with all their tables): what
    `precompute` returned is an INPUT of run(); run() must leave it as it found it"""
    import dataclasses

    def canon(x):
        if dataclasses.is_dataclass(x) and not isinstance(x, type):
            if getattr(type(x), "__dataclass_params__", None) and type(x).__dataclass_params__.frozen and type(x).__name__ in ("DatasetId", "WorkerId"):
                return repr(x)
            return {f.name: canon(getattr(x, f.name)) for f in dataclasses.fields(x)}
        if hasattr(x, "model_dump") and not isinstance(x, type):
            return canon({k: getattr(x, k) for k in type(x).model_fields})
        if isinstance(x, dict):
            # edge_i / edge_o / task_o are defaultdicts: looking up a task without inputs creates an EMPTY entry, which means
            # the same as no entry - entries with an empty value are left out on both sides
            items = [[json.dumps(canon(k), sort_keys=True, default=repr), canon(v)] for k, v in x.items()]
            return sorted((kv for kv in items if kv[1] not in ([], {})), key=lambda kv: kv[0])
        if isinstance(x, (set, frozenset)):
            return sorted(json.dumps(canon(e), sort_keys=True, default=repr) for e in x)
        if isinstance(x, (list, tuple)):
            return [canon(e) for e in x]
        if isinstance(x, (str, int, float, bool)) or x is None:
            return x
        return repr(x)
    return canon(pre)


def _fp_diff(a, b, path="Preschedule"):
    """first place where two fingerprints differ"""
    if type(a) is not type(b):
        return f"{path}: {json.dumps(a, default=repr)[:120]} -> {json.dumps(b, default=repr)[:120]}"
    if isinstance(a, dict):
        for k in sorted(set(a) | set(b)):
            if a.get(k) != b.get(k):
                return _fp_diff(a.get(k), b.get(k), path + "." + str(k))
    if isinstance(a, list) and len(a) == len(b):
        for i, (x, y) in enumerate(zip(a, b)):
            if x != y:
                return _fp_diff(x, y, f"{path}[{x[0] if isinstance(x, list) and x and isinstance(x[0], str) else i}]")
    return f"{path}: {json.dumps(a, default=repr)[:120]} -> {json.dumps(b, default=repr)[:120]}"


def run_case(spec, ws, seed, fifo, none_output=None, max_rounds=None, alarm_s=20, report=False, prior_seeds=()):
    """One observed run of the real controller (see _run_once). `prior_seeds`: the real controller is first run to the end
    once per prior seed - each time with a fresh SimBridge under that schedule seed - on the SAME JobInstance and the SAME
    Preschedule object (what `precompute` returned), and only then the observed run happens, again on the same two objects:
    a Preschedule is an input of run(), so the observed run must correspond to the model started from `init` exactly like a
    first run. The Preschedule is fingerprinted before the first and after every run (`pre_mutated`)."""
    from cascade.scheduler.graph import precompute
    try:
        job = build_job(spec)
        pre = precompute(job)
        fp0 = fingerprint_pre(pre)
    except Exception:
        return _run_once(spec, ws, seed, fifo, none_output, max_rounds, alarm_s, report)      # reported by the run itself
    prior = []
    mutated = None
    for ps in prior_seeds:
        r0 = _run_once(spec, ws, ps, fifo, none_output, max_rounds, alarm_s, False, job=job, pre=pre)
        prior.append(r0["outcome"])
        if mutated is None:
            fp1 = fingerprint_pre(pre)
            if fp1 != fp0:
                mutated = "after run 1: " + _fp_diff(fp0, fp1) if len(prior) == 1 else f"after run {len(prior)}: " + _fp_diff(fp0, fp1)
    res = _run_once(spec, ws, seed, fifo, none_output, max_rounds, alarm_s, report, job=job, pre=pre)
    if mutated is None:
        fp1 = fingerprint_pre(pre)
        if fp1 != fp0:
            mutated = f"after run {len(prior) + 1}: " + _fp_diff(fp0, fp1)
    if prior_seeds:
        # edge_o is a defaultdict: the lookups of an earlier run leave EMPTY entries for datasets without consumers, which
        # initialize() copies into purging_tracker; every reader uses .get / truthiness, for which an empty entry and no
        # entry are the same - in a re-run the tracker is compared up to entries with an empty consumer set
        res["trace"][0]["rerun"] = True
    res["prior_seeds"] = list(prior_seeds)
    res["prior_outcomes"] = prior
    res["pre_mutated"] = mutated
    return res


def _run_once(spec, ws, seed, fifo, none_output=None, max_rounds=None, alarm_s=20, report=False, job=None, pre=None):
    """Returns dict(trace, viol, outcome, outputs, rounds, ...). `trace` is the op list for the Lean driver,
    each controller entry carrying the implementation's digest for comparison."""
    import cascade.controller.impl as impl
    from cascade.scheduler.graph import precompute
    import cascade.scheduler.api as sapi
    import cascade.controller.act as cact
    import cascade.controller.notify as cnotify

    pre_in = pre
    job = job if job is not None else build_job(spec)
    rng = random.Random(seed)
    trace = [{"op": "init", "tasks": [{"nOut": t["nOut"], "gpu": t["gpu"], "inputs": inputs_of(t)} for t in spec["tasks"]],
              "ext": spec["ext"], "workers": ws}]
    # half of the runs (a function of the schedule seed; the schedule itself does not depend on it)
    strict = random.Random(seed ^ 0x5F3759DF).random() < 0.5
    br = SimBridge(spec, ws, rng, fifo, trace, none_output, strict=strict)
    res = {"trace": trace, "spec": spec, "workers": ws, "seed": seed, "fifo": fifo, "none_output": none_output, "strict": strict}
    cur = {"asg": [], "state": None, "rounds": 0, "events": [], "heur": 0}
    import cascade.scheduler.assign as sassign
    bound = max_rounds or (40 * (len(spec["tasks"]) + sum(t["nOut"] for t in spec["tasks"])) + 60)

    def w_init(env, pre, outs):
        st = sapi.initialize(env, pre, outs)
        cur["state"] = st
        # component discovery: every task of the job belongs to a component (a State in which one does not is reported
        # as a disagreement at init; the run goes on so that the oracles see what the real controller makes of it)
        missing = [i for i in range(len(spec["tasks"])) if tname(i) not in st.ts2component]
        if missing:
            trace[0]["impl_init_problem"] = "State.ts2component has no entry for task(s) " + ",".join(tname(i) for i in missing)
        trace[0]["comp"] = [st.ts2component.get(tname(i), 0) for i in range(len(spec["tasks"]))]
        trace[0]["ncomp"] = len(st.components)
        trace[0]["impl_sch"] = digest_sch(st)
        try:
            trace[0]["impl_ctl"] = digest_state(st, spec)
        except Exception as e:
            trace[0]["impl_ctl"] = {"unobservable": repr(e)[:200]}
        return st

    def w_assign(state, job_, env):
        for a in sapi.assign(state, job_, env):
            orders = cur.pop("orders", [])
            navail = cur.pop("navail", {})
            for p in a.prep:
                if p[1] != a.worker.host:
                    br.note("transmits_commanded")
                    if navail.get(tuple(un_ds(p[0])), 0) >= 2:
                        br.note("transmits_with_2_or_more_available_sources")
            cur["asg"].append((a, orders))
            cur["events"].append({"k": "asg", "w": un_w(a.worker), "t": int(a.tasks[0][1:]),
                                  "cands": [un_ds(p[0]) + [un_h(p[1])] for p in a.prep if p[1] != a.worker.host],
                                  "orders": orders})
            yield a

    o_build = sassign.build_assignment

    def w_build(worker, task, state):
        # the iteration order of ds2host[ds] at the moment build_assignment scans it for a transmit source
        try:
            cur["orders"] = [un_ds(ds) + [[un_h(h) for h in state.ds2host[ds].keys()]] for ds in state.edge_i[task] if ds in state.ds2host]
            from cascade.scheduler.core import DatasetStatus
            cur["navail"] = {tuple(un_ds(ds)): sum(1 for st_ in state.ds2host[ds].values() if st_ == DatasetStatus.available)
                             for ds in state.edge_i[task] if ds in state.ds2host}
        except Exception as e:
            # the harness cannot read the scan order (a structure changed): the scan comparison would silently be off, so
            # the round says so and compare() reports it as a broken correspondence
            cur["orders"] = []
            cur["navail"] = {}
            cur["scan_unobservable"] = f"{type(e).__name__}: {e}"[:160]
        return o_build(worker, task, state)

    o_awc, o_mig, o_heur = sapi.assign_within_component, sapi.migrate_to_component, sassign._assignment_heuristic

    def w_awc(state, workers, component_id, job_, env):
        cur["events"].append({"k": "awc", "c": component_id, "ws": [un_w(w) for w in workers]})
        cur["heur"] = 0
        yield from o_awc(state, workers, component_id, job_, env)
        cur["events"].append({"k": "awcend"})

    def w_heur(state, tasks, workers, component_id):
        cur["events"].append({"k": "heur", "cls": "gpu" if cur["heur"] == 0 else "cpu"})
        cur["events"].append({"k": "heur2"})
        cur["heur"] += 1
        yield from o_heur(state, tasks, workers, component_id)

    def w_mig(host, component_id, state):
        cur["events"].append({"k": "migrate", "h": un_h(host), "c": component_id})
        return o_mig(host, component_id, state)

    def w_plan(state, assignments):
        cur["rounds"] += 1
        if cur["rounds"] > bound:
            raise Livelock()
        if br.observe_mid:
            cur["implA"] = _observe(state, spec)       # the State as assign()+act() left it
        st = sapi.plan(state, assignments)
        if br.observe_mid:
            cur["implP"] = _observe(st, spec)          # ... and as plan() left it
        return st

    def w_flush(bridge, state):
        st = cact.flush_queues(bridge, state)
        if len(cur["asg"]) >= 32:
            br.note("rounds_with_32_or_more_assignments")
        asg = [{"w": un_w(a.worker), "t": int(a.tasks[0][1:]), "ntasks": len(a.tasks),
                "cands": [un_ds(p[0]) + [un_h(p[1])] for p in a.prep if p[1] != a.worker.host],
                "orders": orders,
                "prep": sorted(un_ds(p[0]) + [un_h(p[1])] for p in a.prep)} for (a, orders) in cur["asg"]]
        if cur.get("scan_unobservable"):
            br.note("scan_order_unobservable")
        trace.append({"op": "round", "asg": asg, "events": cur["events"], "mid": br.mid, "wantMid": br.observe_mid,
                      "scanUnobservable": cur.pop("scan_unobservable", None),
                      "impl": dict(_observe(st, spec), cmds=br.cmds, afterAssign=cur.pop("implA", None), afterPlan=cur.pop("implP", None))})
        cur["asg"] = []
        cur["events"] = []
        br.cmds = []
        br.mid = []
        return st

    def w_notify(state, job_, events, reporter):
        try:
            st = cnotify.notify(state, job_, events, reporter)
        except Exception as e:
            trace[-1]["impl"] = {"crash": f"{type(e).__name__}: {e}"}
            raise
        trace[-1]["impl"] = _observe(st, spec)
        return st

    saved = (impl.initialize, impl.assign, impl.plan, impl.flush_queues, impl.notify)
    impl.initialize, impl.assign, impl.plan, impl.flush_queues, impl.notify = w_init, w_assign, w_plan, w_flush, w_notify
    sapi.assign_within_component, sapi.migrate_to_component, sassign._assignment_heuristic = w_awc, w_mig, w_heur
    sassign.build_assignment = w_build

    def on_alarm(*a):
        raise Livelock()
    old = signal.signal(signal.SIGALRM, on_alarm)
    # a controller that spins WITHOUT calling anything the harness wraps (e.g. an unbounded loop inside assign()) can only
    # be interrupted by a timer. A healthy run takes well under a second; the garbage collector is switched off for the
    # duration of the run so that a collection pause of the (large) harness heap cannot be mistaken for a spin.
    import gc
    gc_was = gc.isenabled()
    gc.disable()
    signal.alarm(alarm_s)
    outcome = "finished"
    # gateway-driven runs: the controller reports progress and every fetched result to the gateway through the REAL
    # controller.report.Reporter; its zmq socket is replaced by a recorder
    import cascade.controller.report as creport
    reports_raw = []

    class _RSock:
        def connect(self, addr):
            pass

        def send(self, raw):
            reports_raw.append(raw)

    class _RCtx:
        def socket(self, kind):
            return _RSock()
    saved_ctx = creport.get_context
    if report:
        creport.get_context = lambda: _RCtx()
    try:
        pre = pre_in if pre_in is not None else precompute(job)
        st = impl.run(job, br, pre, "tcp://gateway:1,job-7" if report else None)
        res["outputs"] = {tuple(un_ds(ds)): unwrap(v) for ds, v in st.outputs.items()}
        res["remaining"] = st.remaining
        trace.append({"op": "round", "asg": [], "final": True, "impl": {"finished": True}})
    except Livelock:
        outcome = "livelock"
    except WaitWithNothingOutstanding:
        outcome = "wait-with-nothing-outstanding"
    except Exception as e:
        outcome = "exception"
        res["exception"] = f"{type(e).__name__}: {e}"
        res["tb"] = traceback.format_exc()[-800:]
    finally:
        signal.alarm(0)
        signal.signal(signal.SIGALRM, old)
        if gc_was:
            gc.enable()
        creport.get_context = saved_ctx
        impl.initialize, impl.assign, impl.plan, impl.flush_queues, impl.notify = saved
        sapi.assign_within_component, sapi.migrate_to_component, sassign._assignment_heuristic = o_awc, o_mig, o_heur
        sassign.build_assignment = o_build
    res["comp"] = cur.get("comp")
    res["outcome"] = outcome
    res["report"] = report
    if report:
        reps = []
        for raw in reports_raw:
            try:
                r = creport.deserialize(raw)
                import cloudpickle
                reps.append([r.job_id, r.current_status, [[un_ds(d), unwrap(cloudpickle.loads(b))] for d, b in r.results]])
            except Exception as e:
                reps.append(["undecodable", repr(e)[:100], []])
        res["reports"] = reps
    res["viol"] = br.viol
    res["shutdowns"] = br.shutdowns
    res["dispatched"] = [br.dispatched.get(t, 0) for t in range(len(spec["tasks"]))]
    res["rounds"] = cur["rounds"]
    res["delivered"] = sorted(br.delivered)
    res["env"] = {"present": sorted([h, d[0], d[1], v] for h, m in br.present.items() for d, v in m.items()),
                  "queued": [[w[0], w[1], t] for w, t in br.queued]}
    res["stats"] = {"tasks": len(spec["tasks"]), "hosts": len({w[0] for w in ws}), "workers": len(ws),
                    "transmits": sum(1 for x in _env_ops(trace) if x.get("io", [""])[0] == "transmit"),
                    "fetches": sum(1 for x in _env_ops(trace) if x.get("io", [""])[0] == "fetch"),
                    "purges": sum(1 for x in trace if x.get("op") == "round" for c in x.get("impl", {}).get("cmds", []) if c[0] == "purge"),
                    "strict_values": br.strict, "family": spec.get("family"),
                    "atomic_bodies": br.atomic, "max_running": br.max_running,
                    "mid_steps": br.mid_steps, "notes": dict(br.notes),
                    # controller rounds that happened while some body was between two of its outputs
                    "rounds_while_running": _rounds_while_running(trace, spec)}
    return res


# ----------------------------------------------------------------------------- oracles (from the property texts)

def _env_ops(trace):
    """all executor steps of a run: those between controller rounds and those in the middle of a round"""
    for x in trace:
        if x.get("op") == "env":
            yield x
        elif x.get("op") == "round":
            for _, op in x.get("mid", []):
                yield op


def _rounds_while_running(trace, spec):
    running, n = {}, 0
    for x in trace:
        if x.get("op") == "env" and "run" in x:
            running[x["run"][2]] = 0
        elif x.get("op") == "env" and "yield" in x:
            t, k = x["yield"]
            if k + 1 == spec["tasks"][t]["nOut"]:
                running.pop(t, None)
            else:
                running[t] = k + 1
        elif x.get("op") in ("round", "deliver") and any(k > 0 for k in running.values()):
            n += 1
    return n


def oracle(res, fifo):
    """List of (property, kind, detail) failures of this run on the REAL controller."""
    out = []
    spec = res["spec"]
    for kind, detail in res["viol"]:
        out.append((kind[:3], kind[4:], detail))
    oc = res["outcome"]
    if oc == "exception":
        out.append(("C03", "controller-exception", res["exception"]))
    elif oc == "livelock":
        out.append(("C03", "livelock-or-unbounded-rounds", res["rounds"]))
    elif oc == "wait-with-nothing-outstanding":
        out.append(("C03", "wait-with-nothing-outstanding", None))
    else:
        if res["remaining"] != 0:
            out.append(("C03", "finished-with-tasks-unrun", res["remaining"]))
        # C02 "during a run each task of the job is sent for execution exactly once": counted at the Bridge API when run() returns
        never = [t for t, k in enumerate(res.get("dispatched", [])) if k == 0]
        if never:
            out.append(("C02", "task-never-dispatched", never))
        ref = seq_eval(spec)
        for d in map(tuple, spec["ext"]):
            got = res["outputs"].get(d)
            none_valued = res.get("none_output") is not None and tuple(res["none_output"]) == d
            if none_valued and d in res["outputs"] and got is None and d in set(map(tuple, res["delivered"])):
                continue        # the value of this output IS None and it has been handed to the controller
            if unfetched(got):
                out.append(("C01", "requested-output-not-delivered", list(d)))
                out.append(("C03", "requested-output-not-fetched", list(d)))
            elif none_valued or got != ref[d]:
                out.append(("C01", "wrong-value", [list(d), repr(got), None if none_valued else ref[d]]))
    if oc != "finished" and spec["ext"]:
        # C01: every dataset the caller asked for is delivered -- a run that never returns delivers nothing
        out.append(("C01", "run-did-not-return-requested-outputs", oc + (": " + str(res.get("exception"))[:200] if oc == "exception" else "")))
    if res["shutdowns"] != 1:
        out.append(("C03", "shutdown-count", res["shutdowns"]))
    if res.get("pre_mutated"):
        # run() changed the Preschedule it was given (an input: the caller may run the job again with it, and every theorem
        # of C01-C04 is about a run that starts from what precompute returned)
        for p in ("C01", "C02", "C03", "C04"):
            out.append((p, "preschedule-mutated", res["pre_mutated"]))
    if res.get("report"):
        # the caller of a gateway-driven run gets its results through the reporter: every requested output exactly once,
        # with the value of sequential evaluation; one progress report per completed task; the last report says Shutdown
        reps = res.get("reports", [])
        if not reps or reps[-1][1] != "Shutdown":
            out.append(("C03", "reporter-shutdown-missing", reps[-1:] if reps else None))
        if oc == "finished":
            ref = seq_eval(spec)
            got = {}
            for _, _, results in reps:
                for d, v in results:
                    got.setdefault(tuple(d), []).append(v)
            for d in map(tuple, spec["ext"]):
                none_valued = res.get("none_output") is not None and tuple(res["none_output"]) == d
                want = None if none_valued else ref[d]
                if got.get(d) != [want]:
                    out.append(("C01", "reported-result-missing-or-wrong", [list(d), got.get(d), want]))
            nprog = sum(1 for _, stt, results in reps if stt not in (None, "Shutdown") and not results)
            if nprog != len(spec["tasks"]):
                out.append(("C03", "reporter-progress-count", [nprog, len(spec["tasks"])]))
    # C03 "finishes in a bounded number of scheduling rounds": the bound of the theorem (c03_bounded), a function of the job only
    rb = round_bound(spec)
    if res["rounds"] > rb:
        out.append(("C03", "rounds-exceed-roundBound", [res["rounds"], rb]))
    return out


def round_bound(spec):
    """roundBound j = sum_t (1 + #inputs t + #outputs t) + #requested + 1 (Lemmas/SchedBoundA.lean)"""
    return sum(1 + len(inputs_of(t)) + t["nOut"] for t in spec["tasks"]) + len(spec["ext"]) + 1


def cmd_groups(cmds):
    """the commands of one controller round in the order they were issued, up to what the implementation itself leaves
    to set/dict iteration order: the transmits of one assignment (a loop over the set edge_i[task]) form a group that
    precedes its task command; fetches are issued in fetching_queue order; the purges of one dataset (a loop over the
    dict ds2host[ds]) form a group, and consecutive purge groups are compared as a multiset (purging_queue is filled
    by a loop over the set edge_i[task])"""
    out, i = [], 0
    while i < len(cmds):
        k = cmds[i][0]
        if k == "transmit":
            g = []
            while i < len(cmds) and cmds[i][0] == "transmit":
                g.append(cmds[i]); i += 1
            out.append(["transmits", sorted(g)])
        elif k == "purge":
            groups = []
            while i < len(cmds) and cmds[i][0] == "purge":
                d = cmds[i][2:4]
                g = []
                while i < len(cmds) and cmds[i][0] == "purge" and cmds[i][2:4] == d:
                    g.append(cmds[i]); i += 1
                groups.append(sorted(g))
            out.append(["purges", sorted(groups)])
        else:
            out.append(cmds[i]); i += 1
    return out


# ----------------------------------------------------------------------------- comparison with the Lean model

def model_lines(trace):
    lines = []
    for x in trace:
        y = {k: v for k, v in x.items() if k not in ("impl", "final", "impl_sch", "impl_ctl", "impl_init_problem", "scanUnobservable", "rerun")}
        lines.append(json.dumps(y))
    return lines


def hard_notes(notes):
    """replay problems that break the correspondence; 'soft:' notes (the implementation took another `available` host than
    the first one of the modelled scan — admissible, theorem c04_scan_source_holds) are counted, not reported"""
    return [n for n in (notes or []) if not n.startswith("soft:")]


def soft_notes(model_out):
    n = 0
    for mo in model_out:
        try:
            m = json.loads(mo)
        except Exception:
            continue
        if isinstance(m, dict):
            n += sum(1 for x in m.get("notes", []) if x.startswith("soft:"))
    return n


def _loose_ptrack(d):
    if isinstance(d, dict) and "ptrack" in d:
        d = dict(d)
        d["ptrack"] = [e for e in d["ptrack"] if e[1]]
    return d


def _diff_ctl(mc, ic, loose=False):
    if loose:
        mc, ic = _loose_ptrack(mc), _loose_ptrack(ic)
    for k in ic:
        if k in mc and mc[k] != ic[k]:
            return k, mc[k], ic[k]
        if k not in mc:
            return k, None, ic[k]
    return None


def _drop_output(d, skip):
    if skip is not None and isinstance(d, dict) and "outputs" in d:
        d = dict(d)
        d["outputs"] = [e for e in d["outputs"] if list(e[:2]) != list(skip)]
    return d


def compare(trace, model_out, skip_output=None):
    """first disagreement between the implementation's trace and the model's replay, or None. `skip_output`: a requested
    output whose VALUE is None in this run (the model's values are terms, never None): its entry of State.outputs is left out
    of the comparison, everything else is compared as usual"""
    if skip_output is not None:
        trace = [dict(x, impl=dict(x["impl"], ctl=_drop_output(x["impl"]["ctl"], skip_output),
                                   **{k: (dict(x["impl"][k], ctl=_drop_output(x["impl"][k].get("ctl"), skip_output)) if isinstance(x["impl"].get(k), dict) and "ctl" in x["impl"][k] else x["impl"].get(k))
                                      for k in ("afterAssign", "afterPlan") if k in x["impl"]}))
                 if isinstance(x.get("impl"), dict) and isinstance(x["impl"].get("ctl"), dict) else x for x in trace]
        if trace and isinstance(trace[0].get("impl_ctl"), dict):
            trace = [dict(trace[0], impl_ctl=_drop_output(trace[0]["impl_ctl"], skip_output))] + trace[1:]
        fixed = []
        for mo in model_out:
            try:
                m = json.loads(mo)
            except Exception:
                fixed.append(mo); continue
            if isinstance(m, dict):
                for k in ("ctl", "ctlA", "ctlP"):
                    if isinstance(m.get(k), dict):
                        m[k] = _drop_output(m[k], skip_output)
                mo = json.dumps(m)
            fixed.append(mo)
        model_out = fixed
    loose = bool(trace and trace[0].get("rerun"))
    if len(model_out) != len(trace):
        return {"at": min(len(model_out), len(trace)), "op": "replay-length", "model": f"{len(model_out)} answers", "impl": f"{len(trace)} trace entries"}
    for i, (x, mo) in enumerate(zip(trace, model_out)):
        m = json.loads(mo)
        op = x["op"]
        if op == "init":
            if "impl_init_problem" in x:
                return {"at": i, "op": "init", "field": "components", "model": "every task belongs to a component", "impl": x["impl_init_problem"]}
            # the hypotheses of the theorems, decided by the driver on THIS input (wfCheck/wfcCheck/feasCheck with soundness
            # lemmas in Lemmas/CtrlWFCheck.lean; wfc is about the component map the real initialize() produced): an input
            # outside them is a failure of the harness (its generator), reported as a broken correspondence
            if isinstance(m, dict):
                if m.get("compEq") is False:
                    return {"at": i, "op": "init", "field": "components-of-precompute", "model": "preComps (C16's model of precompute on this job) groups the tasks differently",
                            "impl": {"comp": x.get("comp"), "ncomp": x.get("ncomp")}}
                for hyp in ("wf", "wfc", "feasible"):
                    if m.get(hyp) is not True:
                        return {"at": i, "op": "init", "field": "hypothesis-" + hyp, "model": f"{hyp}:{m.get(hyp)} - the replayed input is outside the hypotheses of the theorems",
                                "impl": {"tasks": x.get("tasks"), "workers": x.get("workers"), "comp": x.get("comp"), "ncomp": x.get("ncomp")}}
            # the scheduler bookkeeping as initialize() leaves it (extended model only)
            if isinstance(m, dict) and "sch" in m and "impl_sch" in x:
                ms, isch = canon_model_sch(m["sch"]), x["impl_sch"]
                for k in isch:
                    if ms[k] != isch[k]:
                        return {"at": i, "op": "init", "field": "sch." + k, "model": ms[k], "impl": isch[k]}
            if isinstance(m, dict) and "ctl" in m and "impl_ctl" in x:
                d = _diff_ctl(canon_model_ctl(m["ctl"]), x["impl_ctl"], loose)
                if d:
                    return {"at": i, "op": "init", "field": d[0], "model": d[1], "impl": d[2]}
            continue
        if not isinstance(m, dict):
            return {"at": i, "op": x, "model": m, "impl": "?"}
        if op == "env":
            if not m.get("enabled"):
                return {"at": i, "op": x, "model": "environment step not enabled in the model", "impl": "performed"}
            continue
        impl = x.get("impl", {})
        if "unobservable" in impl:
            return {"at": i, "op": op, "field": "State", "model": "state abstraction defined", "impl": "real State not readable by the harness: " + impl["unobservable"]}
        if not m.get("enabled", True):
            return {"at": i, "op": {k: v for k, v in x.items() if k != "impl"}, "model": "step not enabled", "impl": "performed"}
        if op == "round" and x.get("final"):
            if m.get("phase") != "finished":
                return {"at": i, "op": "loop-exit", "model": {"phase": m.get("phase"), "err": m.get("err")}, "impl": "run() returned"}
            continue
        if "crash" in impl:
            if m.get("phase") != "crashed":
                return {"at": i, "op": op, "model": {"phase": m.get("phase")}, "impl": impl}
            continue
        if m.get("phase") == "crashed":
            return {"at": i, "op": {k: v for k, v in x.items() if k != "impl"}, "model": {"crashed": m.get("err")}, "impl": "no exception"}
        if m.get("phase") == "finished":
            return {"at": i, "op": op, "model": "loop exit", "impl": "loop continues"}
        mc = canon_model_ctl(m["ctl"])
        ic = impl.get("ctl")
        if loose:
            mc, ic = _loose_ptrack(mc), _loose_ptrack(ic)
        if ic is not None:
            for k in ic:
                if k in mc and mc[k] != ic[k]:
                    return {"at": i, "op": {kk: v for kk, v in x.items() if kk != "impl"}, "field": k, "model": mc[k], "impl": ic[k]}
                if k not in mc:
                    return {"at": i, "op": op, "field": k, "model": None, "impl": ic[k]}
        if "sch" in m and "sch" in impl:
            ms, isch = canon_model_sch(m["sch"]), impl["sch"]
            for k in isch:
                if ms[k] != isch[k]:
                    return {"at": i, "op": {kk: v for kk, v in x.items() if kk not in ("impl", "events")}, "field": "sch." + k, "model": ms[k], "impl": isch[k]}
            if m["sch"].get("schErr"):
                return {"at": i, "op": op, "field": "schErr", "model": m["sch"]["schErr"], "impl": "no exception"}
            if hard_notes(m.get("notes")):
                return {"at": i, "op": {kk: v for kk, v in x.items() if kk not in ("impl",)}, "field": "assign-control-flow", "model": m["notes"], "impl": "performed"}
        if op == "round" and "sch" not in m and hard_notes(m.get("notes")):
            return {"at": i, "op": {kk: v for kk, v in x.items() if kk not in ("impl",)}, "field": "round-replay", "model": m["notes"], "impl": "performed"}
        if op == "round":
            if x.get("scanUnobservable"):
                return {"at": i, "op": "round", "field": "scan-order", "model": "iteration order of ds2host[ds] in build_assignment observed",
                        "impl": "not readable by the harness: " + x["scanUnobservable"]}
            if sorted(m.get("cmds", [])) != sorted(impl.get("cmds", [])):
                return {"at": i, "op": {kk: v for kk, v in x.items() if kk != "impl"}, "field": "cmds", "model": sorted(m.get("cmds", [])), "impl": sorted(impl.get("cmds", []))}
            if cmd_groups(m.get("cmds", [])) != cmd_groups(impl.get("cmds", [])):
                return {"at": i, "op": {kk: v for kk, v in x.items() if kk != "impl"}, "field": "cmd-order", "model": cmd_groups(m.get("cmds", [])), "impl": cmd_groups(impl.get("cmds", []))}
            # the State between the phases of the round: after assign()+act(), after plan()
            for key, mkey in (("afterAssign", "ctlA"), ("afterPlan", "ctlP")):
                io = impl.get(key)
                if io is None or mkey not in m:
                    continue
                if "unobservable" in io:
                    return {"at": i, "op": op, "field": "State " + key, "model": "state abstraction defined", "impl": io["unobservable"]}
                d = _diff_ctl(canon_model_ctl(m[mkey]), io.get("ctl", {}), loose)
                if d:
                    return {"at": i, "op": {kk: v for kk, v in x.items() if kk != "impl"}, "field": key + "." + d[0], "model": d[1], "impl": d[2]}
            for a in x["asg"]:
                if a.get("ntasks", 1) != 1:
                    return {"at": i, "op": op, "field": "assignment with several tasks", "model": 1, "impl": a["ntasks"]}
        if m["env"]["viol"]:
            # the model's monitors fired: the implementation's monitors must have fired too (compared by the caller)
            pass
    return None


def model_final(model_out):
    for mo in reversed(model_out):
        m = json.loads(mo)
        if isinstance(m, dict) and "ctl" in m:
            return m
    return None
