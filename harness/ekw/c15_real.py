"""C15 helper: the REAL side.  Case -> objects of the case's containers -> earthkit.workflows.backends.<op> ->
canonical result (exact: integers as Python ints, float64 as the ordinal of the double; dtype; coordinate labels of
xarray results), exceptions classified by CAUSE (not collapsed to one token); and the request line for the Lean driver.

Case format (JSON-able dict):
  op, backend ("np" | "da" | "ds": container of the array arguments), dtype ("i64" default | "i32" | "u8" | "bool" |
  "f64" | "i8" | "i16" | "u16" | "u32" | "u64" | "f32" | "f16" | "c64" | "c128"; complex values are strings "re+imj"), args (nested lists / scalars; floats as Python floats or the strings "nan" "inf" "-inf"), shapes (optional,
  explicit shape per argument: needed for zero extents), args2 / dtype2 / shapes2 (variable "v" of a Dataset),
  v_drop (axis of "u" that "v" does not have), py (per argument None | "int" | "float": Python scalar operand),
  conts (per argument container, overrides backend: mixed calls), coords (True: every dimension labelled 10,11,… |
  list per argument of per-axis label lists / None), axis (None | int | [ints]), style ("axis" | "dim"),
  dimkind ("int" | "npint" | "name" | "absent"; take), index, index_type ("int" | "npint" | "list" | "ndarray" |
  "ndarray0d"), index_dtype (integer dtype of an ndarray / NumPy-scalar index; default i64), method ("sel"), nested, batches, literal, stack_dim_exists, concat_dim_missing, approx.
Dimension names are right-aligned: an argument of rank r in a call of maximal rank R has dims d(R-r) … d(R-1).
"""
import json
import struct

import numpy as np

REDUCTIONS = ["mean", "std", "max", "min", "sum", "prod", "var"]
BINARY = ["add", "subtract", "multiply", "divide", "pow"]
VARIADIC = REDUCTIONS + ["stack", "concat"]
ALL_OPS = VARIADIC + BINARY + ["take"]
NP_NAME = {"pow": "power", "concat": "concatenate"}
FLOAT_OPS = {"mean", "std", "var", "divide"}

DT_NP = {"i64": np.int64, "i32": np.int32, "u8": np.uint8, "u64": np.uint64, "bool": np.bool_, "f64": np.float64,
         # second audit: the rest of NumPy's numeric dtypes
         "i8": np.int8, "i16": np.int16, "u16": np.uint16, "u32": np.uint32, "f32": np.float32, "f16": np.float16,
         "c64": np.complex64, "c128": np.complex128}
NP_DT = {np.dtype(v).name: k for k, v in DT_NP.items()}
INT_DTS = ("i64", "i32", "u8", "u64", "i8", "i16", "u16", "u32")
FL_NARROW = ("f32", "f16")
FLOATS = ("f64",) + FL_NARROW
COMPLEX = ("c64", "c128")
INEXACT = FLOATS + COMPLEX
INT_RANGE = {"i8": (-2 ** 7, 2 ** 7 - 1), "i16": (-2 ** 15, 2 ** 15 - 1), "i32": (-2 ** 31, 2 ** 31 - 1), "i64": (-2 ** 63, 2 ** 63 - 1),
             "u8": (0, 2 ** 8 - 1), "u16": (0, 2 ** 16 - 1), "u32": (0, 2 ** 32 - 1), "u64": (0, 2 ** 64 - 1)}
# How the TIE compares the VALUES of a result whose arguments have a narrow float / complex dtype (result dtype, shape,
# error cause and labels are compared for every dtype; the ORACLE compares every value with NumPy itself, bit for bit):
#  exact  -- float32: every operation but pow (Model/F64.lean `Alg.f32`: the binary64 operation followed by rounding to binary32,
#            which for +, -, *, / is the correctly rounded binary32 operation -- the double-rounding fact cited there);
#            float16: min, max, stack, concat, take (no arithmetic) and add, subtract, multiply, divide (`Alg.f16`);
#  opaque -- float32 pow (libm's powf is not correctly rounded), float16 sum, prod, mean, var, std, pow (NumPy accumulates
#            float16 reductions in float32: not modelled) and all
#            complex data (only the real part travels): values are NOT compared by the tie.
MOVE_OPS = ("min", "max", "stack", "concat", "take")
ROUND_OPS = ("add", "subtract", "multiply", "divide")


def value_mode(case, key="args"):
    dt = dtype_of(case, key)
    if dt in COMPLEX:
        return "opaque"
    if dt == "f16" and not (case["op"] in MOVE_OPS or case["op"] in ROUND_OPS):
        return "opaque"
    if dt == "f32" and case["op"] == "pow":
        return "opaque"          # powf is not correctly rounded (7 ** -2 is one ulp off 1/49): no bit-exact model
    return "exact"


# ----------------------------------------------------------------------------- float64 <-> ordinal

def fkey(x):
    """ordinal of a double (sign-magnitude reading of the 64 bits; -0.0 = 0.0 = 0) or "nan" """
    x = float(x)
    if x != x:
        return "nan"
    b = struct.unpack("<Q", struct.pack("<d", x))[0]
    mag = b & ((1 << 63) - 1)
    return -mag if b >> 63 else mag


def funkey(k):
    if k == "nan":
        return float("nan")
    k = int(k)
    b = abs(k) | ((1 << 63) if k < 0 else 0)
    return struct.unpack("<d", struct.pack("<Q", b))[0]


def fdec(v):
    """case value -> Python number (strings: "nan" "inf" "-inf", or a complex number such as "1.5-2j" "nan+infj")"""
    if isinstance(v, str):
        try:
            return float(v)
        except ValueError:
            return complex(v)
    return v


def fenc(x):
    """Python float / complex -> case value (JSON-safe)"""
    if isinstance(x, complex):
        return repr(x).strip("()")
    if isinstance(x, float):
        if x != x:
            return "nan"
        if x in (float("inf"), float("-inf")):
            return "inf" if x > 0 else "-inf"
    return x


def map_vals(a, f):
    return [map_vals(x, f) for x in a] if isinstance(a, list) else f(a)


def flat(a):
    return [v for x in a for v in flat(x)] if isinstance(a, list) else [a]


def shape_of(a):
    s = []
    while isinstance(a, list):
        s.append(len(a))
        a = a[0] if a else None
    return s


# ----------------------------------------------------------------------------- case accessors

def dtype_of(case, key="args"):
    return case.get("dtype2", case.get("dtype", "i64")) if key == "args2" else case.get("dtype", "i64")


def py_kind(case, i, key="args"):
    """None | "int" | "float": the argument is a Python scalar"""
    py = case.get("py")
    if py is not None:
        return py[i]
    raw = case[key][i]
    if isinstance(raw, int) and not isinstance(raw, bool) and case["op"] in BINARY:
        return "int"          # (format of the first generation of cases)
    return None


def np_arg(case, i, key="args"):
    raw = case[key][i]
    a = np.array(map_vals(raw, fdec), dtype=DT_NP[dtype_of(case, key)])
    shapes = case.get("shapes2" if key == "args2" else "shapes")
    if shapes and shapes[i] is not None:
        a = a.reshape(shapes[i])
    return a


def arg_shape(case, i, key="args"):
    shapes = case.get("shapes2" if key == "args2" else "shapes")
    if shapes and shapes[i] is not None:
        return list(shapes[i])
    return shape_of(case[key][i])


def cont_of(case, i):
    conts = case.get("conts")
    return conts[i] if conts else case["backend"]


def call_rank(case):
    """maximal rank of the array arguments of variable u"""
    return max([len(arg_shape(case, i)) for i in range(len(case["args"])) if py_kind(case, i) is None] or [0])


def arg_labels(case, i, nd):
    """per-axis labels (list or None) of argument i"""
    co = case.get("coords")
    if not co:
        return [None] * nd
    if co is True:
        sh = arg_shape(case, i)
        return [list(range(10, 10 + n)) for n in sh]
    return list(co[i]) if co[i] is not None else [None] * nd


def wrap(case, i):
    """argument i as an object of its container"""
    import xarray as xr
    pk = py_kind(case, i)
    if pk == "int":
        return int(case["args"][i])
    if pk == "float":
        return float(fdec(case["args"][i]))
    a = np_arg(case, i)
    cont = cont_of(case, i)
    if cont == "np":
        return a
    R = call_rank(case)
    dims = ["d%d" % (R - a.ndim + j) for j in range(a.ndim)]
    labels = arg_labels(case, i, a.ndim)
    coords = {d: l for d, l in zip(dims, labels) if l is not None}
    da = xr.DataArray(a, dims=dims, coords=coords)
    if cont == "da":
        return da
    b = np_arg(case, i, "args2")
    drop = case.get("v_drop")
    dims_v = [d for j, d in enumerate(dims) if j != drop]
    coords_v = {d: l for d, l in coords.items() if d in dims_v}
    return xr.Dataset({"u": da, "v": xr.DataArray(b, dims=dims_v, coords=coords_v)})


def dim_name(case, nd, ax):
    """name of axis `ax` (may be negative / out of range) of an argument of rank nd"""
    R = call_rank(case)
    p = ax + nd if ax < 0 else ax
    return "d%d" % (R - nd + p)


def kwargs_of(case, nd):
    """kwargs of the real call (nd = rank of the first array operand)"""
    op, ax, style = case["op"], case.get("axis"), case.get("style", "axis")
    first = cont_of(case, next((i for i in range(len(case["args"])) if py_kind(case, i) is None), 0))
    xr_ = first != "np"
    if op in REDUCTIONS:
        if ax is None:
            return {}
        if isinstance(ax, list):
            if xr_ and style == "dim":
                return {"dim": [dim_name(case, nd, a) for a in ax]}
            return {"axis": tuple(ax)}
        if xr_ and style == "dim":
            return {"dim": dim_name(case, nd, ax)}
        return {"axis": ax}
    if op == "stack":
        kw = {"dim": "d%d" % (call_rank(case) - 1) if case.get("stack_dim_exists") else "new"} if xr_ else {}
        if ax is not None:
            kw["axis"] = ax
        return kw
    if op == "concat":
        if xr_:
            if case.get("concat_dim_missing"):
                return {"dim": "nope"}
            return {"dim": dim_name(case, nd, (ax or 0) % max(nd, 1))}
        return {} if ax is None else {"axis": ax}
    if op == "take":
        kw = {}
        dk = case.get("dimkind") or ("name" if style == "dim" else "int")
        if dk == "absent":
            pass
        elif dk == "name":
            kw["dim"] = dim_name(case, nd, ax)
        elif dk == "npint":
            kw["dim"] = np.int64(ax)
        else:
            kw["dim"] = ax
        if case.get("method"):
            kw["method"] = case["method"]
        return kw
    return {}


def _ndim(o):
    import xarray as xr
    if isinstance(o, xr.Dataset):
        return len(o["u"].dims)
    if isinstance(o, xr.DataArray):
        return o.ndim
    return np.ndim(o)


def call(case, objs):
    from earthkit.workflows import backends
    op = case["op"]
    f = getattr(backends, op)
    first = next((o for o in objs if not isinstance(o, (int, float)) or isinstance(o, np.generic)), None)
    kw = kwargs_of(case, _ndim(first) if first is not None else 0)
    if op == "take":
        ix = case["index"]
        it = case.get("index_type")
        idt = DT_NP[case.get("index_dtype", "i64")]      # (second audit: indices of every integer dtype)
        if it == "ndarray":
            ix = np.array(ix, dtype=idt)
        elif it == "ndarray0d":
            ix = np.array(ix, dtype=idt)
        elif it == "npint":
            ix = idt(ix)
        return f(objs[0], ix, **kw)
    if op in BINARY and case.get("nested"):
        return f(list(objs), **kw)
    return f(*objs, **kw)


def classify(e):
    """exception -> cause token (the model's `errorOf` uses the same tokens)"""
    n, m = type(e).__name__, str(e)
    if n == "AssertionError" and "expects" in m:
        return "arity"
    if n == "AxisError":
        return "axis"
    if n == "AlignmentError":
        if "join='exact'" in m:
            return "align"
        if "conflicting dimension sizes" in m or "conflicting sizes" in m:
            return "shape"
    if n == "ValueError":
        for pat, tok in (("duplicate value in 'axis'", "axis"), ("inhomogeneous", "shape"),
                         ("must match exactly", "shape"), ("must have the same shape", "shape"),
                         ("same number of dimensions", "shape"), ("could not be broadcast", "shape"),
                         ("shape mismatch", "shape"), ("zero-size array to reduction", "empty"),
                         ("Integers to negative integer powers", "negpow"),
                         ("Stack must be used on non-existing", "dim-exists"),
                         ("Concat must be used on existing", "dim-missing"),
                         ("not present in all datasets", "coords-presence"), ("already exists", "coords-presence"),
                         ("do not exist", "axis"), ("not found in", "axis"), ("is ambiguous", "ds-axis"),
                         ("Must provide `dim` as an integer", "dim-int"), ("out of bounds", "axis"),
                         ("conflicting sizes for dimension", "shape"), ("cannot supply both", "both-axis-dim")):
            if pat in m:
                return tok
    if n == "IndexError":
        if "list index out of range" in m:
            return "axis"
        if "out of bounds" in m or "out of range" in m or "non-empty take from an empty ax" in m:
            return "index"
    if n == "KeyError":
        return "key"
    if n == "TypeError":
        if "required keyword-only argument: 'dim'" in m:
            return "type"
        if "boolean subtract" in m:
            return "type"
        if "not a supported array type" in m:
            return "mixed"
    if n == "AttributeError" and "has no attribute 'sizes'" in m:
        return "mixed"
    if n == "OverflowError":
        return "overflow"
    return "other:%s:%s" % (n, m[:80])


def unpack(res, case):
    """result object -> list (one per Dataset variable) of dict(values=ndarray, labels=[...]|None, extra=[...])
    with the d-dimensions of an xarray result sorted by number (other dimensions keep their slot)"""
    import xarray as xr

    def one(da):
        dims = list(da.dims)
        ds_ = sorted((d for d in dims if d[:1] == "d" and d[1:].isdigit()), key=lambda d: int(d[1:]))
        it = iter(ds_)
        order = [next(it) if (d[:1] == "d" and d[1:].isdigit()) else d for d in dims]
        if order != dims:
            da = da.transpose(*order)
        labels = [da.coords[d].values.tolist() if d in da.coords else None for d in order]
        extra = sorted(str(c) for c in da.coords if c not in order)
        return {"values": np.asarray(da.values), "labels": labels, "extra": extra, "reordered": order != dims}

    if isinstance(res, xr.Dataset):
        return [one(res["u"]), one(res["v"])]
    if isinstance(res, xr.DataArray):
        return [one(res)]
    if case["backend"] == "ds" and not case.get("conts"):
        raise TypeError("Dataset in, %s out" % type(res).__name__)
    return [{"values": np.asarray(res), "labels": None, "extra": [], "reordered": False}]


def run_impl(case):
    """Real code on one case -> ('ok', [dict per variable]) | ('error', (token, text))."""
    import warnings
    try:
        with warnings.catch_warnings():
            warnings.simplefilter("ignore")
            objs = [wrap(case, i) for i in range(len(case["args"]))]
            batches = case.get("batches")
            if batches:
                mids, k = [], 0
                for n in batches:
                    chunk = objs[k:k + n]
                    k += n
                    mids.append(chunk[0] if (n == 1 and not case.get("literal")) else call(case, chunk))
                res = call(case, mids)
            else:
                res = call(case, objs)
            return "ok", unpack(res, case)
    except Exception as e:   # a result, never a crash of the check
        return "error", (classify(e), "%s: %s" % (type(e).__name__, str(e)[:160]))


# ----------------------------------------------------------------------------- canonical forms

def enc_values(a):
    """ndarray -> (dtype token, exact flat data)"""
    dt = NP_DT.get(str(a.dtype), str(a.dtype))
    fl = a.reshape(-1).tolist()
    if a.dtype.kind == "f":
        return dt, [fkey(x) for x in fl]
    if a.dtype.kind == "b":
        return dt, [int(x) for x in fl]
    if a.dtype.kind in "iu":
        return dt, [int(x) for x in fl]
    if a.dtype.kind == "c":
        return dt, [fkey(x.real) for x in fl]           # (only the real part travels; complex values are opaque to the tie)
    return dt, [repr(x) for x in fl]


def _mode_of(case, vi):
    return "exact" if case is None else value_mode(case, "args" if vi == 0 else "args2")


def canon_impl(status, val, case=None):
    if status == "error":
        return [{"error": val[0]}]
    out = []
    for vi, v in enumerate(val):
        dt, data = enc_values(v["values"])
        if _mode_of(case, vi) == "opaque":
            data = None
        out.append({"dtype": dt, "shape": list(v["values"].shape), "data": data, "labels": v["labels"], "extra": v["extra"]})
    return out


def canon_model(line, case, vi=0):
    o = json.loads(line)
    if isinstance(o, dict) and "error" in o:
        return {"error": o["error"]}
    if not isinstance(o, dict) or "shape" not in o:
        return {"driver": repr(o)[:200]}
    data = o["data"]
    if case["op"] == "std" and o["dtype"] == "f64":
        # the driver prints the radicand; the square root of a double is correctly rounded
        with np.errstate(all="ignore"):
            data = [fkey(np.sqrt(np.float64(funkey(k)))) for k in data]
    if case["op"] == "std" and o["dtype"] == "f32":
        with np.errstate(all="ignore"):
            data = [fkey(float(np.sqrt(np.float32(funkey(k))))) for k in data]      # (correctly rounded in binary32 as well)
    if _mode_of(case, vi) == "opaque":
        data = None
    return {"dtype": o["dtype"], "shape": o["shape"], "data": data, "labels": o["labels"], "extra": []}


def same_canon(impl, model, approx=False):
    if impl == model:
        return True
    if not approx or "error" in impl or "error" in model or "driver" in model:
        return False
    a, b = dict(impl), dict(model)
    da, db = a.pop("data"), b.pop("data")
    if a != b or len(da) != len(db):
        return False
    for x, y in zip(da, db):
        if x == y:
            continue
        narrow = impl.get("dtype") == "f32"           # (one binary32 ulp = 2^29 binary64 ordinals)
        if isinstance(x, str) or isinstance(y, str) or abs(x - y) > (16 << 29 if narrow else 16):     # ordinal distance = ulps
            fx, fy = funkey(x), funkey(y)
            if not (abs(fx - fy) <= (1e-5 if narrow else 1e-12) * max(1.0, abs(fx), abs(fy))):
                return False
    return True


# ----------------------------------------------------------------------------- variables of a Dataset

def var_view(case, var):
    """How the call looks from variable `var` (0 = u / the only one, 1 = v): (axis, identity) where axis is the
    case's axis translated to the variable's own positions and identity says the variable lacks the dimension the
    call acts on (xarray then leaves the variable untouched)."""
    ax = case.get("axis")
    drop = case.get("v_drop") if var == 1 else None
    if drop is None:
        return ax, False
    op = case["op"]
    nd_u = call_rank(case)
    if ax is None or op in BINARY or (op in REDUCTIONS and len(case["args"]) >= 2):
        return ax, False
    if op == "stack":
        return ax, False          # only axis 0 / -1 are generated with v_drop
    norm = lambda a: a + nd_u if a < 0 else a
    # a variable that lacks the dimension(s) named: xarray reduces it over NO dimension -- untouched for sum / prod / min /
    # max / mean and take, zeros for var / std (= NumPy's axis=())
    if isinstance(ax, list):
        keep = [norm(a) for a in ax if norm(a) != drop]
        if not keep and ax and op not in ("var", "std"):
            return None, True
        return [a - 1 if a > drop else a for a in keep], False
    p = norm(ax)
    if p == drop:
        if op in ("var", "std"):
            return [], False
        return None, True
    return (p - 1 if p > drop else p), False


def model_request(case, var=0):
    """request line for the Lean driver (None: the variable is untouched by the call)"""
    key = "args" if var == 0 else "args2"
    ax, identity = var_view(case, var)
    if identity:
        return None
    dt = dtype_of(case, key)
    drop = case.get("v_drop") if var == 1 else None
    args = []
    for i in range(len(case[key])):
        pk = py_kind(case, i)
        if pk == "int":
            args.append({"cont": "pyint", "dtype": "i64", "shape": [], "data": [int(case["args"][i])]})
            continue
        if pk == "float":
            args.append({"cont": "pyfloat", "dtype": "f64", "shape": [], "data": [fkey(fdec(case["args"][i]))]})
            continue
        a = np_arg(case, i, key)
        _, data = enc_values(a)
        cont = cont_of(case, i)
        labels = None
        if cont != "np":
            labels = arg_labels(case, i, len(arg_shape(case, i)))
            if drop is not None:
                labels = [l for j, l in enumerate(labels) if j != drop]
        args.append({"cont": cont, "dtype": dt, "shape": list(a.shape), "data": data, "labels": labels})
    style = case.get("style")
    dk = case.get("dimkind") or ("name" if style == "dim" else "int")
    if case["op"] != "take":
        dk = "int"
    return json.dumps({"op": case["op"], "args": args, "axis": ax, "style": style if case.get("axis") is not None else None,
                       "dimkind": dk, "index": case.get("index"), "sel": case.get("method") == "sel",
                       "stack_dim_exists": bool(case.get("stack_dim_exists")),
                       "concat_dim_missing": bool(case.get("concat_dim_missing")),
                       "batches": case.get("batches"), "literal": bool(case.get("literal"))})


def n_vars(case):
    return 2 if case.get("args2") else 1
