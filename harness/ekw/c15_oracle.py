"""C15 helper: the property ORACLE, written from the property text only (independent of the Lean model and of the
backends' own bookkeeping): direct NumPy on the raw data of the case, exact comparison (integers as Python ints, float64
bit for bit incl. NaN positions), the result dtype, the coordinate labels an xarray result must carry, and for every
function that carries the `batchable` attribute at run time the law f(f(batch_1), ..., f(batch_k)) == NumPy f(all)
— as fluent reduce() forms the batches (singleton passed through) and literally (every batch through f)."""
from fractions import Fraction

import numpy as np

from ekw.c15_real import (BINARY, NP_NAME, REDUCTIONS, arg_labels, arg_shape, call_rank, cont_of, dtype_of, fdec,
                          flat, n_vars, np_arg, py_kind, var_view)


def _np_operands(case, key):
    out = []
    for i in range(len(case[key])):
        pk = py_kind(case, i)
        if pk == "int":
            out.append(int(case["args"][i]))
        elif pk == "float":
            out.append(float(fdec(case["args"][i])))
        else:
            out.append(np_arg(case, i, key))
    return out


def numpy_reference(case, var=0):
    """What NumPy gives for the same data, axis and indices (the unbatched computation) for variable `var`.
    Returns the string "identity" when the variable does not have the dimension the call acts on."""
    key = "args" if var == 0 else "args2"
    op = case["op"]
    ax, identity = var_view(case, var)
    arrs = _np_operands(case, key)
    if identity:
        return arrs[0]
    f = getattr(np, NP_NAME.get(op, op))
    import warnings
    with np.errstate(all="ignore"), warnings.catch_warnings():
        warnings.simplefilter("ignore")
        if op in REDUCTIONS:
            if len(arrs) >= 2:
                return f(np.stack(arrs), axis=0)             # "stack on a new leading axis" (np.stack is strict about shapes)
            return f(arrs[0], axis=tuple(ax) if isinstance(ax, list) else ax)
        if op == "stack":
            # Backend.stack: "All arrays must have the same shape, or be broadcastable to the same shape"
            return np.stack(np.broadcast_arrays(*arrs), axis=0 if ax is None else ax)
        if op == "concat":
            return np.concatenate(arrs, axis=0 if ax is None else ax)
        if op in BINARY:
            if len(arrs) != 2:
                raise ValueError("two operands expected")
            return f(arrs[0], arrs[1])
        if op == "take":
            ix = case["index"]
            if case.get("method") == "sel":
                a = ax + arrs[0].ndim if ax < 0 else ax
                labels = _labels_of_var(case, 0, var)[a]
                pos = lambda l: labels.index(l)
                ix = [pos(l) for l in ix] if isinstance(ix, list) else pos(ix)
            return np.take(arrs[0], ix, axis=ax)
    raise ValueError(op)


def _labels_of_var(case, i, var):
    nd = len(arg_shape(case, i))
    labels = arg_labels(case, i, nd)
    drop = case.get("v_drop") if var == 1 else None
    if drop is not None:
        labels = [l for j, l in enumerate(labels) if j != drop]
    return labels


# ----------------------------------------------------------------------------- labelled operands

def _global_labels(case, var):
    """per array argument: {global axis: labels or None}, and the global rank"""
    idx = [i for i in range(len(case["args"])) if py_kind(case, i) is None and cont_of(case, i) != "np"]
    R = max([len(_labels_of_var(case, i, var)) for i in idx] or [0])
    out = []
    for i in idx:
        ls = _labels_of_var(case, i, var)
        out.append({R - len(ls) + j: l for j, l in enumerate(ls)})
    return out, R


def label_conflict(case):
    """The labelled operands do not describe 'the same data' as any tuple of plain arrays: two operands carry
    different labels along a shared dimension, or (concat) only some operands carry labels along the joined one."""
    if case["op"] == "take" or not case.get("coords") or case["coords"] is True:
        return False
    for var in range(n_vars(case)):
        per, R = _global_labels(case, var)
        cat = None
        if case["op"] == "concat" and case.get("axis") is not None or case["op"] == "concat":
            ax, _ = var_view(case, var)
            ax = ax or 0
            cat = ax + R if ax < 0 else ax
        for g in range(R):
            have = [p[g] for p in per if g in p]
            some = [l for l in have if l is not None]
            if some and (len(some) != len(have) or len(have) != len(per)):
                return True              # labelled on some operands only (or the dimension is missing from some)
            if g == cat:
                continue
            if any(l != some[0] for l in some[1:]):
                return True
    return False


def mixed_presence(case):
    """some operands carry labels along a dimension, others (that have the dimension) do not"""
    if case["op"] == "take" or not case.get("coords") or case["coords"] is True:
        return False
    for var in range(n_vars(case)):
        per, R = _global_labels(case, var)
        for g in range(R):
            have = [p[g] for p in per if g in p]
            some = [l for l in have if l is not None]
            if some and (len(some) != len(have) or len(have) != len(per)):
                return True
    return False


def expected_labels(case, var, ref_ndim):
    """Coordinate labels (per axis of the result, d-dimensions in order) that an xarray result must carry:
    a dimension keeps the labels of the (first) operand that labels it; a reduced or integer-indexed dimension
    disappears with its labels; a sequence index selects labels; concatenation joins them; a new dimension has none."""
    op = case["op"]
    per, R = _global_labels(case, var)
    if not per:
        return None                               # no xarray operand: plain result
    ax, identity = var_view(case, var)
    merged = []
    for g in range(R):
        some = [p[g] for p in per if g in p and p[g] is not None]
        merged.append(some[0] if some else None)
    if identity:
        return merged
    norm = lambda a, n: a + n if a < 0 else a
    if op in REDUCTIONS:
        if len(case["args"]) >= 2:
            return merged
        if ax is None:
            return []
        axes = [norm(a, R) for a in (ax if isinstance(ax, list) else [ax])]
        return [l for g, l in enumerate(merged) if g not in axes]
    if op == "stack":
        a = norm(0 if ax is None else ax, R + 1)
        return merged[:a] + [None] + merged[a:]
    if op == "concat":
        a = norm(ax or 0, R)
        along = [p.get(a) for p in per]
        merged[a] = [x for l in along for x in l] if all(l is not None for l in along) else None
        return merged
    if op == "take":
        a = norm(ax, R)
        ix = case["index"]
        if not isinstance(ix, list):
            return merged[:a] + merged[a + 1:]
        if merged[a] is not None:
            merged[a] = list(ix) if case.get("method") == "sel" else [merged[a][j] for j in ix]
        return merged
    return merged


# ----------------------------------------------------------------------------- comparison

def same_values(got, exp):
    """exact: shape, integers as Python ints, floats bit for bit up to the sign of zero, NaN at the same places"""
    got, exp = np.asarray(got), np.asarray(exp)
    if got.shape != exp.shape:
        return "shape %s, NumPy gives %s" % (got.shape, exp.shape)
    if exp.dtype.kind in "iub":
        if got.dtype.kind not in "iufb" or got.reshape(-1).tolist() != exp.reshape(-1).tolist():
            return "values %s, NumPy gives %s" % (got.tolist(), exp.tolist())
        return None
    if got.dtype.kind not in "iufb" or not np.array_equal(got.astype(np.float64), exp.astype(np.float64), equal_nan=True):
        return "values %s, NumPy gives %s" % (got.tolist(), exp.tolist())
    return None


def dtype_diff(got, exp):
    got, exp = np.asarray(got), np.asarray(exp)
    if got.dtype != exp.dtype:
        return "result dtype %s, NumPy gives %s" % (got.dtype, exp.dtype)
    return None


def rounding_only(case, var, got, exp):
    """float64 sum / prod of several arguments: do the batched and the unbatched result both lie within the
    floating-point error bound of the exact (rational) result?  Then they differ by rounding only."""
    op = case["op"]
    key = "args" if var == 0 else "args2"
    if op not in ("sum", "prod") or dtype_of(case, key) != "f64" or len(case[key]) < 2:
        return False
    got, exp = np.asarray(got, dtype=np.float64), np.asarray(exp, dtype=np.float64)
    if got.shape != exp.shape:
        return False
    arrs = [np_arg(case, i, key).astype(np.float64) for i in range(len(case[key]))]
    if any(a.shape != exp.shape for a in arrs):
        return False
    k = len(arrs)
    u = Fraction(1, 2 ** 52)
    cols = list(zip(*[a.reshape(-1).tolist() for a in arrs]))
    for g, e, col in zip(got.reshape(-1).tolist(), exp.reshape(-1).tolist(), cols):
        if g == e or (g != g and e != e):
            continue
        if not all(np.isfinite(x) for x in col) or not (np.isfinite(g) and np.isfinite(e)):
            return False
        fr = [Fraction(x) for x in col]
        if op == "sum":
            exact = sum(fr)
            bound = 2 * k * u * sum(abs(x) for x in fr) + Fraction(1, 2 ** 1070)
        else:
            exact = Fraction(1)
            for x in fr:
                exact *= x
            bound = 2 * k * u * abs(exact) + Fraction(k, 2 ** 1070)
        if abs(Fraction(g) - exact) > bound or abs(Fraction(e) - exact) > bound:
            return False
    return True


def _shapes(case):
    return [arg_shape(case, i) for i in range(len(case["args"])) if py_kind(case, i) is None]


def _size1_stretch(case):
    """NumPy would stretch an extent 1 against a larger one (right-aligned shapes)"""
    shs = _shapes(case)
    R = max([len(s) for s in shs] or [0])
    for g in range(R):
        es = {s[g - (R - len(s))] for s in shs if g >= R - len(s)}
        if 1 in es and len(es) > 1:
            return True
    return False


def _mixed(case):
    conts = case.get("conts")
    if not conts:
        return False
    kinds = {("np" if c == "np" else "xr") for i, c in enumerate(conts) if py_kind(case, i) is None}
    return len(kinds) > 1


def oracle(case, status, val):
    """Property oracle on one (possibly batched) case.  Returns None or (signature, what)."""
    from earthkit.workflows import backends
    op, be = case["op"], case["backend"]
    batched = bool(case.get("batches"))
    if batched and not getattr(getattr(backends, op), "batchable", False):
        return None                      # the law is claimed only for marked functions
    if op == "take" and case.get("dimkind") == "absent":
        return None                      # `dim` is a required keyword: no NumPy counterpart (compared with the model only)
    if case.get("stack_dim_exists") or case.get("concat_dim_missing"):
        return None                      # the backend's own argument checks: no NumPy counterpart (model only)
    if op in REDUCTIONS and be == "ds" and case.get("style") == "axis" and case.get("axis") is not None and len(case["args"]) == 1:
        return None                      # axis= on a Dataset has no meaning (variables may differ in rank): model only
    if op == "take" and be == "np" and (case.get("dimkind") == "name" or (case.get("style") == "dim" and not case.get("dimkind"))):
        return None                      # a dimension NAME on a plain array: no NumPy counterpart (model only)
    # the literal reading differs from what reduce() computes only on DEGENERATE partitions (a single-array batch, or one
    # batch holding everything); on the others it is the same computation and is judged as such
    literal = bool(case.get("literal")) and bool(len(case["batches"]) < 2 or 1 in case["batches"])
    kind = ("batch-law-literal" if literal else "batch-law") if batched else "value"
    sig = {"kind": kind, "op": op, "backend": be}
    if literal:
        sig["degenerate"] = True
    dts = "/".join(dtype_of(case, k) for k in ["args"] + (["args2"] if case.get("args2") else []))
    where = "%s on %s (%s)%s" % (op, be, dts, (" batches %s%s" % (case["batches"], " literally" if literal else "")) if batched else "")
    conflict = label_conflict(case)
    refs = []
    for vi in range(n_vars(case)):
        try:
            refs.append((True, numpy_reference(case, vi)))
        except Exception as e:
            refs.append((False, e))
    if status == "error" and not all(ok for ok, _ in refs):
        return None                          # NumPy raises for (a variable of) these arguments as well
    for vi in range(n_vars(case)):
        ok_, exp = refs[vi]
        if not ok_:
            e = exp
            if batched:
                continue                     # NumPy itself rejects f(all): nothing is claimed
            cause = "other"
            shs = _shapes(case)
            if be != "np" and op in REDUCTIONS and len(shs) >= 2 and len({len(s) for s in shs}) > 1:
                cause = "xr-broadcast-ranks"
            return ({"kind": "no-error", "op": op, "backend": be, "cause": cause},
                    "%s: NumPy raises %s for these arguments, the backend returned a value" % (where, type(e).__name__))
        if status == "error":
            tok = val[0]
            if conflict and tok in ("align", "coords-presence"):
                continue                     # labelled operands that are not the same data as any plain arrays: refusing is right
            cause = tok
            if _mixed(case) and tok == "mixed":
                cause = "mixed-containers"
            elif be != "np" and tok == "shape" and _size1_stretch(case) and op in (["stack"] + BINARY + REDUCTIONS):
                cause = "xr-size1-stretch"
            s = dict(sig)
            if not batched:
                s["kind"] = "error"
            s["cause"] = cause
            return (s, "%s raised %s where NumPy computes %s" % (where, val[1], np.asarray(exp).tolist()))
        got = val[vi]["values"]
        diff = same_values(got, exp)
        if diff:
            s = dict(sig)
            if conflict:
                s["kind"] = "misaligned-value"
            elif batched and not literal and rounding_only(case, vi, got, exp):
                s["kind"] = kind + "-float-rounding"
            what = where + (" (axis=%s index=%s)" % (case.get("axis"), case.get("index")) if not batched else "") + ": " + diff
            return (s, what)
        dd = dtype_diff(got, exp)
        if dd:
            s = {"kind": "dtype", "op": op, "backend": be}
            if be != "np" and op in REDUCTIONS and var_view(case, vi)[0] == []:
                s["cause"] = "xr-empty-dim-list"
            return (s, "%s: %s" % (where, dd))
        if val[vi]["labels"] is not None or any(cont_of(case, i) != "np" for i in range(len(case["args"]))):
            if not conflict:
                el = expected_labels(case, vi, np.ndim(exp))
                if val[vi]["labels"] != el or val[vi]["extra"]:
                    return ({"kind": "coords", "op": op, "backend": be},
                            "%s: result carries labels %s (other coordinates %s), expected %s" % (where, val[vi]["labels"], val[vi]["extra"], el))
    return None
