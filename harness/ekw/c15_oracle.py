"""C15 helper: the property ORACLE, written from the property text only (independent of the Lean model and of the
backends' own bookkeeping): direct NumPy on the raw data of the case (every numeric dtype: NumPy itself is the reference
for the value AND the result dtype), exact comparison (integers as Python ints, floats of every width bit for bit incl.
NaN positions, complex numbers part by part unless a part is NaN), the coordinate labels an xarray result must carry, and for every
function that carries the `batchable` attribute at run time the law f(f(batch_1), ..., f(batch_k)) == NumPy f(all)
— as fluent reduce() forms the batches (singleton passed through) and literally (every batch through f).

What the text does NOT demand (second audit) and the oracle therefore does not judge -- every such case is COUNTED in
STATS (printed by the check as `oracle_silent:*`), and the tie still compares it with the model (error cause included):
  * NumPy itself raises for the data (np.stack of different shapes, an empty min/max, ...): "the value NumPy gives" does
    not exist, whether the backend raises too or returns a value (xarray broadcasts ranks by name; Backend.stack
    broadcasts before stacking -- numpy.stack does not);
  * a mixture of ndarray and DataArray arguments that the backend refuses: the text quantifies over "plain arrays and
    xarray objects alike", not over mixtures (a value returned for a mixture IS compared with NumPy's);
  * labelled operands whose labels conflict and that the backend refuses to align (ASSUMPTIONS)."""
import collections
from fractions import Fraction

import numpy as np

from ekw.c15_real import (BINARY, COMPLEX, DT_NP, FLOATS, NP_NAME, REDUCTIONS, arg_labels, arg_shape, call_rank, cont_of,
                          dtype_of, fdec, flat, n_vars, np_arg, py_kind, run_impl, var_view)

STATS = collections.Counter()


def _np_operands(case, key):
    out = []
    for i in range(len(case[key])):
        pk = py_kind(case, i)
        if pk == "int":
            out.append(int(case["args"][i]))
        elif pk == "float":
            out.append(float(fdec(case["args"][i])))
        else:
            out.append(np_arg(case, i, key))
    return out


def numpy_reference(case, var=0):
    """What NumPy gives for the same data, axis and indices (the unbatched computation) for variable `var`.
    Returns the string "identity" when the variable does not have the dimension the call acts on."""
    key = "args" if var == 0 else "args2"
    op = case["op"]
    ax, identity = var_view(case, var)
    arrs = _np_operands(case, key)
    if identity:
        return arrs[0]
    f = getattr(np, NP_NAME.get(op, op))
    import warnings
    with np.errstate(all="ignore"), warnings.catch_warnings():
        warnings.simplefilter("ignore")
        if op in REDUCTIONS:
            if len(arrs) >= 2:
                return f(np.stack(arrs), axis=0)             # "stack on a new leading axis" (np.stack is strict about shapes)
            return f(arrs[0], axis=tuple(ax) if isinstance(ax, list) else ax)
        if op == "stack":
            # NumPy itself: numpy.stack wants equal shapes (Backend.stack's docstring promises broadcasting on top of that;
            # where NumPy raises the text demands nothing -- the tie compares the broadcast with the model)
            return np.stack(arrs, axis=0 if ax is None else ax)
        if op == "concat":
            return np.concatenate(arrs, axis=0 if ax is None else ax)
        if op in BINARY:
            if len(arrs) != 2:
                raise ValueError("two operands expected")
            return f(arrs[0], arrs[1])
        if op == "take":
            ix = case["index"]
            if case.get("method") == "sel":
                a = ax + arrs[0].ndim if ax < 0 else ax
                labels = _labels_of_var(case, 0, var)[a]
                pos = lambda l: labels.index(l)
                ix = [pos(l) for l in ix] if isinstance(ix, list) else pos(ix)
            it = case.get("index_type")
            if case.get("index_dtype") and it in ("ndarray", "ndarray0d", "npint"):
                # "the same indices": of the same integer dtype
                idt = DT_NP[case["index_dtype"]]
                ix = idt(ix) if it == "npint" else np.array(ix, dtype=idt)
            return np.take(arrs[0], ix, axis=ax)
    raise ValueError(op)


def _labels_of_var(case, i, var):
    nd = len(arg_shape(case, i))
    labels = arg_labels(case, i, nd)
    drop = case.get("v_drop") if var == 1 else None
    if drop is not None:
        labels = [l for j, l in enumerate(labels) if j != drop]
    return labels


# ----------------------------------------------------------------------------- labelled operands

def _global_labels(case, var):
    """per array argument: {global axis: labels or None}, and the global rank"""
    idx = [i for i in range(len(case["args"])) if py_kind(case, i) is None and cont_of(case, i) != "np"]
    R = max([len(_labels_of_var(case, i, var)) for i in idx] or [0])
    out = []
    for i in idx:
        ls = _labels_of_var(case, i, var)
        out.append({R - len(ls) + j: l for j, l in enumerate(ls)})
    return out, R


def label_conflict(case):
    """The labelled operands do not describe 'the same data' as any tuple of plain arrays: two operands carry
    different labels along a shared dimension, or (concat) only some operands carry labels along the joined one."""
    if case["op"] == "take" or not case.get("coords") or case["coords"] is True:
        return False
    for var in range(n_vars(case)):
        per, R = _global_labels(case, var)
        cat = None
        if case["op"] == "concat" and case.get("axis") is not None or case["op"] == "concat":
            ax, _ = var_view(case, var)
            ax = ax or 0
            cat = ax + R if ax < 0 else ax
        for g in range(R):
            have = [p[g] for p in per if g in p]
            some = [l for l in have if l is not None]
            if some and (len(some) != len(have) or len(have) != len(per)):
                return True              # labelled on some operands only (or the dimension is missing from some)
            if g == cat:
                continue
            if any(l != some[0] for l in some[1:]):
                return True
    return False


def mixed_presence(case):
    """some operands carry labels along a dimension, others (that have the dimension) do not"""
    if case["op"] == "take" or not case.get("coords") or case["coords"] is True:
        return False
    for var in range(n_vars(case)):
        per, R = _global_labels(case, var)
        for g in range(R):
            have = [p[g] for p in per if g in p]
            some = [l for l in have if l is not None]
            if some and (len(some) != len(have) or len(have) != len(per)):
                return True
    return False


def expected_labels(case, var, ref_ndim):
    """Coordinate labels (per axis of the result, d-dimensions in order) that an xarray result must carry:
    a dimension keeps the labels of the (first) operand that labels it; a reduced or integer-indexed dimension
    disappears with its labels; a sequence index selects labels; concatenation joins them; a new dimension has none."""
    op = case["op"]
    per, R = _global_labels(case, var)
    if not per:
        return None                               # no xarray operand: plain result
    ax, identity = var_view(case, var)
    merged = []
    for g in range(R):
        some = [p[g] for p in per if g in p and p[g] is not None]
        merged.append(some[0] if some else None)
    if identity:
        return merged
    norm = lambda a, n: a + n if a < 0 else a
    if op in REDUCTIONS:
        if len(case["args"]) >= 2:
            return merged
        if ax is None:
            return []
        axes = [norm(a, R) for a in (ax if isinstance(ax, list) else [ax])]
        return [l for g, l in enumerate(merged) if g not in axes]
    if op == "stack":
        a = norm(0 if ax is None else ax, R + 1)
        return merged[:a] + [None] + merged[a:]
    if op == "concat":
        a = norm(ax or 0, R)
        along = [p.get(a) for p in per]
        merged[a] = [x for l in along for x in l] if all(l is not None for l in along) else None
        return merged
    if op == "take":
        a = norm(ax, R)
        ix = case["index"]
        if not isinstance(ix, list):
            return merged[:a] + merged[a + 1:]
        if merged[a] is not None:
            merged[a] = list(ix) if case.get("method") == "sel" else [merged[a][j] for j in ix]
        return merged
    return merged


# ----------------------------------------------------------------------------- comparison

def same_values(got, exp):
    """exact: shape, integers as Python ints, floats bit for bit up to the sign of zero, NaN at the same places"""
    got, exp = np.asarray(got), np.asarray(exp)
    if got.shape != exp.shape:
        return "shape %s, NumPy gives %s" % (got.shape, exp.shape)
    if exp.dtype.kind in "iub":
        if got.dtype.kind not in "iufb" or got.reshape(-1).tolist() != exp.reshape(-1).tolist():
            return "values %s, NumPy gives %s" % (got.tolist(), exp.tolist())
        return None
    if exp.dtype.kind == "c" or got.dtype.kind == "c":
        # a complex number with a NaN part is a NaN (numpy.isnan); all NaNs are one NaN, as for the real floats -- which of two
        # NaN elements numpy.min returns depends on the order it meets them
        g, e = got.astype(np.complex128).reshape(-1), exp.astype(np.complex128).reshape(-1)
        same = np.array_equal(g, e, equal_nan=True)
        return None if same else "values %s, NumPy gives %s" % (got.tolist(), exp.tolist())
    if got.dtype.kind not in "iufb" or not np.array_equal(got.astype(np.float64), exp.astype(np.float64), equal_nan=True):
        return "values %s, NumPy gives %s" % (got.tolist(), exp.tolist())
    return None


def dtype_diff(got, exp):
    got, exp = np.asarray(got), np.asarray(exp)
    if got.dtype != exp.dtype:
        return "result dtype %s, NumPy gives %s" % (got.dtype, exp.dtype)
    return None


# unit roundoff u = 2^-p and smallest positive (subnormal) number of the binary formats
_FMT = {"f64": (53, 1074), "f32": (24, 149), "f16": (11, 24)}


def numpy_batched(case, var):
    """NumPy's own evaluation of the SAME batch structure: f over each batch (a single-array batch is passed through
    unless the case is read literally), then f over the results."""
    key = "args" if var == 0 else "args2"
    f = getattr(np, NP_NAME.get(case["op"], case["op"]))
    arrs = [np_arg(case, i, key) for i in range(len(case[key]))]
    import warnings
    with np.errstate(all="ignore"), warnings.catch_warnings():
        warnings.simplefilter("ignore")
        mids, k = [], 0
        for n in case["batches"]:
            chunk = arrs[k:k + n]
            k += n
            mids.append(chunk[0] if (n == 1 and not case.get("literal")) else f(np.stack(chunk), axis=0))
        return f(np.stack(mids), axis=0)


def within_rounding_bound(op, dt, col, g, e):
    """THE BOUND.  col: the k values that meet in one output element (exact rationals x_1..x_k), g / e: the batched and the
    unbatched floating-point result.  Any evaluation order of a sum of k numbers in a binary format with unit roundoff
    u = 2^-p (p = 53 / 24 / 11) returns s with |s - sum x_i| <= gamma_(k-1) * sum |x_i|, gamma_n = n u / (1 - n u)
    (Higham, Accuracy and Stability of Numerical Algorithms, 2nd ed., (4.4)); any order of a product of k numbers returns
    q with |q - prod x_i| <= gamma_(k-1) * |prod x_i| (Lemma 3.1) as long as nothing underflows -- for underflow an
    absolute slack of k * eta * prod max(1, |x_i|) is added (eta = smallest positive number of the format).  True iff BOTH
    results satisfy the bound (so they differ from each other by at most twice the bound)."""
    p, emin = _FMT[dt]
    k = len(col)
    u = Fraction(1, 2 ** p)
    n = max(k - 1, 1)
    gamma = n * u / (1 - n * u)
    fr = [Fraction(x) for x in col]
    if op == "sum":
        exact = sum(fr)
        bound = gamma * sum(abs(x) for x in fr)
    else:
        exact, amp = Fraction(1), Fraction(1)
        for x in fr:
            exact *= x
            amp *= max(Fraction(1), abs(x))
        bound = gamma * abs(exact) + k * Fraction(1, 2 ** emin) * amp
    return abs(Fraction(g) - exact) <= bound and abs(Fraction(e) - exact) <= bound


def rounding_only(case, var, got, exp):
    """A batched float sum / prod of several arguments that differs from NumPy's f(all): is the difference the
    non-associativity of floating-point arithmetic and nothing else?  Two conditions, both required:
      (1) the backend's batched result is BIT FOR BIT what NumPy itself gives when it evaluates the same batch structure
          (numpy_batched) -- a backend that sums differently from NumPy (compensated summation, another accumulator
          width, ...) fails here even when its result is more accurate;
      (2) the batched and the unbatched result both lie within the a-priori rounding bound of the exact rational result
          (within_rounding_bound) -- a sanity bound on (1)'s reference itself.
    Outcomes are counted in STATS (rounding_bound:*)."""
    op = case["op"]
    key = "args" if var == 0 else "args2"
    dt = dtype_of(case, key)
    if op not in ("sum", "prod") or dt not in _FMT or len(case[key]) < 2:
        return False
    got, exp = np.asarray(got), np.asarray(exp)
    if got.shape != exp.shape or got.dtype != exp.dtype:
        return False
    try:
        nb = np.asarray(numpy_batched(case, var))
    except Exception:
        STATS["rounding_bound:numpy-batched-raises"] += 1
        return False
    if nb.shape != got.shape or nb.dtype != got.dtype or not np.array_equal(nb, got, equal_nan=True):
        STATS["rounding_bound:rejected-differs-from-numpy-batched"] += 1
        return False
    arrs = [np_arg(case, i, key) for i in range(len(case[key]))]
    if any(a.shape != exp.shape for a in arrs):
        return False
    cols = list(zip(*[a.astype(np.float64).reshape(-1).tolist() for a in arrs]))
    for g, e, col in zip(got.astype(np.float64).reshape(-1).tolist(), exp.astype(np.float64).reshape(-1).tolist(), cols):
        if g == e or (g != g and e != e):
            continue
        if not all(np.isfinite(x) for x in col) or not (np.isfinite(g) and np.isfinite(e)):
            STATS["rounding_bound:rejected-non-finite"] += 1
            return False
        if not within_rounding_bound(op, dt, col, g, e):
            STATS["rounding_bound:rejected-outside-bound"] += 1
            return False
    STATS["rounding_bound:accepted:" + dt] += 1
    return True


def bound_selftest():
    """the bound accepts the known witnesses and rejects a result that is off by a few units in the last place"""
    p53 = 2.0 ** 53
    return {
        "f64 sum witness accepted": within_rounding_bound("sum", "f64", [p53, 1.0, 1.0], p53 + 2, p53),
        "f64 sum off by 8 ulp rejected": not within_rounding_bound("sum", "f64", [p53, 1.0, 1.0], p53 + 16, p53),
        "f64 prod witness accepted": within_rounding_bound("prod", "f64", [0.1, 0.1, 0.3], 0.003, 0.0030000000000000005),
        "f64 prod off by 8 ulp rejected": not within_rounding_bound("prod", "f64", [0.1, 0.1, 0.3], 0.003, 0.003 + 8 * 4.4e-19),
        "f32 sum witness accepted": within_rounding_bound("sum", "f32", [2.0 ** 24, 1.0, 1.0], 2.0 ** 24 + 2, 2.0 ** 24),
        "f32 sum off by 4 ulp rejected": not within_rounding_bound("sum", "f32", [2.0 ** 24, 1.0, 1.0], 2.0 ** 24 + 8, 2.0 ** 24),
        "f16 sum witness accepted": within_rounding_bound("sum", "f16", [2048.0, 1.0, 1.0], 2050.0, 2048.0),
        "f16 sum off by 4 ulp rejected": not within_rounding_bound("sum", "f16", [2048.0, 1.0, 1.0], 2056.0, 2048.0),
    }


def _shapes(case):
    return [arg_shape(case, i) for i in range(len(case["args"])) if py_kind(case, i) is None]


def _size1_stretch(case):
    """NumPy would stretch an extent 1 against a larger one (right-aligned shapes)"""
    shs = _shapes(case)
    R = max([len(s) for s in shs] or [0])
    for g in range(R):
        es = {s[g - (R - len(s))] for s in shs if g >= R - len(s)}
        if 1 in es and len(es) > 1:
            return True
    return False


def _mixed(case):
    conts = case.get("conts")
    if not conts:
        return False
    kinds = {("np" if c == "np" else "xr") for i, c in enumerate(conts) if py_kind(case, i) is None}
    return len(kinds) > 1


def oracle(case, status, val):
    """Property oracle on one (possibly batched) case.  Returns None or (signature, what)."""
    from earthkit.workflows import backends
    op, be = case["op"], case["backend"]
    batched = bool(case.get("batches"))
    if batched and not getattr(getattr(backends, op), "batchable", False):
        return None                      # the law is claimed only for marked functions
    if op == "take" and case.get("dimkind") == "absent":
        return None                      # `dim` is a required keyword: no NumPy counterpart (compared with the model only)
    if case.get("stack_dim_exists") or case.get("concat_dim_missing"):
        return None                      # the backend's own argument checks: no NumPy counterpart (model only)
    if op in REDUCTIONS and be == "ds" and case.get("style") == "axis" and case.get("axis") is not None and len(case["args"]) == 1:
        return None                      # axis= on a Dataset has no meaning (variables may differ in rank): model only
    if op == "take" and be == "np" and (case.get("dimkind") == "name" or (case.get("style") == "dim" and not case.get("dimkind"))):
        return None                      # a dimension NAME on a plain array: no NumPy counterpart (model only)
    # the literal reading differs from what reduce() computes only on DEGENERATE partitions (a single-array batch, or one
    # batch holding everything); on the others it is the same computation and is judged as such
    literal = bool(case.get("literal")) and bool(len(case["batches"]) < 2 or 1 in case["batches"])
    kind = ("batch-law-literal" if literal else "batch-law") if batched else "value"
    sig = {"kind": kind, "op": op, "backend": be}
    if literal:
        sig["degenerate"] = True
    dts = "/".join(dtype_of(case, k) for k in ["args"] + (["args2"] if case.get("args2") else []))
    where = "%s on %s (%s)%s" % (op, be, dts, (" batches %s%s" % (case["batches"], " literally" if literal else "")) if batched else "")
    conflict = label_conflict(case)
    refs = []
    for vi in range(n_vars(case)):
        try:
            refs.append((True, numpy_reference(case, vi)))
        except Exception as e:
            refs.append((False, e))
    raises = [not ok for ok, _ in refs]
    unbatched = None
    if any(raises):
        # NumPy gives NO value for (a variable of) these arguments: the text demands nothing about them
        if not batched:
            STATS["oracle_silent:numpy-raises:" + ("backend-raises-too" if status == "error" else
                                                     "backend-returns-a-value" if all(raises) else "for-one-variable-only")] += 1
            if status == "error" or all(raises):
                return None
        else:
            # the LAW is about f itself: where NumPy rejects f(all) the batched result is compared with the backend's own f(all)
            st0, val0 = run_impl({k: v for k, v in case.items() if k not in ("batches", "literal")})
            if st0 == "error":
                STATS["oracle_silent:batched:numpy-and-backend-reject-f(all)"] += 1
                return None
            STATS["batched_compared_with_backend_f(all)"] += 1
            unbatched = val0
            if status == "error":
                return ({"kind": kind, "op": op, "backend": be, "cause": "f(all)-has-a-value"},
                        "%s raised %s where the backend's own f(all) returns %s (NumPy rejects f(all))"
                        % (where, val[1], [np.asarray(v["values"]).tolist() for v in val0]))
    for vi in range(n_vars(case)):
        ok_, exp = refs[vi]
        vs_backend = False
        if not ok_:
            if unbatched is None or vi >= len(unbatched):
                continue                     # (unbatched call, this variable only: nothing demanded for it)
            exp, vs_backend = unbatched[vi]["values"], True
        if status == "error":
            tok = val[0]
            if conflict and tok in ("align", "coords-presence"):
                STATS["oracle_silent:conflicting-labels-refused"] += 1
                continue                     # labelled operands that are not the same data as any plain arrays: refusing is right
            if _mixed(case) and tok == "mixed":
                STATS["oracle_silent:mixture-of-containers-refused"] += 1
                continue                     # a mixture of plain and xarray arguments: outside the quantifier of the text
            cause = tok
            if be != "np" and tok == "shape" and _size1_stretch(case) and op in BINARY:
                cause = "xr-size1-stretch"
            s = dict(sig)
            if not batched:
                s["kind"] = "error"
            s["cause"] = cause
            return (s, "%s raised %s where NumPy computes %s" % (where, val[1], np.asarray(exp).tolist()))
        got = val[vi]["values"]
        dd = dtype_diff(got, exp)
        diff = same_values(got, exp)
        if dd:
            # the result dtype is part of "the value NumPy gives" (float32 data summed in float64 is another number)
            s = {"kind": "dtype", "op": op, "backend": be}
            if be != "np" and op in REDUCTIONS and var_view(case, vi)[0] == [] and not batched:
                s["cause"] = "xr-empty-dim-list"
            return (s, "%s: %s%s" % (where, dd, ("; " + diff) if diff else " (the values agree)"))
        if diff:
            s = dict(sig)
            if vs_backend:
                s["cause"] = "differs-from-backend-f(all)"
                diff = diff.replace("NumPy gives", "the backend's own f(all) gives")
            elif conflict:
                s["kind"] = "misaligned-value"
            elif batched and not literal and rounding_only(case, vi, got, exp):
                s["kind"] = kind + "-float-rounding"
            what = where + (" (axis=%s index=%s)" % (case.get("axis"), case.get("index")) if not batched else "") + ": " + diff
            return (s, what)
        if vs_backend:
            continue
        if val[vi]["labels"] is not None or any(cont_of(case, i) != "np" for i in range(len(case["args"]))):
            if not conflict:
                el = expected_labels(case, vi, np.ndim(exp))
                if val[vi]["labels"] != el or val[vi]["extra"]:
                    return ({"kind": "coords", "op": op, "backend": be},
                            "%s: result carries labels %s (other coordinates %s), expected %s" % (where, val[vi]["labels"], val[vi]["extra"], el))
    return None
