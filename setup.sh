#!/bin/sh
# MANIFEST.setup_cmd: build the Lean library from files on disk (offline), byte-compile nothing.
set -e
HERE="$(cd "$(dirname "$0")" && pwd)"
cd "$HERE"
# regenerate the translated tables from /repo's current tree (failures are reported by the checks)
PYTHONPATH="${EKW_REPO:-/repo}/src:$HERE/harness" /venv/bin/python -m ekw.translate_all || true
cd "$HERE/lean"
lake build 2>&1 | tail -5
