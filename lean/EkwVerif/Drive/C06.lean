import EkwVerif.Drive.Util
import EkwVerif.Model.Ack
import EkwVerif.Gen.RetryLoops
open Lean EkwVerif.Drive EkwVerif.Frames EkwVerif.Ack

/-! Line-protocol driver for C06 (see harness/ekw/props/c06.py for the op language). -/

structure DSt where
  sys : Sys := {}
  syns : List (Nat × Nat) := []          -- every Syn ever seen on the wire (domain of `acked`)
  hostKeys : List Nat := []              -- host ids used in `reset`
  nEps : Nat := 0

def frameJson : Frame → Json
  | .syn i a => Json.arr #[Json.str "syn", toJson i, toJson a]
  | .hdr h => Json.arr #[Json.str "hdr", toJson h]
  | .msg (.ack i) => Json.arr #[Json.str "ack", toJson i]
  | .msg (.app m) => Json.arr #[Json.str "msg", toJson m]
  | .junk b => Json.arr #[Json.str "junk", toJson b]

def frameOf (j : Json) : Frame :=
  match asArr j with
  | [k, x, y] => if asStr k == "syn" then .syn (asNat x) (asNat y) else .junk 0
  | [k, x] =>
    match asStr k with
    | "hdr" => .hdr (asNat x)
    | "ack" => .msg (.ack (asNat x))
    | "msg" => .msg (.app (asNat x))
    | _ => .junk (asNat x)
  | _ => .junk 0

def parsedJson : Parsed → Json
  | .msg (.ack i) => Json.arr #[Json.str "ack", toJson i]
  | .msg (.app m) => Json.arr #[Json.str "msg", toJson m]
  | .payload h v => Json.arr #[Json.str "payload", toJson h, frameJson v]

def errStr : Err → String
  | .empty => "empty" | .des => "des" | .synOnly => "synOnly" | .hdrLen2 => "hdrLen2"
  | .len1 => "len1" | .doubleSyn => "doubleSyn" | .hdrLen3 => "hdrLen3" | .len2 => "len2"

def packetJson (p : Packet) : Json := Json.arr #[toJson p.dst, Json.arr (p.frames.map frameJson).toArray]

def synsOfPackets (ps : List Packet) : List (Nat × Nat) :=
  ps.flatMap (fun p => p.frames.filterMap (fun f => match f with | .syn i a => some (i, a) | _ => none))

def addSyns (old new : List (Nat × Nat)) : List (Nat × Nat) :=
  new.foldl (fun acc x => if acc.contains x then acc else acc ++ [x]) old

def recJson (i : Nat) (r : Rec) : Json :=
  Json.arr #[toJson i, toJson r.host, toJson r.msg, toJson r.sentAt, toJson r.remaining]

/-- digest of endpoint `a` after an op; `s0` is the state before the op -/
def digest (d : DSt) (s0 : Sys) (a : Nat) (extra : List (String × Json) := []) : Json :=
  let s := d.sys
  let e := s.ep a
  let e0 := s0.ep a
  let infl := (List.range (e.idx + 1)).filterMap (fun i => (e.inflight i).map (recJson i))
  let ack := d.syns.filter (fun x => e.acked x.1 x.2)
  Json.mkObj ([
    ("ep", toJson a),
    ("wire", Json.arr ((s.net.drop s0.net.length).map packetJson).toArray),
    ("accepted", Json.arr ((e.delivered.drop e0.delivered.length).map (fun x => parsedJson x.body)).toArray),
    ("handled", Json.arr ((e.handled.drop e0.handled.length).map (fun x => parsedJson x.body)).toArray),
    ("pending", toJson (e.batch.length + e.staged.length)),
    ("discarded", toJson (e.lost.length - e0.lost.length)),
    ("inflight", Json.arr infl.toArray),
    ("idx", toJson e.idx),
    ("raised", toJson e.raised),
    ("errors", toJson (e.errors - e0.errors)),
    ("acked", Json.arr (ack.map (fun x => Json.arr #[toJson x.1, toJson x.2])).toArray),
    ("hosts", Json.arr ((d.hostKeys.filter (fun h => (e.hosts h).isSome)).map (fun (h : Nat) => toJson h)).toArray),
    ("inbox", toJson e.inbox.length),
    ("netlen", toJson s.net.length)] ++ extra)

/-- clear the sticky ghost flag so that the digest reports "raised during this op" -/
def clearRaised (s : Sys) (a : Nat) : Sys := setEp s a { s.ep a with raised := false }

def applyOps (d : DSt) (a : Nat) (ops : List Op) (extra : List (String × Json) := []) : DSt × Json :=
  let s0 := clearRaised d.sys a
  let s1 := run s0 ops
  let d1 := { d with sys := s1, syns := addSyns d.syns (synsOfPackets (s1.net.drop s0.net.length)) }
  (d1, digest d1 s0 a extra)

def netIndex (s : Sys) (k : Nat) : Option Nat := if s.net.length = 0 then none else some (k % s.net.length)

/-- the loop's row of the generated table (`harness` = the harness' own loop over a bare endpoint) -/
def loopInfo (name : String) : LoopInfo :=
  ((EkwVerif.Gen.RetryLoops.loops ++ EkwVerif.Gen.RetryLoops.recvOnlyLoops).find? (fun l => l.name == name)).getD
    { name := name, phase := .steady, feedsAck := true, callsRetry := true }

/-- actions of one loop iteration in the order observed on the real code: `collect` = one
`_recv_one` that took a frame list off the queue; `take L stage` = the loop body of loop L takes the
next message of the batch (`feedsAck` of L from the generated table); `commit` = `recv_events`
returned; `abort` = the iteration was abandoned with messages untaken / events unreturned -/
def actStep (a : Nat) (s : Sys) (j : Json) : Sys :=
  match asArr j with
  | [k, h, m] =>
    if asStr k == "send" then step s (Op.send a (asNat h) (asNat m))
    else if asStr k == "take" then
      step s (Op.process a (loopInfo (asStr h)).feedsAck (match m with | Json.bool b => b | _ => false))
    else s
  | [k, x] =>
    if asStr k == "pop" then step s (Op.popHost a (asNat x)) else s
  | [k] =>
    match asStr k with
    | "retry" => step s (Op.retry a)
    | "collect" => step s (Op.collect a)
    | "commit" => step s (Op.commit a)
    | "abort" => step s (Op.abort a)
    | _ => s
  | _ => s

def flushAll (dropTo : List Nat) : Nat → Sys → Sys
  | 0, s => s
  | fuel + 1, s =>
    match s.net with
    | [] => s
    | p :: _ => flushAll dropTo fuel (if dropTo.contains p.dst then step s (Op.drop 0) else step s (Op.deliver 0))

def c06Step (d : DSt) (j : Json) : DSt × Json :=
  let a := getNat j "ep"
  match getStr j "op" with
  | "reset" =>
    let eps := getArr j "eps"
    let cfgOf (n : Nat) : Nat × (Nat → Option Nat) :=
      match eps[n]? with
      | none => (0, fun _ => none)
      | some e => (getNat e "grace",
          lookup ((getArr e "hosts").map (fun p => match asArr p with | [h, ad] => (asNat h, asNat ad) | _ => (0, 0))))
    let keys := eps.flatMap (fun e => (getArr e "hosts").map (fun p => match asArr p with | [h, _] => asNat h | _ => 0))
    ({ sys := init (getNat j "max") cfgOf, syns := [], hostKeys := keys.eraseDups, nEps := eps.length }, Json.str "reset")
  | "send" =>
    let fails := sendFails d.sys a (getNat j "h")
    applyOps d a [Op.send a (getNat j "h") (getNat j "m")] [("err", if fails then Json.str "KeyError" else Json.null)]
  | "local" => applyOps d a [Op.localMsg a (getNat j "m")]
  | "drop" =>
    match netIndex d.sys (getNat j "k") with
    | none => (d, Json.mkObj [("net", Json.str "empty")])
    | some k =>
      let dst := (d.sys.net[k]?.map (·.dst)).getD 0
      applyOps d dst [Op.drop k]
  | "deliver" =>
    match netIndex d.sys (getNat j "k") with
    | none => (d, Json.mkObj [("net", Json.str "empty")])
    | some k =>
      let dst := (d.sys.net[k]?.map (·.dst)).getD 0
      applyOps d dst [Op.deliver k]
  | "dup" =>
    match netIndex d.sys (getNat j "k") with
    | none => (d, Json.mkObj [("net", Json.str "empty")])
    | some k =>
      let dst := (d.sys.net[k]?.map (·.dst)).getD 0
      applyOps d dst [Op.dup k]
  | "recv" => applyOps d a [Op.collect a, Op.process a (getBool j "feeds") false]
  | "inject" =>
    let fs := (getArr j "frames").map frameOf
    let s1 := inject d.sys a fs
    ({ d with sys := s1, syns := addSyns d.syns (synsOfPackets [⟨a, fs⟩]) }, Json.mkObj [("inbox", toJson (s1.ep a).inbox.length)])
  | "retry" => applyOps d a [Op.retry a]
  | "tick" => applyOps d a [Op.tick a (getNat j "dt")]
  | "pop" => applyOps d a [Op.popHost a (getNat j "h")]
  | "poll" =>
    let s0 := clearRaised d.sys a
    let s1 := (getArr j "acts").foldl (actStep a) s0
    let d1 := { d with sys := s1, syns := addSyns d.syns (synsOfPackets (s1.net.drop s0.net.length)) }
    -- `stops`: the model's reading of clause (b) — an iteration in which `maybe_retry` raised is the LAST one of
    -- that loop (the raise is not swallowed); compared with what the real loop function did
    (d1, digest d1 s0 a [("stops", toJson (s1.ep a).raised)])
  | "flush" =>
    let dropTo := (getArr j "drop_to").map asNat
    let s1 := flushAll dropTo d.sys.net.length d.sys
    ({ d with sys := s1 }, Json.mkObj [("netlen", toJson s1.net.length),
      ("inboxes", Json.arr ((List.range d.nEps).map (fun b => toJson (s1.ep b).inbox.length)).toArray)])
  | "noop" => (d, Json.str "noop")
  | "rawrecv" =>
    let acked := (getArr j "acked").map (fun p => match asArr p with | [i, ad] => (asNat i, asNat ad) | _ => (0, 0))
    let out := recvOne (fun i ad => acked.contains (i, ad)) ((getArr j "frames").map frameOf)
    let res := match out.res with
      | .error e => Json.arr #[Json.str "err", Json.str (errStr e)]
      | .ok none => Json.arr #[Json.str "none"]
      | .ok (some p) => Json.arr #[Json.str "ok", parsedJson p]
    (d, Json.mkObj [
      ("res", res),
      ("ack", match out.ack with | some (ad, i) => Json.arr #[toJson ad, toJson i] | none => Json.null),
      ("mark", match out.mark with | some (i, ad) => Json.arr #[toJson i, toJson ad] | none => Json.null)])
  | "consts" =>
    (d, Json.mkObj [("maxRetries", toJson EkwVerif.Gen.RetryLoops.maxRetries),
                    ("resendGraceMs", toJson EkwVerif.Gen.RetryLoops.resendGraceMs),
                    ("defaultTimeoutMs", toJson EkwVerif.Gen.RetryLoops.defaultTimeoutMs)])
  | _ => (d, Json.str "bad-op")

def main : IO Unit := runLoop ({} : DSt) c06Step
