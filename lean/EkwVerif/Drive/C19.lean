import EkwVerif.Drive.Util
import EkwVerif.Model.Builder
open Lean EkwVerif.Drive EkwVerif.Builder

def optTy (j : Json) (k : String) : Option Ty := getOptStr j k

def parseVal (j : Json) : Val := { ty := getStr j "ty", repr := getStr j "r" }

def parseOptVal (j : Json) (k : String) : Option Val :=
  match j.getObjVal? k with
  | .ok (.obj o) => some (parseVal (.obj o))
  | _ => none

def parseKind : String → Kind
  | "posOnly" => .posOnly
  | "posOrKw" => .posOrKw
  | "varPos" => .varPos
  | "kwOnly" => .kwOnly
  | _ => .varKw

/-- `{"ann": name|null, "how": "absent"|"class"|"string"|"named"|"nameless"}` (key prefix `p`: "" for a parameter, "r" for the return) -/
def parseAnn (j : Json) (annKey howKey : String) : Ann :=
  if getStr j howKey == "nameless" then .nameless else
  match optTy j annKey with
  | some s => .named s
  | none => .absent

def parseParam (j : Json) : Param :=
  { name := getStr j "name", kind := parseKind (getStr j "kind"), ann := parseAnn j "ann" "how", dflt := parseOptVal j "dflt" }

def strList (j : Json) (k : String) : List String := (getArr j k).map asStr

def optStrKey (j : Json) (k : String) : Option String := getOptStr j k

def parseInto (j : Json) : Into :=
  match j.getObjVal? "into" with
  | .ok (.str s) => .kw s
  | .ok v => .ps (asInt v)
  | _ => .ps 0

def parseOp (j : Json) : Option Op :=
  match getStr j "op" with
  | "task" => some (.fromCallable { params := (getArr j "params").map parseParam, ret := parseAnn j "ret" "rhow" } (strList j "env"))
  | "entry" => some (.fromEntrypoint (getStr j "entrypoint")
      ((getArr j "schema").map (fun p => match asArr p with | [k, v] => (asStr k, asStr v) | _ => ("", "")))
      (getStr j "out") (strList j "env"))
  | "values" =>
    some (.withValues (getNat j "t") ((getArr j "args").map parseVal)
      ((getArr j "kwargs").map (fun p => match asArr p with | [k, v] => (asStr k, parseVal v) | _ => ("", parseVal p))))
  | "builder" => some .newBuilder
  | "node" => some (.withNode (getNat j "b") (getStr j "name") (getNat j "t"))
  | "edge" => some (.withEdge (getNat j "b") (getStr j "src") (getStr j "sink") (parseInto j) (optStrKey j "frum"))
  | "build" => some (.build (getNat j "b"))
  | _ => none

def jVal3 (k : String) (v : Val) : Json := Json.arr #[Json.str k, Json.str v.ty, Json.str v.repr]

def jTask (t : Task) : Json :=
  Json.mkObj [("kind", "task"),
    ("in", Json.arr (t.defn.inputSchema.map (fun p => strs [p.1, p.2])).toArray),
    ("out", Json.arr (t.defn.outputSchema.map (fun p => strs [p.1, p.2])).toArray),
    ("entry", Json.str t.defn.entrypoint), ("env", strs t.defn.environment), ("func", Json.bool t.defn.hasFunc),
    ("kw", Json.arr (t.kw.map (fun p => jVal3 p.1 p.2)).toArray),
    ("ps", Json.arr (t.ps.map (fun p => jVal3 (toString p.1) p.2)).toArray)]

def jEdge (e : Edge) : Json :=
  match e.into with
  | .kw p => Json.arr #[Json.str e.src, Json.str e.out, Json.str e.sink, Json.str p, Json.null]
  | .ps i => Json.arr #[Json.str e.src, Json.str e.out, Json.str e.sink, Json.null, toJson i]

def jNodes (l : List (String × Task)) : Json := Json.arr (l.map (fun p => Json.arr #[Json.str p.1, jTask p.2])).toArray

def jProblem : Problem → Json
  | .staticType t k need got => strs ["staticType", t, k, need, got]
  | .fromNoTask s o => strs ["fromNoTask", s, o]
  | .fromNoParam o => strs ["fromNoParam", o]
  | .toNoTask s => strs ["toNoTask", s]
  | .toNoParam p => strs ["toNoParam", p]
  | .incompatible e => Json.arr #[Json.str "incompatible", jEdge e]
  | .fedTwice e => Json.arr #[Json.str "fedTwice", jEdge e]

def jObj : Obj → Json
  | .task t => jTask t
  | .builder b => Json.mkObj [("kind", "builder"), ("nodes", jNodes b.nodes), ("edges", Json.arr (b.edges.map jEdge).toArray)]
  | .result (.error .nameError) => Json.mkObj [("kind", "crash"), ("err", "NameError")]
  | .result (.ok (.job j)) => Json.mkObj [("kind", "job"), ("nodes", jNodes j.tasks), ("edges", Json.arr (j.edges.map jEdge).toArray)]
  | .result (.ok (.problems l)) => Json.mkObj [("kind", "problems"), ("problems", Json.arr (l.map jProblem).toArray)]
  | .invalid => Json.mkObj [("kind", "invalid")]

def c19Step (s : List Obj) (j : Json) : List Obj × Json :=
  if getStr j "op" == "reset" then ([], Json.str "reset") else
  -- a callable for which `inspect.signature` raises (C callables without a text signature): `from_callable` cannot
  -- describe it; no object is created (outside the model: constant answer of the driver, no theorem speaks of it)
  if getStr j "op" == "nosig" then (s ++ [.invalid], Json.mkObj [("kind", "crash"), ("err", "ValueError")]) else
  match parseOp j with
  | none => (s, Json.str "bad-op")
  | some op =>
    let o := evalOp builtinEnv s op
    (s ++ [o], jObj o)

def main : IO Unit := runLoop ([] : List Obj) c19Step
