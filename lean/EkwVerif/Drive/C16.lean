import EkwVerif.Drive.Util
import EkwVerif.Model.Presched
open Lean EkwVerif.Drive EkwVerif.Presched

/-
One line in:  {"tasks": [[id, [output, ...]], ...],
               "edges": [{"src":..,"out":..,"dst":..,"kw": str|null,"ps": int|null}, ...]}
One line out: {"error": "TypeError"} or {"error": "Enrich", "errors": ["KeyError" | "Diverges" | "FuelExhausted", ..]} or
  {"components": [{"nodes":[..],"sources":[..],"depth":n,"value":[[t,v]..],
                   "dist":[[a,[[b,d]..]]..],"paths":[[a,[[b,d]..]]..]}..],
   "edge_o": [[[t,o],[t..]]..], "edge_i": [[t,[[t,o]..]]..], "task_o": [[t,[[t,o]..]]..]}
-/

def optInt (j : Json) (k : String) : Option Int :=
  match j.getObjVal? k with
  | .ok (.num n) => if n.exponent == 0 then some n.mantissa else none
  | _ => none

def errJ : LoopErr → Json
  | .keyError => Json.str "KeyError"
  | .diverges => Json.str "Diverges"
  | .fuel => Json.str "FuelExhausted"

def parseTask (j : Json) : String × List String :=
  match asArr j with
  | [t, outs] => (asStr t, (asArr outs).map asStr)
  | _ => ("", [])

def parseEdge (j : Json) : RawEdge String String :=
  { src := getStr j "src", out := getStr j "out", dst := getStr j "dst",
    kw := getOptStr j "kw", ps := optInt j "ps" }

def dsJ (d : String × String) : Json := Json.arr #[Json.str d.1, Json.str d.2]
def rowJ (r : Row String) : Json := Json.arr (r.map (fun p => Json.arr #[Json.str p.1, toJson p.2])).toArray
def tabJ (t : List (String × Row String)) : Json :=
  Json.arr (t.map (fun p => Json.arr #[Json.str p.1, rowJ p.2])).toArray

def compJ (c : Component String) : Json :=
  Json.mkObj [("nodes", strs c.nodes), ("sources", strs c.sources), ("depth", toJson c.depth),
    ("value", rowJ c.value), ("dist", tabJ c.dist), ("paths", tabJ c.paths)]

def c16Step (_ : Unit) (j : Json) : Unit × Json :=
  let tasks := (getArr j "tasks").map parseTask
  let edges := (getArr j "edges").map parseEdge
  match precomputeRawX tasks edges with
  | none => ((), Json.mkObj [("error", Json.str "TypeError")])
  | some p =>
    let errs := match edges.mapM RawEdge.toEdge? with
      | some es => enrichErrors ⟨tasks, es⟩
      | none => []
    if !errs.isEmpty then ((), Json.mkObj [("error", Json.str "Enrich"), ("errors", Json.arr (errs.map errJ).toArray)]) else
    ((), Json.mkObj [
      ("components", Json.arr (p.components.map compJ).toArray),
      ("edge_o", Json.arr (p.edge_o.map (fun e => Json.arr #[dsJ e.1, strs e.2])).toArray),
      ("edge_i", Json.arr (p.edge_i.map (fun e => Json.arr #[Json.str e.1, Json.arr (e.2.map dsJ).toArray])).toArray),
      ("task_o", Json.arr (p.task_o.map (fun e => Json.arr #[Json.str e.1, Json.arr (e.2.map dsJ).toArray])).toArray)])

def main : IO Unit := runLoop () c16Step
