/-
Line-protocol driver for C13: one fluent program per line
  {"stmts":[{"op":"source",…},{"op":"named","a":0,…},…]}
Every statement is executed by the model function that `Prog.build` (Props/C13Den.lean) composes for that operation
(map, mapMany, reduce, named, mean, std, combine, flattenKw, select(N), iselect(N), expandG, broadcastX, join, arithScalar,
arithAction, transform), so the correspondence check ties exactly what the denotation theorem is about.
answer: one JSON array with, per statement, {"dims":[[name,[labels],indexed]…],"scalars":[[name,label]…],
"exprs":[canonical expression per position, row-major]} | {"err":class} | {"skip":true}.
-/
import EkwVerif.Drive.Util
import EkwVerif.Model.Fluent
open Lean EkwVerif.Drive EkwVerif.Fluent

namespace C13Drive

def coordOfJson (j : Json) : Coord :=
  match j with
  | .str s => .str s
  | _ => .int (asInt j)

def coordToJson : Coord → Json
  | .int i => toJson i
  | .str s => Json.str s

/-- a JSON number as the exact rational it denotes (`0.5` is mantissa 5, exponent 1): float arguments such as the exponent of
`a.power(0.5)` reach the model as they are written -/
def ratOfJson (j : Json) : Rat :=
  match j with
  | .num n => (n.mantissa : Rat) / ((10 ^ n.exponent : Nat) : Rat)
  | _ => 0

def staticOfJson (j : Json) : Static :=
  match j with
  | .str s => .str s
  | _ => .num (ratOfJson j)

def ratStr (q : Rat) : String :=
  if q.den = 1 then toString q.num else toString q.num ++ "/" ++ toString q.den

def staticStr : Static → String
  | .num q => ratStr q
  | .str s => "'" ++ s ++ "'"

def targStr : TArg → String
  | .inp k => "$" ++ toString k
  | .lit s => staticStr s

mutual
partial def exprStr : Expr → String
  | .src i => "s" ++ toString i
  | .app fn tmpl kw ins =>
    fn ++ "(" ++ ",".intercalate (tmpl.map targStr) ++ ";" ++
      ",".intercalate (kw.map (fun (k, v) => k ++ "=" ++ staticStr v)) ++ ")[" ++
      ",".intercalate (ins.map exprStr) ++ "]"
  | .out k e => toString k ++ "@" ++ exprStr e
end

/-- all positions of `dims`, row-major, as association lists -/
def positions : List Dim → List (List (String × Nat))
  | [] => [[]]
  | x :: rest =>
    let tails := positions rest
    (List.range x.labels.length).flatMap (fun i => tails.map (fun t => (x.name, i) :: t))

def ixOf (p : List (String × Nat)) : Ix := fun n =>
  match p.find? (·.1 = n) with
  | some (_, i) => i
  | none => 0

def sortScalars (l : List (String × Coord)) : List (String × Coord) :=
  (l.toArray.qsort (fun a b => a.1 < b.1)).toList

def arrayToJson (a : NodeArray) : Json :=
  Json.mkObj [
    ("dims", Json.arr (a.dims.map (fun d => Json.arr #[Json.str d.name, Json.arr (d.labels.map coordToJson).toArray, Json.bool d.indexed])).toArray),
    ("scalars", Json.arr ((sortScalars a.scalars).map (fun (n, v) => Json.arr #[Json.str n, coordToJson v])).toArray),
    ("exprs", Json.arr ((positions a.dims).map (fun p => Json.str (exprStr (a.node (ixOf p))))).toArray)]

def errStr : Err → String
  | .key => "key" | .index => "index" | .assert => "assert" | .type => "type"
  | .notimpl => "notimpl" | .value => "value" | .other => "other" | .outOfScope => "outOfScope"

def getCoords (j : Json) (k : String) : List Coord := (getArr j k).map coordOfJson

def dimArgOf (j : Json) : DimArg :=
  match j with
  | .str s => .name s
  | _ => match asArr j with
    | [n, ls] => .coord (asStr n) ((asArr ls).map coordOfJson)
    | _ => .name ""

def yieldsOf (j : Json) : Option (String × List Coord) :=
  match j.getObjVal? "yields" with
  | .ok (.arr a) => match a.toList with
    | [n, ls] => some (asStr n, (asArr ls).map coordOfJson)
    | _ => none
  | _ => none

def kwOf (j : Json) : List (String × Static) :=
  (getArr j "kw").map (fun p => match asArr p with | [k, v] => (asStr k, staticOfJson v) | _ => ("", .str ""))

def customPayload (fn : String) (j : Json) : Payload :=
  match fn with
  | "affine" => { fn := "affine", tmpl := [.inp 0, .lit (.num (getInt j "k" : Rat))] }
  | "first" => { fn := "first", batchable := true }
  | _ => { fn := fn }

def hasKey (j : Json) (k : String) : Bool := (j.getObjVal? k).isOk

def transformFn (kind fdim : String) (a : NodeArray) (p : Json) : Except Err NodeArray :=
  match kind with
  | "mul" => .ok (arithScalar "multiply" (staticOfJson p) a)
  | "seldrop" => select fdim (.one (coordOfJson p)) true a
  | "sel" => select fdim (.one (coordOfJson p)) false a
  | "take" => expandTransformKw (.num 0) [] a (staticOfJson p)
  | _ => .error .outOfScope

def execStmt (env : Array (Option NodeArray)) (j : Json) : Except Err NodeArray := do
  let op := getStr j "op"
  if op == "source" then
    let dims := (getArr j "dims").map (fun d => match asArr d with | [n, ls] => (asStr n, (asArr ls).map coordOfJson) | _ => ("", []))
    return fromSource dims (getNat j "base")
  let a := (env[getNat j "a"]?.join).getD default
  let b := (env[getNat j "b"]?.join).getD default
  let dim := getStr j "dim"
  let bs := getNat j "bs"
  let keep := getBool j "keep"
  match op with
  | "map" => pure (map (customPayload (getStr j "fn") j) (yieldsOf j) a)
  | "reduce" => reduce (customPayload (getStr j "fn") j) (yieldsOf j) dim bs keep a
  | "named" =>
    match getStr j "name" with
    | "mean" => mean dim bs keep (kwOf j) a
    | "std" => std dim bs keep (kwOf j) a
    | n => named n dim bs keep (kwOf j) a
  | "stack" => combine "stack" (("axis", .num (getInt j "axis")) :: kwOf j) dim bs keep a
  | "concatenate" => combine "concat" (kwOf j) dim bs keep a
  | "flatten" => flattenKw dim (getInt j "axis") (kwOf j) a
  | "mapn" =>
    mapMany ((getArr j "ks").map (fun k => ({ fn := "affine", tmpl := [.inp 0, .lit (.num (asInt k : Rat))] } : Payload)))
      ((getArr j "shape").map asNat) a
  | "selectn" =>
    let crit := (getArr j "crit").map asArr
    if getStr j "how" == "select" then
      selectN (crit.map (fun c => match c with
        | [d, k, x] => (asStr d, if asStr k == "val" then Sel.one (coordOfJson x) else Sel.many ((asArr x).map coordOfJson))
        | _ => ("", Sel.many []))) (getBool j "drop") a
    else
      iselectN (crit.map (fun c => match c with
        | [d, k, x] => (asStr d, if asStr k == "val" then Sel.one (asNat x) else Sel.many ((asArr x).map asNat))
        | _ => ("", Sel.many []))) (getBool j "drop") a
  | "select" =>
    if hasKey j "val" then select dim (.one (coordOfJson ((j.getObjVal? "val").toOption.getD Json.null))) (getBool j "drop") a
    else select dim (.many (getCoords j "vals")) (getBool j "drop") a
  | "iselect" =>
    if hasKey j "val" then iselect dim (.one (getNat j "val")) (getBool j "drop") a
    else iselect dim (.many ((getArr j "vals").map asNat)) (getBool j "drop") a
  | "expand" =>
    let spec : ExpandSpec :=
      if hasKey j "icoord" then
        match asArr ((j.getObjVal? "icoord").toOption.getD Json.null) with
        | [n, vs] => .coord (asStr n) ((asArr vs).map staticOfJson)
        | _ => .coord "" []
      else
        .sized (staticOfJson ((j.getObjVal? "internal").toOption.getD Json.null))
          (match j.getObjVal? "size" with | .ok (.num _) => some (getNat j "size") | _ => none)
    expandG (dimArgOf ((j.getObjVal? "dim").toOption.getD Json.null)) spec (kwOf j) (getNat j "axis") a
  | "broadcast" => broadcastX a b ((getArr j "exclude").map asStr)
  | "join" => join a b (dimArgOf ((j.getObjVal? "dim").toOption.getD Json.null)) (getBool j "match")
  | "arith" =>
    if hasKey j "b" then arithAction (getStr j "fn") a b
    else pure (arithScalar (getStr j "fn") (staticOfJson ((j.getObjVal? "scalar").toOption.getD Json.null)) a)
  | "transform" =>
    transform (transformFn (getStr j "func") (getStr j "fdim")) (getArr j "params")
      (dimArgOf ((j.getObjVal? "dim").toOption.getD Json.null)) (getNat j "axis") a
  | _ => throw Err.outOfScope

def operandsOk (env : Array (Option NodeArray)) (j : Json) : Bool :=
  if getStr j "op" == "source" then true else
  let ok := fun (k : String) => match j.getObjVal? k with
    | .ok (.num _) => (env[getNat j k]?.join).isSome
    | _ => true
  ok "a" && ok "b"

def runProgram (j : Json) : Json :=
  let (_, outs) := (getArr j "stmts").foldl (fun (acc : Array (Option NodeArray) × Array Json) st =>
    let (env, outs) := acc
    if !operandsOk env st then (env.push none, outs.push (Json.mkObj [("skip", Json.bool true)]))
    else match execStmt env st with
      | .ok r => (env.push (some r), outs.push (arrayToJson r))
      | .error e => (env.push none, outs.push (Json.mkObj [("err", Json.str (errStr e))]))) (#[], #[])
  Json.arr outs

end C13Drive

def main : IO Unit := runLoop () (fun _ j => ((), C13Drive.runProgram j))
