import EkwVerif.Drive.Util
import EkwVerif.Model.Lower
import EkwVerif.Model.Runner
import EkwVerif.Model.YieldRef
open Lean EkwVerif.Drive EkwVerif.Lower EkwVerif.Runner

def valOf (j : Json) : Val :=
  match j with
  | .null => .none
  | _ =>
    match j.getObjVal? "s" with
    | .ok (.str s) => .str s
    | _ =>
      match j.getObjVal? "i" with
      | .ok x => .int (asInt x)
      | _ =>
        match j.getObjVal? "t" with
        | .ok (.str s) => .tok s
        | _ =>
          match j.getObjVal? "d" with
          | .ok (.str s) => .data s
          | _ => .obj (getStr j "o")

def valJ : Val → Json
  | .none => Json.null
  | .str s => Json.mkObj [("s", Json.str s)]
  | .int i => Json.mkObj [("i", toJson i)]
  | .tok s => Json.mkObj [("t", Json.str s)]
  | .data s => Json.mkObj [("d", Json.str s)]
  | .obj s => Json.mkObj [("o", Json.str s)]

def optNatJ : Option Nat → Json
  | none => Json.null
  | some n => toJson n

def kwOf (l : List Json) : List (String × Val) :=
  l.map (fun p => match asArr p with | [k, v] => (asStr k, valOf v) | _ => ("", .none))

def kwJ (l : List (String × Val)) : Json :=
  Json.arr (l.map (fun p => Json.arr #[Json.str p.1, valJ p.2])).toArray

def nodeOf (j : Json) : String × SNode :=
  let payload : Option (List Val × List (String × Val)) :=
    match j.getObjVal? "payload" with
    | .ok (.obj _) =>
      let p := (j.getObjVal? "payload").toOption.getD Json.null
      some ((getArr p "args").map valOf, kwOf (getArr p "kwargs"))
    | _ => none
  let inputs := (getArr j "inputs").map (fun i =>
    match asArr i with
    | [p, par, .null] => (asStr p, InRef.dflt (asStr par))
    | [p, par, o] => (asStr p, InRef.named (asStr par) (asStr o))
    | _ => ("", InRef.dflt ""))
  (getStr j "name", { payload := payload, inputs := inputs, outputs := (getArr j "outputs").map asStr,
                      payloadAbsent := getBool j "payload_absent" })

def edgeJ (e : Edge) : Json :=
  Json.arr #[Json.str e.source.task, Json.str e.source.output, Json.str e.sink, optNatJ e.ps, optStr e.kw]

def edgeOf (j : Json) : Edge :=
  match asArr j with
  | [st, so, sink, ps, kw] =>
    { source := ⟨asStr st, asStr so⟩, sink := asStr sink,
      ps := (match ps with | .null => none | x => some (asNat x)),
      kw := (match kw with | .str s => some s | _ => none) }
  | _ => { source := ⟨"", ""⟩, sink := "", ps := none, kw := none }

def taskJ (name : String) (t : Task) : Json :=
  Json.mkObj [("name", Json.str name),
    ("ps", Json.arr (t.staticPs.map (fun p => Json.arr #[toJson p.1, valJ p.2])).toArray),
    ("kw", kwJ t.staticKw),
    ("in_schema", strs t.inputSchema),
    ("out_schema", strs t.outputSchema)]

def lowerErrJ : LowerErr → String
  | .keyError => "keyError"
  | .notImplemented => "notImplemented"

def errJ : Err → String
  | .typeError => "type-error"
  | .missingInput => "missing-input"
  | .noOutputs => "no-outputs"
  | .callableRaised => "callable-raised"
  | .notIterable => "not-iterable"
  | .fewerResults => "fewer-results"
  | .moreResults => "more-results"
  | .notIterator => "not-iterator"
  | .unpicklable => "unpicklable"
  | .corrupted => "corrupted"

def resultOf (j : Json) : Result :=
  let vals := (getArr j "vals").map valOf
  match getStr j "kind" with
  | "value" => .value (vals.headD .none)
  | "gen" => .gen vals
  | "genraise" => .genRaise vals
  | "lst" => .lst (valOf ((j.getObjVal? "self").toOption.getD Json.null)) vals
  | _ => .raises

def memOf (l : List Json) : Ds → Option Val :=
  let tbl : List (Ds × Val) := l.map (fun e =>
    match asArr e with
    | [t, o, v] => (⟨asStr t, asStr o⟩, valOf v)
    | _ => (⟨"", ""⟩, .none))
  fun ds => tbl.lookup ds

def assocOf (l : List Json) : List (Ds × Val) :=
  l.map (fun e =>
    match asArr e with
    | [t, o, v] => (⟨asStr t, asStr o⟩, valOf v)
    | _ => (⟨"", ""⟩, .none))

def dsOf (j : Json) : Ds :=
  match asArr j with
  | [t, o] => ⟨asStr t, asStr o⟩
  | _ => ⟨"", ""⟩

def dsKey (d : Ds) : String := d.task ++ "\u0000" ++ d.output

/-- a dict given as association list with the most recent assignment first: first occurrence per key, sorted by key -/
def canonAssoc (l : List (Ds × Val)) : Json :=
  let dd := l.foldl (fun acc e => if acc.any (fun x => x.1 = e.1) then acc else acc ++ [e]) ([] : List (Ds × Val))
  let srt := dd.toArray.qsort (fun a b => dsKey a.1 < dsKey b.1)
  Json.arr (srt.map (fun e => Json.arr #[Json.str e.1.task, Json.str e.1.output, valJ e.2]))

def canonKeys (l : List Ds) : Json :=
  let dd := l.foldl (fun acc e => if acc.contains e then acc else acc ++ [e]) ([] : List Ds)
  let srt := dd.toArray.qsort (fun a b => dsKey a < dsKey b)
  Json.arr (srt.map (fun e => Json.arr #[Json.str e.task, Json.str e.output]))

def taskOf (j : Json) : Task :=
  { staticPs := (getArr j "ps").map (fun p => match asArr p with | [i, v] => (asNat i, valOf v) | _ => (0, .none)),
    staticKw := kwOf (getArr j "kw"), inputSchema := [], outputSchema := (getArr j "outs").map asStr }

def recvJ : Option (List Val × List (String × Val)) → Json
  | none => Json.null
  | some (a, k) => Json.mkObj [("args", Json.arr (a.map valJ).toArray), ("kwargs", kwJ k)]

def runOutJ (r : RunOut) : Json :=
  Json.mkObj [("received", recvJ r.received),
    ("handled", Json.arr (r.handled.map (fun h => Json.arr #[Json.str h.output, valJ h.value, Json.bool h.publish])).toArray),
    ("error", match r.err with | none => Json.null | some e => Json.str (errJ e)),
    ("published", strs (published (r.handled, r.err)))]

def boolOptJ : Option Bool → Json
  | none => Json.str "error:IndexError"
  | some b => Json.bool b

def c10Step (_ : Unit) (j : Json) : Unit × Json :=
  match getStr j "op" with
  | "fluent_node" =>
    let n := fluentNode ((getArr j "args").map valOf) (getNat j "n_inputs") (getNat j "num_outputs")
    ((), Json.mkObj [("args", Json.arr (n.args.map valJ).toArray), ("outputs", strs n.outputs), ("inputs", strs n.inputNames)])
  | "lower" =>
    match graph2job ((getArr j "nodes").map nodeOf) with
    | .error e => ((), Json.mkObj [("error", Json.str (lowerErrJ e))])
    | .ok job =>
      ((), Json.mkObj [("tasks", Json.arr (job.tasks.map (fun p => taskJ p.1 p.2)).toArray),
                       ("edges", Json.arr (job.edges.map edgeJ).toArray)])
  | "run" =>
    let t : Task := { staticPs := (getArr j "ps").map (fun p => match asArr p with | [i, v] => (asNat i, valOf v) | _ => (0, .none)),
                      staticKw := kwOf (getArr j "kw"), inputSchema := [], outputSchema := (getArr j "outs").map asStr }
    let publish := (getArr j "publish").map asStr
    let pub : String → Bool := fun o => publish.contains o
    let res := resultOf ((j.getObjVal? "result").toOption.getD Json.null)
    let r := run (getStr j "tid") t ((getArr j "edges").map edgeOf) (memOf (getArr j "mem")) pub res
    let recv := match r.received with
      | none => Json.null
      | some (a, k) => Json.mkObj [("args", Json.arr (a.map valJ).toArray), ("kwargs", kwJ k)]
    let handled := Json.arr (r.handled.map (fun h => Json.arr #[Json.str h.output, valJ h.value, Json.bool h.publish])).toArray
    let completion := Json.arr ((published (r.handled, r.err)).map (fun o => boolOptJ (isLastOutputOf t.outputSchema o))).toArray
    ((), Json.mkObj [("received", recv), ("handled", handled),
                     ("error", match r.err with | none => Json.null | some e => Json.str (errJ e)),
                     ("completion", completion)])
  | "seq" =>
    let m : Mem := { loc := assocOf (getArr j "loc"), bufs := (getArr j "bufs").map dsOf, shm := assocOf (getArr j "shm") }
    let publish := (getArr j "publish").map dsOf
    let tasks := (getArr j "tasks").map (fun tj =>
      (getStr tj "tid", taskOf tj, resultOf ((tj.getObjVal? "result").toOption.getD Json.null)))
    let r := execSeq ((getArr j "edges").map edgeOf) (fun ds => publish.contains ds) m tasks
    ((), Json.mkObj [
      ("runs", Json.arr (r.2.runs.map (fun x => Json.mkObj [("tid", Json.str x.1), ("out", runOutJ x.2)])).toArray),
      ("failed", match r.2.failed with | none => Json.null | some (t, e) => Json.arr #[Json.str t, Json.str (errJ e)]),
      ("loc", canonAssoc r.1.loc), ("bufs", canonKeys r.1.bufs), ("shm", canonAssoc r.1.shm)])
  | "memop" =>
    -- one operation of the worker's loop between task sequences: DatasetPublished for an awaited dataset (`provide`),
    -- DatasetPurge (`pop`), or somebody else's publication into the host's shared memory
    let m : Mem := { loc := assocOf (getArr j "loc"), bufs := (getArr j "bufs").map dsOf, shm := assocOf (getArr j "shm") }
    let ds := dsOf ((j.getObjVal? "ds").toOption.getD Json.null)
    let (m', res) : Mem × Json := match getStr j "kind" with
      | "pop" => (m.pop ds, Json.null)
      | "provide" => (match m.provide ds with
        | .ok (m1, v) => (m1, valJ v)
        | .error e => (m, Json.str ("error:" ++ errJ e)))
      | _ => (m, Json.null)
    ((), Json.mkObj [("result", res), ("loc", canonAssoc m'.loc), ("bufs", canonKeys m'.bufs), ("shm", canonAssoc m'.shm)])
  | "ref_of" =>
    -- the dataset by which a consumer refers to the element at position k of a yields dimension with n coordinates
    -- (withYields + refOf, as in c10_yield_coordinate)
    let r := (yieldRef (getStr j "parent") (getNat j "n") (getNat j "k")).source
    ((), Json.mkObj [("task", Json.str r.task), ("output", Json.str r.output)])
  | "all_published" =>
    -- notify.all_outputs_published for the notices of one task, delivered in the given order (repetitions allowed)
    let n := getNat j "n_outputs"
    ((), Json.mkObj [("flags", Json.arr ((completionFlags n [] ((getArr j "notices").map asStr)).map Json.bool).toArray)])
  | "is_last" =>
    let outs := (getArr j "outs").map asStr
    ((), Json.mkObj [("is_last", Json.arr (outs.map (fun o => Json.arr #[Json.str o, boolOptJ (isLastOutputOf outs o)])).toArray)])
  | _ => ((), Json.str "bad-op")

def main : IO Unit := runLoop () c10Step
