import EkwVerif.Drive.Util
import EkwVerif.Model.Lower
import EkwVerif.Model.Runner
open Lean EkwVerif.Drive EkwVerif.Lower EkwVerif.Runner

def valOf (j : Json) : Val :=
  match j with
  | .null => .none
  | _ =>
    match j.getObjVal? "s" with
    | .ok (.str s) => .str s
    | _ =>
      match j.getObjVal? "i" with
      | .ok x => .int (asInt x)
      | _ =>
        match j.getObjVal? "t" with
        | .ok (.str s) => .tok s
        | _ => .obj (getStr j "o")

def valJ : Val → Json
  | .none => Json.null
  | .str s => Json.mkObj [("s", Json.str s)]
  | .int i => Json.mkObj [("i", toJson i)]
  | .tok s => Json.mkObj [("t", Json.str s)]
  | .obj s => Json.mkObj [("o", Json.str s)]

def optNatJ : Option Nat → Json
  | none => Json.null
  | some n => toJson n

def kwOf (l : List Json) : List (String × Val) :=
  l.map (fun p => match asArr p with | [k, v] => (asStr k, valOf v) | _ => ("", .none))

def kwJ (l : List (String × Val)) : Json :=
  Json.arr (l.map (fun p => Json.arr #[Json.str p.1, valJ p.2])).toArray

def nodeOf (j : Json) : String × SNode :=
  let payload : Option (List Val × List (String × Val)) :=
    match j.getObjVal? "payload" with
    | .ok (.obj _) =>
      let p := (j.getObjVal? "payload").toOption.getD Json.null
      some ((getArr p "args").map valOf, kwOf (getArr p "kwargs"))
    | _ => none
  let inputs := (getArr j "inputs").map (fun i =>
    match asArr i with
    | [p, par, .null] => (asStr p, InRef.dflt (asStr par))
    | [p, par, o] => (asStr p, InRef.named (asStr par) (asStr o))
    | _ => ("", InRef.dflt ""))
  (getStr j "name", { payload := payload, inputs := inputs, outputs := (getArr j "outputs").map asStr })

def edgeJ (e : Edge) : Json :=
  Json.arr #[Json.str e.source.task, Json.str e.source.output, Json.str e.sink, optNatJ e.ps, optStr e.kw]

def edgeOf (j : Json) : Edge :=
  match asArr j with
  | [st, so, sink, ps, kw] =>
    { source := ⟨asStr st, asStr so⟩, sink := asStr sink,
      ps := (match ps with | .null => none | x => some (asNat x)),
      kw := (match kw with | .str s => some s | _ => none) }
  | _ => { source := ⟨"", ""⟩, sink := "", ps := none, kw := none }

def taskJ (name : String) (t : Task) : Json :=
  Json.mkObj [("name", Json.str name),
    ("ps", Json.arr (t.staticPs.map (fun p => Json.arr #[toJson p.1, valJ p.2])).toArray),
    ("kw", kwJ t.staticKw),
    ("in_schema", strs t.inputSchema),
    ("out_schema", strs t.outputSchema)]

def lowerErrJ : LowerErr → String
  | .keyError => "keyError"
  | .notImplemented => "notImplemented"

def errJ : Err → String
  | .typeError => "type-error"
  | .missingInput => "missing-input"
  | .noOutputs => "no-outputs"
  | .callableRaised => "callable-raised"
  | .notIterable => "not-iterable"
  | .fewerResults => "fewer-results"
  | .moreResults => "more-results"
  | .notIterator => "not-iterator"
  | .unpicklable => "unpicklable"

def resultOf (j : Json) : Result :=
  let vals := (getArr j "vals").map valOf
  match getStr j "kind" with
  | "value" => .value (vals.headD .none)
  | "gen" => .gen vals
  | "lst" => .lst vals
  | _ => .raises

def memOf (l : List Json) : Ds → Option Val :=
  let tbl : List (Ds × Val) := l.map (fun e =>
    match asArr e with
    | [t, o, v] => (⟨asStr t, asStr o⟩, valOf v)
    | _ => (⟨"", ""⟩, .none))
  fun ds => tbl.lookup ds

def boolOptJ : Option Bool → Json
  | none => Json.str "error:IndexError"
  | some b => Json.bool b

def c10Step (_ : Unit) (j : Json) : Unit × Json :=
  match getStr j "op" with
  | "fluent_node" =>
    let n := fluentNode ((getArr j "args").map valOf) (getNat j "n_inputs") (getNat j "num_outputs")
    ((), Json.mkObj [("args", Json.arr (n.args.map valJ).toArray), ("outputs", strs n.outputs), ("inputs", strs n.inputNames)])
  | "lower" =>
    match graph2job ((getArr j "nodes").map nodeOf) with
    | .error e => ((), Json.mkObj [("error", Json.str (lowerErrJ e))])
    | .ok job =>
      ((), Json.mkObj [("tasks", Json.arr (job.tasks.map (fun p => taskJ p.1 p.2)).toArray),
                       ("edges", Json.arr (job.edges.map edgeJ).toArray)])
  | "run" =>
    let t : Task := { staticPs := (getArr j "ps").map (fun p => match asArr p with | [i, v] => (asNat i, valOf v) | _ => (0, .none)),
                      staticKw := kwOf (getArr j "kw"), inputSchema := [], outputSchema := (getArr j "outs").map asStr }
    let publish := (getArr j "publish").map asStr
    let pub : String → Bool := fun o => publish.contains o
    let res := resultOf ((j.getObjVal? "result").toOption.getD Json.null)
    let r := run (getStr j "tid") t ((getArr j "edges").map edgeOf) (memOf (getArr j "mem")) pub res
    let recv := match r.received with
      | none => Json.null
      | some (a, k) => Json.mkObj [("args", Json.arr (a.map valJ).toArray), ("kwargs", kwJ k)]
    let handled := Json.arr (r.handled.map (fun h => Json.arr #[Json.str h.output, valJ h.value, Json.bool h.publish])).toArray
    let completion := Json.arr ((published (r.handled, r.err)).map (fun o => boolOptJ (isLastOutputOf t.outputSchema o))).toArray
    ((), Json.mkObj [("received", recv), ("handled", handled),
                     ("error", match r.err with | none => Json.null | some e => Json.str (errJ e)),
                     ("completion", completion)])
  | "is_last" =>
    let outs := (getArr j "outs").map asStr
    ((), Json.mkObj [("is_last", Json.arr (outs.map (fun o => Json.arr #[Json.str o, boolOptJ (isLastOutputOf outs o)])).toArray)])
  | _ => ((), Json.str "bad-op")

def main : IO Unit := runLoop () c10Step
