/-
Line-protocol driver for C15.  One JSON object per line:

  {"op": <name>,
   "args": [{"cont": "np"|"da"|"ds"|"pyint"|"pyfloat",
             "dtype": "bool"|"i8"|"i16"|"i32"|"i64"|"u8"|"u16"|"u32"|"u64"|"f16"|"f32"|"f64"|"c64"|"c128",
             "shape": [..], "data": [flat row-major values], "labels": [null | [ints], ...]}, ...],
   "axis": null | int | [ints], "style": null | "axis" | "dim",
   "dimkind": "absent" | "int" | "npint" | "name", "index": int | [ints] | null, "sel": bool,
   "stack_dim_exists": bool, "concat_dim_missing": bool,
   "batches": [sizes] | null, "literal": bool}

Values: integers as integers; float64 / float32 / float16 as the ORDINAL of the double that
equals the value (sign-magnitude reading of its 64 bits, see Model/F64.lean) or the string "nan";
of a complex number only the real part (complex values, float16 reductions and float16 / float32
pow are opaque: the harness compares dtype, shape, labels and error cause of those, not the data).
Answer: {"dtype":…, "shape":[…], "data":[…], "labels": null | [null | [ints], …]} or
{"error": <token>} where the Python code raises (`errorOf` names the cause).  With "batches"
the arguments are cut into consecutive batches of those sizes and `runBatched` is evaluated.
`std` is printed as its radicand.
-/
import EkwVerif.Drive.Util
import EkwVerif.Model.BackendRun
open Lean EkwVerif.Drive EkwVerif.Backend

def opOfString : String → Option Op
  | "mean" => some .mean | "std" => some .std | "max" => some .max | "min" => some .min
  | "sum" => some .sum | "prod" => some .prod | "var" => some .var | "stack" => some .stack
  | "concat" => some .concat | "add" => some .add | "subtract" => some .subtract
  | "multiply" => some .multiply | "divide" => some .divide | "pow" => some .pow
  | "take" => some .take | _ => none

def dtOfString : String → DType
  | "f64" => .f64 | "i32" => .i32 | "u8" => .u8 | "u64" => .u64 | "bool" => .bool
  | "i8" => .i8 | "i16" => .i16 | "u16" => .u16 | "u32" => .u32 | "f32" => .f32 | "f16" => .f16
  | "c64" => .c64 | "c128" => .c128 | _ => .i64

def dtToString : DType → String
  | .f64 => "f64" | .i64 => "i64" | .i32 => "i32" | .u8 => "u8" | .u64 => "u64" | .bool => "bool"
  | .i8 => "i8" | .i16 => "i16" | .u16 => "u16" | .u32 => "u32" | .f32 => "f32" | .f16 => "f16"
  | .c64 => "c64" | .c128 => "c128"

def contOfString : String → Cont
  | "da" => .da | "ds" => .ds | "pyint" => .pyInt | "pyfloat" => .pyFloat | _ => .np

def fOfJson : Json → F64
  | .str _ => .nan
  | j => .fin (asInt j)

def fToJson : F64 → Json
  | .nan => Json.str "nan"
  | .fin k => toJson k

/-- row-major array over flat data -/
def arrOfFlat {α : Type} [Inhabited α] (shape : List Nat) (data : Array α) : Arr α :=
  let sh := shape.toArray
  { rank := shape.length
    ext := fun k => sh.getD k 0
    get := fun i => Id.run do
      let mut pos := 0
      for k in [0:sh.size] do
        pos := pos * sh[k]! + i k
      return data.getD pos default }

def labelsOfJson (j : Json) : Labels :=
  (asArr j).map fun l => match l with
    | .arr a => some (a.toList.map asInt)
    | _ => none

def labelsToJson (l : Labels) : Json :=
  Json.arr (l.map fun o => match o with
    | none => Json.null
    | some ls => Json.arr (ls.map (fun (v : Int) => toJson v)).toArray).toArray

def targOfJson (j : Json) : TArr :=
  let cont := contOfString (getStr j "cont")
  let dt := dtOfString (getStr j "dtype")
  let shape := (getArr j "shape").map asNat
  let data := (getArr j "data").toArray
  let labels := match j.getObjVal? "labels" with
    | .ok (.arr a) => labelsOfJson (.arr a)
    | _ => []
  if dt.isFl then { cont := cont, dt := dt, flts := arrOfFlat shape (data.map fOfJson), labels := labels }
  else { cont := cont, dt := dt, ints := arrOfFlat shape (data.map asInt), labels := labels }

def callOfJson (j : Json) (op : Op) : Call :=
  let axis : AxisArg := match j.getObjVal? "axis" with
    | .ok (.arr a) => .many (a.toList.map asInt)
    | .ok (.num n) => if n.exponent = 0 then .one n.mantissa else .none
    | _ => .none
  let index : IndexArg := match j.getObjVal? "index" with
    | .ok (.arr a) => .seq (a.toList.map asInt)
    | .ok v => .int (asInt v)
    | _ => .int 0
  let style : Style := match getStr j "style" with | "axis" => .axis | "dim" => .dim | _ => .none
  let dimKind : DimKind := match getStr j "dimkind" with
    | "absent" => .absent | "npint" => .npInt | "name" => .name | _ => .pyInt
  { op := op, kw := { axis := axis, index := index }, style := style, dimKind := dimKind, sel := getBool j "sel",
    stackDimExists := getBool j "stack_dim_exists", concatDimMissing := getBool j "concat_dim_missing" }

def resultToJson (r : Result) : Json :=
  let (shape, data) :=
    if r.dt.isFl then (r.flts.shape, (r.flts.elems.map fToJson).toArray)
    else (r.ints.shape, (r.ints.elems.map (fun (v : Int) => toJson v)).toArray)
  Json.mkObj [("dtype", Json.str (dtToString r.dt)), ("shape", nats shape), ("data", Json.arr data),
              ("labels", match r.labels with | none => Json.null | some l => labelsToJson l)]

def runCase (j : Json) : Json :=
  match opOfString (getStr j "op") with
  | none => Json.str "bad-op"
  | some op =>
    let c := callOfJson j op
    let args := (getArr j "args").map targOfJson
    let res := match j.getObjVal? "batches" with
      | .ok (.arr sizes) => runBatched c (getBool j "literal") (sizes.toList.map asNat) args
      | _ => run c args
    match res with
    | .ok r => resultToJson r
    | .error e => Json.mkObj [("error", Json.str e)]

def c15Step (s : Unit) (j : Json) : Unit × Json := (s, runCase j)

def main : IO Unit := runLoop () c15Step
