/-
Line-protocol driver for C15.  One JSON object per line:

  {"op": <name>, "args": [<nested integer lists | integer>...], "axis": <int|null>,
   "index": <int | [int...] | null>, "batches": <[sizes] | null>}

Answer: {"shape":[...], "data":[[num,den],...]} (row-major, exact rationals in lowest terms)
or {"error":true} where the Python code raises (`valid` is false).  With "batches" the
arguments are cut into consecutive batches of those sizes and `batched` is evaluated (every
inner application has to be valid as well).  `std` is printed as its radicand (`sq := id`).
-/
import EkwVerif.Drive.Util
import EkwVerif.Model.Backend
open Lean EkwVerif.Drive EkwVerif.Backend

partial def jDepth : Json → Nat
  | .arr a => if a.size = 0 then 1 else 1 + jDepth a[0]!
  | _ => 0

partial def jExt (j : Json) (k : Nat) : Nat :=
  match j with
  | .arr a => if k = 0 then a.size else if a.size = 0 then 0 else jExt a[0]! (k - 1)
  | _ => 0

partial def jGet (j : Json) (i : Idx) (k : Nat) : Val :=
  match j with
  | .arr a => jGet (a.getD (i k) Json.null) i (k + 1)
  | other => ((other.getInt?).toOption.getD 0 : Int)

def arrOfJson (j : Json) : Arr := { rank := jDepth j, ext := jExt j, get := fun i => jGet j i 0 }

def opOfString : String → Option Op
  | "mean" => some .mean | "std" => some .std | "max" => some .max | "min" => some .min
  | "sum" => some .sum | "prod" => some .prod | "var" => some .var | "stack" => some .stack
  | "concat" => some .concat | "add" => some .add | "subtract" => some .subtract
  | "multiply" => some .multiply | "divide" => some .divide | "pow" => some .pow
  | "take" => some .take | _ => none

def kwOfJson (j : Json) : Kw :=
  let axis : Option Int := match j.getObjVal? "axis" with
    | .ok (.num n) => if n.exponent = 0 then some n.mantissa else none
    | _ => none
  let index : IndexArg := match j.getObjVal? "index" with
    | .ok (.arr a) => .seq (a.toList.map asInt)
    | .ok v => .int (asInt v)
    | _ => .int 0
  { axis := axis, index := index }

def arrToJson (x : Arr) : Json :=
  Json.mkObj [("shape", nats x.shape),
              ("data", Json.arr (x.elems.map (fun v => Json.arr #[toJson v.num, toJson v.den])).toArray)]

def errJson : Json := Json.mkObj [("error", Json.bool true)]

def runCase (j : Json) : Json :=
  match opOfString (getStr j "op") with
  | none => Json.str "bad-op"
  | some op =>
    let kw := kwOfJson j
    let args := (getArr j "args").map arrOfJson
    let f := sem id kw op
    match j.getObjVal? "batches" with
    | .ok (.arr sizes) =>
      let bs := cut (sizes.toList.map asNat) args
      let innerOk := bs.all fun b => match b with | [_] => true | b => valid kw op b
      if !innerOk then errJson else
      let mids := bs.map (applyBatch f)
      if valid kw op mids then arrToJson (f mids) else errJson
    | _ => if valid kw op args then arrToJson (f args) else errJson

def c15Step (s : Unit) (j : Json) : Unit × Json := (s, runCase j)

def main : IO Unit := runLoop () c15Step
