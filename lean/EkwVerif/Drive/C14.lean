/-
Line-protocol driver for C14: per line
  {"nodes":[{"fname":s,"args":[pyval…],"kwargs":[[k,pyval]…],"inputs":[[parent,output|null]…],"outputs":n}…],
   "sources":[[[fname,[i,j…]]…]…]}
answer {"renders":[the string that is hashed, per node],"inputs":[[input names] per node],
        "labels":[[label per source node] per from_source call]}
pyval: number (int) | string | {"f":repr} (float) | true/false | null | [ … ] (list) | {"t":[ … ]} (tuple) | {"d":[[key,pyval]…]} (dict)
       | {"s":[ … ]} (set, elements as iterated) | {"fs":[ … ]} (frozenset)

optional "heapops": one entry per `transform` whose func hands back an existing action (or the receiver):
  {"heap":[cell…],"a":i,"kind":"lookup"|"self","targets":[cell index per parameter],"dim":name|[name,[labels]],"axis":n}
  cell = {"dims":[[name,[labels],indexed]…],"scalars":[[name,label]…],"nodes":[node-object id per position, row-major]}
  | {"heap":[cell…],"a":i,"kind":"combine","method":"stack"|"concat","d":dim,"keep":bool}   (dimension of size 1)
  | {"heap":[cell…],"a":i,"kind":"alias"}                                                  (select / iselect without criteria)
  | {"heap":[cell…],"a":i,"kind":"alias","crit":[name,value],"drop":bool}                  (ONE criterion naming a scalar coordinate)
  | {"heap":[cell…],"a":i,"b":j,"kind":"join","dim":name|[name,[labels]],"match":bool}     (Action.join between two objects)
  | {"heap":[cell…],"a":i,"b":j,"kind":"arith","fn":name}                                 (a.add(b) …; the nodes of the result are new: reported as 0)
answer "heapops": [{"heap":[the cells that existed before, after the call],"result":cell,"cell":index,
                    "alias_of":index of the existing cell that IS the result | null} | {"err":class}]
(`Names.transformH .always`, `Names.combineH`, `Names.selectH`, `Names.joinH .localVar`, `Names.arithH .localVar` — the heap model).
-/
import EkwVerif.Drive.Util
import EkwVerif.Model.Names
open Lean EkwVerif.Drive EkwVerif.Names EkwVerif.Fluent

namespace C14Drive

partial def pyOfJson (j : Json) : PyVal :=
  match j with
  | .str s => .str s.toList
  | .bool b => .bool b
  | .null => .none
  | .arr a => .list (a.toList.map pyOfJson)
  | .num _ => .int (asInt j)
  | .obj _ =>
    match j.getObjVal? "f" with
    | .ok (.str r) => .flt r.toList
    | _ => match j.getObjVal? "t" with
      | .ok (.arr a) => .tuple (a.toList.map pyOfJson)
      | _ => match j.getObjVal? "d" with
        | .ok (.arr a) => .dict (a.toList.map (fun p => match p with
            | .arr #[k, v] => ((match k with | .str s => s.toList | _ => []), pyOfJson v)
            | _ => ([], .none)))
        | _ => match j.getObjVal? "s" with
          | .ok (.arr a) => .set false (a.toList.map pyOfJson)
          | _ => match j.getObjVal? "fs" with
            | .ok (.arr a) => .set true (a.toList.map pyOfJson)
            | _ => .none

def strOf (s : Str) : String := String.ofList s

def nodeOut (j : Json) : Json × Json :=
  let fname := (getStr j "fname").toList
  let args := (getArr j "args").map pyOfJson
  let kwargs := (getArr j "kwargs").map (fun p => match asArr p with | [k, v] => ((asStr k).toList, pyOfJson v) | _ => ([], .none))
  let inputs := (getArr j "inputs").map (fun p => match asArr p with
    | [par, .str o] => inputName (asStr par).toList (some o.toList)
    | [par, _] => inputName (asStr par).toList none
    | _ => [])
  let outputs := match j.getObjVal? "outputs" with | .ok (.num _) => getNat j "outputs" | _ => 1
  let c : Comp Statics := { func := { name := fname, ident := 0 }, statics := (args, kwargs), inputs := inputs, outputs := outputs }
  (Json.str (strOf (render renderStatics c)), strs (inputs.map strOf))

def sourceOut (j : Json) : Json :=
  let items := (asArr j).map (fun p => match asArr p with
    | [n, idx] => ((asStr n).toList, (asArr idx).map asNat)
    | _ => ([], []))
  strs ((sourceLabels items []).map strOf)

/-! ### heap operations -/

def coordOfJson (j : Json) : Coord :=
  match j with
  | .str s => .str s
  | _ => .int (asInt j)

def coordToJson : Coord → Json
  | .int i => toJson i
  | .str s => Json.str s

/-- all positions of `dims`, row-major -/
def positions : List Dim → List (List (String × Nat))
  | [] => [[]]
  | x :: rest =>
    let tails := positions rest
    (List.range x.labels.length).flatMap (fun i => tails.map (fun t => (x.name, i) :: t))

def ixOf (p : List (String × Nat)) : Ix := fun n =>
  match p.find? (·.1 = n) with
  | some (_, i) => i
  | none => 0

def sortScalars (l : List (String × Coord)) : List (String × Coord) :=
  (l.toArray.qsort (fun a b => a.1 < b.1)).toList

def cellOfJson (j : Json) : NodeArray :=
  let dims : List Dim := (getArr j "dims").map (fun d => match asArr d with
    | [n, ls, ix] => { name := asStr n, labels := (asArr ls).map coordOfJson, indexed := (ix.getBool?).toOption.getD true }
    | _ => { name := "", labels := [] })
  let scalars := (getArr j "scalars").map (fun p => match asArr p with | [n, v] => (asStr n, coordOfJson v) | _ => ("", .int 0))
  let ids := ((getArr j "nodes").map asNat).toArray
  { dims := dims, scalars := scalars, node := fun ix => .src (ids.getD (flatIndex dims ix) 0) }

def srcId : Expr → Nat
  | .src i => i
  | _ => 0

def cellToJson (a : NodeArray) : Json :=
  Json.mkObj [
    ("dims", Json.arr (a.dims.map (fun d => Json.arr #[Json.str d.name, Json.arr (d.labels.map coordToJson).toArray, Json.bool d.indexed])).toArray),
    ("scalars", Json.arr ((sortScalars a.scalars).map (fun (n, v) => Json.arr #[Json.str n, coordToJson v])).toArray),
    ("nodes", nats ((positions a.dims).map (fun p => srcId (a.node (ixOf p)))))]

def errStr : Err → String
  | .key => "key" | .index => "index" | .assert => "assert" | .type => "type"
  | .notimpl => "notimpl" | .value => "value" | .other => "other" | .outOfScope => "outOfScope"

def dimArgOf (j : Json) : DimArg :=
  match j with
  | .str s => .name s
  | _ => match asArr j with
    | [n, ls] => .coord (asStr n) ((asArr ls).map coordOfJson)
    | _ => .name ""

def heapOp (j : Json) : Json :=
  let h : Heap := (getArr j "heap").map cellOfJson
  let targets := (getArr j "targets").map asNat
  let a := getNat j "a"
  let res : Except Err (Heap × Nat) :=
    match getStr j "kind" with
    | "combine" => combineH h (getStr j "method") [] a (getStr j "d") 0 (getBool j "keep")
    | "join" => joinH .localVar h a (getNat j "b") (dimArgOf ((j.getObjVal? "dim").toOption.getD Json.null)) (getBool j "match")
    | "arith" => arithH .localVar h (getStr j "fn") a (getNat j "b")
    | "alias" =>
      -- `select({})`, or ONE criterion that names a scalar coordinate (`"crit":[name,value]`)
      match (j.getObjVal? "crit").toOption with
      | some (.arr #[d, v]) => selectH h a (some (asStr d, Sel.one (coordOfJson v))) (getBool j "drop")
      | _ => selectH h a none false
    | kind =>
      let f : TFunc Nat := if kind == "self" then .self else .lookup (fun p => targets.getD p h.length)
      transformH .always h a f (List.range targets.length) (dimArgOf ((j.getObjVal? "dim").toOption.getD Json.null)) (getNat j "axis")
  match res with
  | .error e => Json.mkObj [("err", Json.str (errStr e))]
  | .ok (h', r) =>
    Json.mkObj [("heap", Json.arr ((h'.take h.length).map cellToJson).toArray),
                ("result", cellToJson (h'.cell r)), ("cell", toJson r),
                ("alias_of", if r < h.length then toJson r else Json.null)]

def run (j : Json) : Json :=
  let outs := (getArr j "nodes").map nodeOut
  Json.mkObj [("renders", Json.arr (outs.map (·.1)).toArray),
              ("inputs", Json.arr (outs.map (·.2)).toArray),
              ("labels", Json.arr ((getArr j "sources").map sourceOut).toArray),
              ("heapops", Json.arr ((getArr j "heapops").map heapOp).toArray)]

end C14Drive

def main : IO Unit := runLoop () (fun _ j => ((), C14Drive.run j))
