/-
Line-protocol driver for C14: per line
  {"nodes":[{"fname":s,"args":[pyval…],"kwargs":[[k,pyval]…],"inputs":[[parent,output|null]…]}…],
   "sources":[[[fname,[i,j…]]…]…]}
answer {"renders":[the string that is hashed, per node],"inputs":[[input names] per node],
        "labels":[[label per source node] per from_source call]}
pyval: number (int) | string | {"f":repr} (float) | true/false | null | [ … ] (list) | {"t":[ … ]} (tuple)
-/
import EkwVerif.Drive.Util
import EkwVerif.Model.Names
open Lean EkwVerif.Drive EkwVerif.Names

namespace C14Drive

partial def pyOfJson (j : Json) : PyVal :=
  match j with
  | .str s => .str s.toList
  | .bool b => .bool b
  | .null => .none
  | .arr a => .list (a.toList.map pyOfJson)
  | .num _ => .int (asInt j)
  | .obj _ =>
    match j.getObjVal? "f" with
    | .ok (.str r) => .flt r.toList
    | _ => match j.getObjVal? "t" with
      | .ok (.arr a) => .tuple (a.toList.map pyOfJson)
      | _ => .none

def strOf (s : Str) : String := String.ofList s

def nodeOut (j : Json) : Json × Json :=
  let fname := (getStr j "fname").toList
  let args := (getArr j "args").map pyOfJson
  let kwargs := (getArr j "kwargs").map (fun p => match asArr p with | [k, v] => ((asStr k).toList, pyOfJson v) | _ => ([], .none))
  let inputs := (getArr j "inputs").map (fun p => match asArr p with
    | [par, .str o] => inputName (asStr par).toList (some o.toList)
    | [par, _] => inputName (asStr par).toList none
    | _ => [])
  let c : Comp Statics := { func := { name := fname, ident := 0 }, statics := (args, kwargs), inputs := inputs }
  (Json.str (strOf (render renderStatics c)), strs (inputs.map strOf))

def sourceOut (j : Json) : Json :=
  let items := (asArr j).map (fun p => match asArr p with
    | [n, idx] => ((asStr n).toList, (asArr idx).map asNat)
    | _ => ([], []))
  strs ((sourceLabels items []).map strOf)

def run (j : Json) : Json :=
  let outs := (getArr j "nodes").map nodeOut
  Json.mkObj [("renders", Json.arr (outs.map (·.1)).toArray),
              ("inputs", Json.arr (outs.map (·.2)).toArray),
              ("labels", Json.arr ((getArr j "sources").map sourceOut).toArray)]

end C14Drive

def main : IO Unit := runLoop () (fun _ j => ((), C14Drive.run j))
