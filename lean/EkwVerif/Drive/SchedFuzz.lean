/-
Random walk over the extended system (Model/Sched.lean) with an executable mirror of InvS (the base tiers incl.
Tier P and Tier L are mirrored in Drive/CtrlInvCheck.lean); `fifo` only selects how batches are drawn (prefixes of the
pending events, or any sub-multiset in any order) — every check, incl. progress, is evaluated for both.
Scaffolding for validating candidate invariants; not part of the trusted base.
-/
import EkwVerif.Drive.Util
import EkwVerif.Drive.CtrlInvCheck
import EkwVerif.Lemmas.SchedInvDefs
open Lean EkwVerif.Drive EkwVerif.Ctrl EkwVerif.Ctrl.Check

def checksX (j : Job) (cl : Cluster) (cm : Comps) (x : SysX) (_fifo : Bool) : List (String × Bool) :=
  let s := x.sys
  let c := s.ctl
  let sc := x.sch
  let d := dom j cl
  let comps := List.range (cm.n + 1)
  let wt : List (Worker × Task) := d.workers.flatMap (fun w => d.tasks.map (fun t => (w, t)))
  let stageOk : Bool := match sc.stage with
    | .ready cc ws _ => ws.all (fun w => c.idle.contains w && sc.host2comp w.host == some cc)
    | .inH cc cls tasks workers _ cpuT cpuW _ =>
      (workers ++ cpuW).all (fun w => c.idle.contains w && sc.host2comp w.host == some cc) &&
      (tasks ++ cpuT).all (fun t => c.computable.contains t && cm.compOf t == cc) &&
      (cls != .gpu || workers.all (fun w => cl.hasGpu w))
    | .stepI pend => pend.all (fun cc => cc < cm.n)
    | .stepII cs _ _ => cs.all (fun cc => cc < cm.n)
    | _ => true
  let base : List (String × Bool) := [
    ("S.values_comp", c.computable.all (fun t => (sc.values (cm.compOf t)).contains t)),
    ("S.host_dist", d.hosts.all (fun h => match sc.host2comp h with
        | none => true | some cc => (cl.workersOf h).all (fun w => (sc.distDom cc).contains w))),
    ("S.host_comp_lt", d.hosts.all (fun h => match sc.host2comp h with | none => true | some cc => cc < cm.n)),
    ("S.ov_comp", d.workers.all (fun w => c.computable.all (fun t => imp ((sc.distDom (cm.compOf t)).contains w) ((sc.ovDom w).contains t)))),
    ("S.flight_dist", wt.all (fun p => imp (inFlightB s p.1 p.2) ((sc.distDom (cm.compOf p.2)).contains p.1))),
    ("S.weight_eq", comps.all (fun cc => sc.weight cc == undispatched j cm c cc)),
    ("S.stage_ok", stageOk),
    ("S.stage_phase", imp (s.phase != .assigning) (match sc.stage with | .off => true | .done => true | _ => false)),
    ("S.no_schErr", sc.schErr.isNone)]
  base

def failingX (j : Job) (cl : Cluster) (cm : Comps) (x : SysX) (fifo : Bool) : List String :=
  ((checks j cl x.sys).filter (fun p => !p.2) |>.map (·.1)) ++ ((checksX j cl cm x fifo).filterMap (fun p => if p.2 then none else some p.1))

/-- candidate extended steps -/
def candidatesX (j : Job) (cl : Cluster) (cm : Comps) (x : SysX) (r : Nat) (fifo : Bool) : List StepX :=
  let baseC := (candidates j cl x.sys r).filterMap (fun st => match st with
    | .assign _ => none          -- assignments are generated below, from the heuristic's current lists
    | .recv evs => if fifo then some (StepX.base (.recv (x.sys.env.pending.take (max 1 evs.length)))) else some (StepX.base st)
    | st => some (StepX.base st))
  let asgs : List StepX := match x.sch.stage with
    | .inH _ _ tasks workers _ _ _ _ =>
      workers.flatMap (fun w => tasks.map (fun t =>
        let cands := (j.inputs t).filterMap (fun ds =>
          let av := cl.hosts.filter (fun h => x.sys.ctl.dsHost ds h == .available)
          (pick av (lcg (r + ds.task * 7 + ds.out))).map (fun h => (ds, h)))
        StepX.base (.assign ⟨w, t, cands⟩)))
    | _ => []
  let ctl : List StepX := [.beginStepII, .awcEnter, .hPhase2, .hEnd] ++
    (List.range cm.n).map (fun c => StepX.awcBegin c) ++ cl.hosts.map (fun h => StepX.migrate h)
  baseC ++ asgs ++ asgs ++ ctl ++ ctl

def walkX (j : Job) (cl : Cluster) (cm : Comps) (seed : Nat) (n : Nat) (fifo : Bool) : Nat × List String × SysX := Id.run do
  let mut x := SysX.init j cl cm
  let mut r := lcg (seed + 17)
  let mut steps := 0
  let mut armed := false     -- the current iteration was entered with something computable and nothing ongoing
  for _ in [0:n] do
    let cands := candidatesX j cl cm x r fifo
    let en := cands.filterMap (fun st => (stepX semStr j cl cm x st).map (fun x' => (st, x')))
    r := lcg r
    match pick en r with
    | none => break
    | some (st, x') =>
      match st with
      | .base .enter => armed := x.sys.ctl.hasComputable && x.sys.ctl.ongoing.isEmpty
      | .base .endAssign =>
        if armed && x'.sys.todo.isEmpty then return (steps, ["P.progress: assign() returned without any assignment"], x')
      | _ => pure ()
      x := x'
      steps := steps + 1
      let f := failingX j cl cm x fifo
      if !f.isEmpty then return (steps, f, x)
    r := lcg r
  return (steps, [], x)

def parseDs (j : Json) : Ds := match asArr j with | [a, b] => ⟨asNat a, asNat b⟩ | _ => ⟨0, 0⟩
def parseTask (t : Json) : TaskDef :=
  { nOut := getNat t "nOut", gpu := getBool t "gpu", inputs := (getArr t "inputs").map parseDs }
def parseWorker (w : Json) : Worker × Bool :=
  match asArr w with
  | [h, i, g] => (⟨asNat h, asNat i⟩, (g.getBool?).toOption.getD false)
  | _ => (⟨0, 0⟩, false)

def fuzzStepX (_ : Unit) (j : Json) : Unit × Json :=
  let job : Job := { tasks := (getArr j "tasks").map parseTask, ext := (getArr j "ext").map parseDs }
  let cl : Cluster := { workers := (getArr j "workers").map parseWorker }
  let comp := (getArr j "comp").map asNat
  let cm : Comps := { compOf := fun t => comp.getD t 0, n := getNat j "ncomp" }
  let fifo := getBool j "fifo"
  let (steps, failing, x) := walkX job cl cm (getNat j "seed") (getNat j "steps") fifo
  let phase := match x.sys.phase with | .finished => "finished" | .crashed => "crashed" | .waiting => "waiting" | .assigning => "assigning" | _ => "other"
  ((), Json.mkObj [("steps", toJson steps), ("failing", strs failing), ("phase", Json.str phase),
    ("alldone", toJson (job.taskIds.all (fun t => x.sys.ctl.doneC t))), ("schErr", optStr x.sch.schErr), ("err", optStr x.sys.err)])

def main : IO Unit := runLoop () fuzzStepX
