import EkwVerif.Drive.Util
import EkwVerif.Model.Transfer
open Lean EkwVerif.Drive EkwVerif.Transfer

def jn (n : Nat) : Json := toJson n

def cmdJ (c : Cmd) : Json :=
  Json.mkObj [("source", jn c.source), ("target", jn c.target), ("daddr", jn c.daddr), ("ds", jn c.ds), ("idx", jn c.idx)]

def payJ (p : Payload) : Json :=
  Json.mkObj [("ca", jn p.confirmAddr), ("ci", jn p.confirmIdx), ("ds", jn p.ds), ("deser", Json.str p.deser), ("value", Json.str p.value)]

def msgJ : Msg → Json
  | .cmd c => Json.mkObj [("k", "cmd"), ("c", cmdJ c)]
  | .pay p => Json.mkObj [("k", "pay"), ("p", payJ p)]
  | .ack i => Json.mkObj [("k", "ack"), ("idx", jn i)]
  | .purge d => Json.mkObj [("k", "purge"), ("ds", jn d)]

def frameJ : Frame → Json
  | .data d si sa p => Json.mkObj [("t", "data"), ("dst", jn d), ("si", jn si), ("sa", jn sa), ("p", payJ p)]
  | .plain d m => Json.mkObj [("t", "plain"), ("dst", jn d), ("m", msgJ m)]

def optNatJ : Option Nat → Json
  | none => Json.null
  | some n => jn n

def resJ : Option Res → Json
  | none => Json.null
  | some (.ok t) => jn t
  | some .exc => Json.str "exc"

def futJ (f : Fut) : Json :=
  let k := match f.key with
    | .cmd c => Json.mkObj [("k", "cmd"), ("c", cmdJ c)]
    | .pay p => Json.mkObj [("k", "pay"), ("p", payJ p)]
  -- the stage of a finished job is not observable
  Json.mkObj [("key", k), ("res", resJ f.result), ("stage", if f.result.isNone then jn f.stage else Json.null)]

def keyJ : Key → Json
  | .cmd c => Json.mkObj [("k", "cmd"), ("c", cmdJ c)]
  | .pay p => Json.mkObj [("k", "pay"), ("p", payJ p)]

def emsgJ : EMsg → Json
  | .pub d i => Json.mkObj [("k", "pub"), ("ds", jn d), ("idx", jn i)]
  | .fail => Json.mkObj [("k", "fail")]
  | .purge d => Json.mkObj [("k", "purge"), ("ds", jn d)]

def eventJ : Event → Json
  | .submitted h i d => Json.mkObj [("e", "submit"), ("h", jn h), ("idx", jn i), ("ds", jn d), ("retry", false)]
  | .resubmit h i d => Json.mkObj [("e", "submit"), ("h", jn h), ("idx", jn i), ("ds", jn d), ("retry", true)]
  | .sent h c v f => Json.mkObj [("e", "sent"), ("h", jn h), ("idx", jn c.idx), ("ds", jn c.ds), ("value", Json.str v), ("deser", Json.str f)]
  | .sendFail h c => Json.mkObj [("e", "sendFail"), ("h", jn h), ("idx", jn c.idx)]
  | .stored h d i v f => Json.mkObj [("e", "stored"), ("h", jn h), ("ds", jn d), ("idx", jn i), ("value", Json.str v), ("deser", Json.str f)]
  | .announced h d i => Json.mkObj [("e", "announced"), ("h", jn h), ("ds", jn d), ("idx", jn i)]
  | .redundant h d i => Json.mkObj [("e", "redundant"), ("h", jn h), ("ds", jn d), ("idx", jn i)]
  | .storeFail h d i st => Json.mkObj [("e", "storeFail"), ("h", jn h), ("ds", jn d), ("idx", jn i), ("stage", jn st)]
  | .futFail h k => Json.mkObj [("e", "futFail"), ("h", jn h), ("key", keyJ k)]
  | .ctrlPub h d i => Json.mkObj [("e", "ctrlPub"), ("h", jn h), ("ds", jn d), ("idx", jn i)]
  | .ctrlFail h => Json.mkObj [("e", "ctrlFail"), ("h", jn h)]
  | .purgeFwd h d => Json.mkObj [("e", "purgeFwd"), ("h", jn h), ("ds", jn d)]
  | .purgeDropped h d => Json.mkObj [("e", "purgeDropped"), ("h", jn h), ("ds", jn d)]
  | .ignored h d i => Json.mkObj [("e", "ignored"), ("h", jn h), ("ds", jn d), ("idx", jn i)]
  | .ackRecv h i => Json.mkObj [("e", "ackRecv"), ("h", jn h), ("idx", jn i)]
  | .purged h d k => Json.mkObj [("e", "purged"), ("h", jn h), ("ds", jn d), ("inprog", jn k)]
  | .ctrlGot p => Json.mkObj [("e", "ctrlGot"), ("p", payJ p)]
  | .crashed h why => Json.mkObj [("e", "crashed"), ("h", jn h), ("why", jn why)]

def arrJ {α : Type} (f : α → Json) (l : List α) : Json := Json.arr (l.map f).toArray

def hostJ (hs : Host) : Json :=
  Json.mkObj [
    ("store", arrJ (fun (e : Nat × String × String) => Json.arr #[jn e.1, Json.str e.2.1, Json.str e.2.2]) hs.store),
    ("awaiting", arrJ (fun (e : Nat × Cmd × Option Nat) => Json.arr #[jn e.1, cmdJ e.2.1, optNatJ e.2.2]) hs.awaiting),
    ("acks", nats hs.acks), ("invalid", nats hs.invalid),
    ("futs", arrJ futJ hs.futs),
    ("acked", arrJ (fun (e : Nat × Nat) => Json.arr #[jn e.1, jn e.2]) hs.acked),
    ("sock", arrJ frameJ hs.sock),
    ("crashed", Json.bool hs.crashed),
    ("allocd", nats hs.allocd), ("published", nats hs.published), ("mbox", arrJ emsgJ hs.mbox)]

structure DSt where
  w : World
  n : Nat

def readCmd (j : Json) : Cmd :=
  { source := getNat j "source", target := getNat j "target", daddr := getNat j "daddr", ds := getNat j "ds", idx := getNat j "idx" }

def readInput (j : Json) : Input :=
  match getStr j "k" with
  | "frame" => .frame (getNat j "i") (getBool j "dup")
  | "cmd" => .msg (.cmd (readCmd j))
  | _ => .msg (.purge (getNat j "ds"))

def outJ (s : DSt) (oldLog : Nat) : Json :=
  let newEv := (s.w.log.take (s.w.log.length - oldLog)).reverse
  Json.mkObj [
    ("hosts", arrJ (fun h => hostJ (s.w.hosts h)) ((List.range s.n).map (· + 1))),
    ("net", arrJ frameJ s.w.net),
    ("now", jn s.w.now),
    ("ctrlAcked", arrJ (fun (e : Nat × Nat) => Json.arr #[jn e.1, jn e.2]) s.w.ctrlAcked),
    ("events", arrJ eventJ newEv)]

def initWorld (stores : List Json) (published : List Json) : World :=
  let ents : List (Nat × Nat × String × String) := stores.map (fun e =>
    match asArr e with
    | [h, d, v, f] => (asNat h, asNat d, asStr v, asStr f)
    | _ => (0, 0, "", ""))
  let pubs : List (Nat × Nat) := published.map (fun e =>
    match asArr e with
    | [h, d] => (asNat h, asNat d)
    | _ => (0, 0))
  { hosts := fun h => { store := (ents.filter (fun e => e.1 = h)).map (fun e => e.2),
                        published := (pubs.filter (fun e => e.1 = h)).map (fun e => e.2) } }

def readFault (j : Json) : Fault :=
  match getStr j "fault" with
  | "fail" => .fail
  | "closeExc" => .closeExc
  | _ => .none

/-- rebuild `hosts` as a flat table (the model's `setHost` nests one closure per update) -/
def flatten (n : Nat) (w : World) : World :=
  let tbl : Array Host := ((List.range (n + 2)).map (fun h => w.hosts h)).toArray
  { w with hosts := fun k => tbl.getD k {} }

def c07Step (s0 : DSt) (j : Json) : DSt × Json :=
  let s : DSt := { s0 with w := flatten s0.n s0.w }
  let old := s.w.log.length
  match getStr j "op" with
  | "init" =>
    let s' : DSt := { w := initWorld (getArr j "stores") (getArr j "published"), n := getNat j "n" }
    (s', outJ s' 0)
  | "tick" =>
    let s' := { s with w := step s.w (.tick (getNat j "h") ((getArr j "inputs").map readInput) ((getArr j "sched").map asNat)) }
    (s', outJ s' old)
  | "job" => let s' := { s with w := step s.w (.job (getNat j "h") (getNat j "c")) }; (s', outJ s' old)
  | "jobstep" => let s' := { s with w := step s.w (.jobstep (getNat j "h") (getNat j "c") (readFault j)) }; (s', outJ s' old)
  | "etick" => let s' := { s with w := step s.w (.etick (getNat j "h") ((getArr j "purges").map asNat)) }; (s', outJ s' old)
  | "adv" => let s' := { s with w := step s.w (.adv (getNat j "d")) }; (s', outJ s' old)
  | "drop" => let s' := { s with w := step s.w (.drop (getNat j "i")) }; (s', outJ s' old)
  | "ctrl" => let s' := { s with w := step s.w (.ctrl (getNat j "i") (getBool j "dup")) }; (s', outJ s' old)
  | _ => (s, Json.str "bad-op")

def main : IO Unit := runLoop ({ w := { hosts := fun _ => {} }, n := 0 } : DSt) c07Step
