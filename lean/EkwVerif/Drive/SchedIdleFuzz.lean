/-
Random-walk validation of the "no idle wait" tier (Lemmas/SchedIdle*.lean): Bool mirrors of `sI_W1`, `sI_W2`, `sI_W3a`,
`sI_W3b`, `sI_P`, of the iteration invariant `sI_Iter` (weakened: `sP_Good` is replaced by "phase = assigning") and of
the target `sI_no_idle_wait`, evaluated on every state of random walks of the extended system over random jobs and
clusters, under FIFO and under any-order delivery. Scaffolding only; not used by any theorem.

    lake env lean --run EkwVerif/Drive/SchedIdleFuzz.lean <jobs> <seeds per job> <steps per walk>

(300 8 700: 267 909 FIFO states + 269 112 any-order states, 28 067 of them in phase `waiting`, no failure; after the
repair of notify.py and with the any-order forms of W1 and K: 120 6 600: 79 503 + 81 093 states, no failure. The target
is now a theorem for any order, `c03_no_idle_wait`.)
-/
import EkwVerif.Drive.Util
import EkwVerif.Drive.CtrlInvCheck
import EkwVerif.Lemmas.SchedInvDefs
open Lean EkwVerif.Drive EkwVerif.Ctrl EkwVerif.Ctrl.Check

namespace SchedIdleFuzz

/-- candidate extended steps -/
def candidatesX (j : Job) (cl : Cluster) (cm : Comps) (x : SysX) (r : Nat) (fifo : Bool) : List StepX :=
  let baseC := (candidates j cl x.sys r).filterMap (fun st => match st with
    | .assign _ => none          -- assignments are generated below, from the heuristic's current lists
    | .recv evs => if fifo then some (StepX.base (.recv (x.sys.env.pending.take (max 1 evs.length)))) else some (StepX.base st)
    | st => some (StepX.base st))
  let asgs : List StepX := match x.sch.stage with
    | .inH _ _ tasks workers _ _ _ _ =>
      workers.flatMap (fun w => tasks.map (fun t =>
        let cands := (j.inputs t).filterMap (fun ds =>
          let av := cl.hosts.filter (fun h => x.sys.ctl.dsHost ds h == .available)
          (pick av (lcg (r + ds.task * 7 + ds.out))).map (fun h => (ds, h)))
        StepX.base (.assign ⟨w, t, cands⟩)))
    | _ => []
  let ctl : List StepX := [.beginStepII, .awcEnter, .hPhase2, .hEnd] ++
    (List.range cm.n).map (fun c => StepX.awcBegin c) ++ cl.hosts.map (fun h => StepX.migrate h)
  baseC ++ asgs ++ asgs ++ ctl ++ ctl


def rnd (r : Nat) (m : Nat) : Nat := (r / 65536) % m

/-- random job: n tasks, each 1..3 outputs, inputs from earlier tasks -/
def genJob (seed : Nat) : Job × Cluster × Comps := Id.run do
  let mut r := lcg (seed * 7919 + 3)
  let n := 2 + rnd r 6
  r := lcg r
  let mut tasks : List TaskDef := []
  let mut allds : List Ds := []
  let mut comp : List Nat := []
  for t in [0:n] do
    let nOut := 1 + rnd r 3
    r := lcg r
    let gpu := rnd r 4 == 0
    r := lcg r
    let mut ins : List Ds := []
    for ds in allds do
      r := lcg r
      if rnd r 4 == 0 then ins := ins ++ [ds]
    tasks := tasks ++ [{ nOut := nOut, gpu := gpu, inputs := ins }]
    allds := allds ++ (List.range nOut).map (fun k => (⟨t, k⟩ : Ds))
    -- component: merge
    let mut lab := t
    for ds in ins do
      let l := comp.getD ds.task 0
      if l < lab then lab := l
    let old := ins.map (fun ds => comp.getD ds.task 0)
    comp := (comp.map (fun l => if old.contains l then lab else l)) ++ [lab]
  let mut ext : List Ds := []
  for ds in allds do
    r := lcg r
    if rnd r 3 == 0 then ext := ext ++ [ds]
  let nh := 1 + rnd r 3
  r := lcg r
  let mut ws : List (Worker × Bool) := []
  for h in [0:nh] do
    let k := 1 + rnd r 2
    r := lcg r
    for i in [0:k] do
      r := lcg r
      ws := ws ++ [((⟨h, i⟩ : Worker), rnd r 2 == 0)]
  -- ensure a gpu worker
  ws := match ws with
    | (w, _) :: rest => (w, true) :: rest
    | [] => []
  let comp' := comp
  (⟨tasks, ext⟩, ⟨ws⟩, ⟨fun t => comp'.getD t 0, n⟩)

def five (p : Phase) : Bool := p == .assigning || p == .planning || p == .flushF || p == .flushP || p == .waiting

def myChecks (j : Job) (_cl : Cluster) (x : SysX) (_fifo : Bool) : List (String × Bool) :=
  let s := x.sys
  let c := s.ctl
  let e := s.env
  let allEv := s.allEv
  let fl := c.ongoing ++ s.todoPairs
  let runnable := e.queued.any (fun q => (j.inputs q.2).all (fun d => (e.present q.1.host d).isSome))
  [ ("W1", imp (s.phase != .crashed) (fl.all (fun p => imp (e.ran p.2)
        ((List.range (j.nOut p.2)).any (fun k => allEv.contains (Event.pubW p.1 ⟨p.2, k⟩)))))),
    ("W2", e.queued.all (fun q => (j.inputs q.2).all (fun d => (e.present q.1.host d).isSome || inboundTransmit e d q.1.host))),
    ("W3a", c.fetchIssued.all (fun ds => imp (c.outputs ds).isNone
        (e.outstanding.any (fun o => isFetchOf ds o) || allEv.any (fun ev => isPayloadOf ds ev)))),
    ("W3b", j.ext.all (fun ds => imp ((c.outputs ds).isNone && c.announced ds) (c.fetchQ.any (·.1 == ds) || c.fetchIssued.contains ds))),
    ("P1", imp (s.phase == .waiting) (c.hasAwaitable j)),
    ("P2", imp (s.phase == .flushP || s.phase == .waiting) c.fetchQ.isEmpty),
    ("P3", imp (s.phase == .waiting) c.purgeQ.isEmpty),
    ("K", imp (five s.phase && !c.computable.isEmpty) (!c.ongoing.isEmpty || !s.todo.isEmpty || s.phase == .assigning)),
    ("ONG", imp (s.phase == .waiting && !c.ongoing.isEmpty) (!e.pending.isEmpty || runnable || !e.outstanding.isEmpty)),
    ("TARGET", imp (s.phase == .waiting) (!e.pending.isEmpty || runnable || !e.outstanding.isEmpty)) ]

def walkI (j : Job) (cl : Cluster) (cm : Comps) (seed : Nat) (n : Nat) (fifo : Bool) : Nat × List String × Nat := Id.run do
  let mut x := SysX.init j cl cm
  let mut r := lcg (seed + 17)
  let mut steps := 0
  let mut waits := 0
  for _ in [0:n] do
    let cands := candidatesX j cl cm x r fifo
    let en := cands.filterMap (fun st => (stepX semStr j cl cm x st).map (fun x' => (st, x')))
    r := lcg r
    match pick en r with
    | none => break
    | some (_, x') =>
      x := x'
      steps := steps + 1
      if x.sys.phase == .waiting then waits := waits + 1
      let f := (myChecks j cl x fifo).filterMap (fun p => if p.2 then none else some p.1)
      if !f.isEmpty then return (steps, f, waits)
    r := lcg r
  return (steps, [], waits)

def campaign (fifo : Bool) (jobs : Nat) (seeds : Nat) (n : Nat) : IO Unit := do
  let mut total := 0
  let mut waits := 0
  let mut bad := 0
  for js in [0:jobs] do
    let (j, cl, cm) := genJob js
    for sd in [0:seeds] do
      let (st, f, w) := walkI j cl cm (js * 1000 + sd) n fifo
      total := total + st
      waits := waits + w
      if !f.isEmpty then
        bad := bad + 1
        if bad ≤ 8 then IO.println s!"FAIL fifo={fifo} job={js} seed={js * 1000 + sd} at step {st}: {f}"
  IO.println s!"fifo={fifo}: {jobs} jobs x {seeds} seeds, {total} states ({waits} waiting), {bad} failing walks"

end SchedIdleFuzz

def main (args : List String) : IO Unit := do
  let jobs := (args.getD 0 "20").toNat!
  let seeds := (args.getD 1 "5").toNat!
  let n := (args.getD 2 "400").toNat!
  SchedIdleFuzz.campaign true jobs seeds n
  SchedIdleFuzz.campaign false jobs seeds n
