import EkwVerif.Drive.Util
import EkwVerif.Model.Ctrl
import EkwVerif.Model.CtrlN
open Lean EkwVerif.Drive EkwVerif.Ctrl

namespace EkwVerif.DriveCtrl

/-- the interpretation of task bodies used by the driver: a term string -/
def semStr : Sem := fun t k args => s!"t{t}.{k}(" ++ ",".intercalate args ++ ")"

structure DState where
  job : Job
  cl : Cluster
  sys : Sys
  hidden : Hidden := fun _ => false     -- non-atomic layer (Model/CtrlN.lean): outputs computed by a running body, not yet published

def n (x : Nat) : Json := toJson x
def jds (d : Ds) : Json := Json.arr #[n d.task, n d.out]
def jw (w : Worker) : Json := Json.arr #[n w.host, n w.idx]
def jstatus : Status → Json
  | .missing => Json.str "missing"
  | .preparing => Json.str "preparing"
  | .available => Json.str "available"

def pDs (j : Json) : Ds := match asArr j with | [a, b] => ⟨asNat a, asNat b⟩ | _ => ⟨0, 0⟩
def pW (j : Json) : Worker := match asArr j with | [a, b] => ⟨asNat a, asNat b⟩ | _ => ⟨0, 0⟩

def allDs (job : Job) : List Ds := job.taskIds.flatMap (fun t => job.outputsOf t)

def jEvent : Event → Json
  | .pubW w ds => Json.arr #[Json.str "pubW", n w.host, n w.idx, n ds.task, n ds.out]
  | .pubT h ds => Json.arr #[Json.str "pubT", n h, n ds.task, n ds.out]
  | .payload ds v => Json.arr #[Json.str "pay", n ds.task, n ds.out, Json.str v]

def pEvent (j : Json) : Option Event :=
  match asArr j with
  | [Json.str "pubW", h, i, t, k] => some (.pubW ⟨asNat h, asNat i⟩ ⟨asNat t, asNat k⟩)
  | [Json.str "pubT", h, t, k] => some (.pubT (asNat h) ⟨asNat t, asNat k⟩)
  | [Json.str "pay", t, k, v] => some (.payload ⟨asNat t, asNat k⟩ (asStr v))
  | _ => none

def jCmd : Cmd → Json
  | .transmit ds s t => Json.arr #[Json.str "transmit", n ds.task, n ds.out, n s, n t]
  | .taskSeq w t => Json.arr #[Json.str "task", n w.host, n w.idx, n t]
  | .fetch ds s => Json.arr #[Json.str "fetch", n ds.task, n ds.out, n s]
  | .purge h ds => Json.arr #[Json.str "purge", n h, n ds.task, n ds.out]

def jIO : IO → Json
  | .transmit ds s t => Json.arr #[Json.str "transmit", n ds.task, n ds.out, n s, n t]
  | .fetch ds s => Json.arr #[Json.str "fetch", n ds.task, n ds.out, n s]

def digestCtl (job : Job) (cl : Cluster) (c : Ctl) : Json :=
  let dss := allDs job
  let hosts := cl.hosts
  let ws := cl.ids
  Json.mkObj [
    ("computable", nats c.computable),
    ("computableCnt", n c.computable.length),
    ("idle", Json.arr (c.idle.map jw).toArray),
    ("ongoing", Json.arr (c.ongoing.map (fun p => Json.arr #[n p.1.host, n p.1.idx, n p.2])).toArray),
    ("ongoingTotal", n c.ongoing.length),
    ("tracker", Json.arr ((job.taskIds.filter c.tracked).map (fun t => Json.arr #[n t, Json.arr ((c.tracker t).map jds).toArray])).toArray),
    ("ptrack", Json.arr ((dss.filter c.ptracked).map (fun d => Json.arr #[jds d, nats (c.ptrack d)])).toArray),
    ("purgeQ", Json.arr (c.purgeQ.map jds).toArray),
    ("fetchQ", Json.arr (c.fetchQ.map (fun p => Json.arr #[n p.1.task, n p.1.out, n p.2])).toArray),
    ("fetchIssued", Json.arr (c.fetchIssued.map jds).toArray),
    ("outputs", Json.arr (job.ext.map (fun d => Json.arr #[n d.task, n d.out, optStr (c.outputs d)])).toArray),
    ("hostDs", Json.arr ((hosts.flatMap (fun h => (dss.filter (fun d => c.hostDs h d != .missing)).map
        (fun d => Json.arr #[n h, n d.task, n d.out, jstatus (c.hostDs h d)]))).toArray)),
    ("dsHost", Json.arr ((hosts.flatMap (fun h => (dss.filter (fun d => c.dsHost d h != .missing)).map
        (fun d => Json.arr #[n h, n d.task, n d.out, jstatus (c.dsHost d h)]))).toArray)),
    ("workerDs", Json.arr ((ws.flatMap (fun w => (dss.filter (fun d => c.workerDs w d != .missing)).map
        (fun d => Json.arr #[n w.host, n w.idx, n d.task, n d.out, jstatus (c.workerDs w d)]))).toArray)),
    ("remaining", n c.remaining),
    ("published", Json.arr ((dss.filter c.published).map jds).toArray),
    ("hasComputable", toJson c.hasComputable),
    ("hasAwaitable", toJson (c.hasAwaitable job))]

def digestEnv (job : Job) (cl : Cluster) (e : Env) : Json :=
  let dss := allDs job
  Json.mkObj [
    ("present", Json.arr ((cl.hosts.flatMap (fun h => (dss.filterMap (fun d => (e.present h d).map
        (fun v => Json.arr #[n h, n d.task, n d.out, Json.str v]))))).toArray)),
    ("queued", Json.arr (e.queued.map (fun p => Json.arr #[n p.1.host, n p.1.idx, n p.2])).toArray),
    ("outstanding", Json.arr (e.outstanding.map jIO).toArray),
    ("pending", Json.arr (e.pending.map jEvent).toArray),
    ("viol", strs e.viol)]

def jPhase : Phase → String
  | .top => "top" | .waiting => "waiting" | .finished => "finished" | .crashed => "crashed"
  | .assigning => "assigning" | .planning => "planning" | .flushF => "flushF" | .flushP => "flushP"
  | .notifying => "notifying"

def full (d : DState) (extra : List (String × Json)) : Json :=
  Json.mkObj (extra ++ [("ctl", digestCtl d.job d.cl d.sys.ctl), ("env", digestEnv d.job d.cl d.sys.env),
    ("phase", Json.str (jPhase d.sys.phase)), ("err", optStr d.sys.err), ("shutdowns", n d.sys.shutdowns),
    ("den", Json.arr (d.job.ext.map (fun ds => Json.arr #[n ds.task, n ds.out, optStr (den semStr d.job ds)])).toArray)])

def pJob (j : Json) : Job :=
  { tasks := (getArr j "tasks").map (fun t =>
      { nOut := getNat t "nOut", gpu := getBool t "gpu", inputs := (getArr t "inputs").map pDs }),
    ext := (getArr j "ext").map pDs }

def pCluster (j : Json) : Cluster :=
  { workers := (getArr j "workers").map (fun w => match asArr w with
      | [h, i, g] => (⟨asNat h, asNat i⟩, (g.getBool?).toOption.getD false)
      | _ => (⟨0, 0⟩, false)) }

def pAsg (j : Json) : Asg :=
  { worker := pW ((j.getObjVal? "w").toOption.getD Json.null), task := getNat j "t",
    cands := (getArr j "cands").map (fun c => match asArr c with
      | [t, k, h] => (⟨asNat t, asNat k⟩, asNat h)
      | _ => (⟨0, 0⟩, 0)) }


end EkwVerif.DriveCtrl
