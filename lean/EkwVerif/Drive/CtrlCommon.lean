import EkwVerif.Drive.Util
import EkwVerif.Model.Ctrl
import EkwVerif.Model.CtrlN
import EkwVerif.Lemmas.SchedTermA
import EkwVerif.Lemmas.CtrlWFCheck
import EkwVerif.Lemmas.CtrlPresched
open Lean EkwVerif.Drive EkwVerif.Ctrl

namespace EkwVerif.DriveCtrl

/-- the interpretation of task bodies used by the driver: a term string -/
def semStr : Sem := fun t k args => s!"t{t}.{k}(" ++ ",".intercalate args ++ ")"

structure DState where
  job : Job
  cl : Cluster
  sys : Sys
  hidden : Hidden := fun _ => false     -- non-atomic layer (Model/CtrlN.lean): outputs computed by a running body, not yet published

def n (x : Nat) : Json := toJson x
def jds (d : Ds) : Json := Json.arr #[n d.task, n d.out]
def jw (w : Worker) : Json := Json.arr #[n w.host, n w.idx]
def jstatus : Status → Json
  | .missing => Json.str "missing"
  | .preparing => Json.str "preparing"
  | .available => Json.str "available"

def pDs (j : Json) : Ds := match asArr j with | [a, b] => ⟨asNat a, asNat b⟩ | _ => ⟨0, 0⟩
def pW (j : Json) : Worker := match asArr j with | [a, b] => ⟨asNat a, asNat b⟩ | _ => ⟨0, 0⟩

def allDs (job : Job) : List Ds := job.taskIds.flatMap (fun t => job.outputsOf t)

def jEvent : Event → Json
  | .pubW w ds => Json.arr #[Json.str "pubW", n w.host, n w.idx, n ds.task, n ds.out]
  | .pubT h ds => Json.arr #[Json.str "pubT", n h, n ds.task, n ds.out]
  | .payload ds v => Json.arr #[Json.str "pay", n ds.task, n ds.out, Json.str v]

def pEvent (j : Json) : Option Event :=
  match asArr j with
  | [Json.str "pubW", h, i, t, k] => some (.pubW ⟨asNat h, asNat i⟩ ⟨asNat t, asNat k⟩)
  | [Json.str "pubT", h, t, k] => some (.pubT (asNat h) ⟨asNat t, asNat k⟩)
  | [Json.str "pay", t, k, v] => some (.payload ⟨asNat t, asNat k⟩ (asStr v))
  | _ => none

def jCmd : Cmd → Json
  | .transmit ds s t => Json.arr #[Json.str "transmit", n ds.task, n ds.out, n s, n t]
  | .taskSeq w t pub => Json.arr #[Json.str "task", n w.host, n w.idx, n t, Json.arr (pub.map jds).toArray]
  | .fetch ds s => Json.arr #[Json.str "fetch", n ds.task, n ds.out, n s]
  | .purge h ds => Json.arr #[Json.str "purge", n h, n ds.task, n ds.out]

def jIO : IO → Json
  | .transmit ds s t => Json.arr #[Json.str "transmit", n ds.task, n ds.out, n s, n t]
  | .fetch ds s => Json.arr #[Json.str "fetch", n ds.task, n ds.out, n s]

def digestCtl (job : Job) (cl : Cluster) (c : Ctl) : Json :=
  let dss := allDs job
  let hosts := cl.hosts
  let ws := cl.ids
  Json.mkObj [
    ("computable", nats c.computable),
    ("computableCnt", n c.computable.length),
    ("idle", Json.arr (c.idle.map jw).toArray),
    ("ongoing", Json.arr (c.ongoing.map (fun p => Json.arr #[n p.1.host, n p.1.idx, n p.2])).toArray),
    ("ongoingTotal", n c.ongoing.length),
    ("tracker", Json.arr ((job.taskIds.filter c.tracked).map (fun t => Json.arr #[n t, Json.arr ((c.tracker t).map jds).toArray])).toArray),
    ("ptrack", Json.arr ((dss.filter c.ptracked).map (fun d => Json.arr #[jds d, nats (c.ptrack d)])).toArray),
    ("purgeQ", Json.arr (c.purgeQ.map jds).toArray),
    ("fetchQ", Json.arr (c.fetchQ.map (fun p => Json.arr #[n p.1.task, n p.1.out, n p.2])).toArray),
    ("fetchIssued", Json.arr (c.fetchIssued.map jds).toArray),
    ("outputs", Json.arr (job.ext.map (fun d => Json.arr #[n d.task, n d.out, optStr (c.outputs d)])).toArray),
    ("hostDs", Json.arr ((hosts.flatMap (fun h => (dss.filter (fun d => c.hostDs h d != .missing)).map
        (fun d => Json.arr #[n h, n d.task, n d.out, jstatus (c.hostDs h d)]))).toArray)),
    ("dsHost", Json.arr ((hosts.flatMap (fun h => (dss.filter (fun d => c.dsHost d h != .missing)).map
        (fun d => Json.arr #[n h, n d.task, n d.out, jstatus (c.dsHost d h)]))).toArray)),
    ("workerDs", Json.arr ((ws.flatMap (fun w => (dss.filter (fun d => c.workerDs w d != .missing)).map
        (fun d => Json.arr #[n w.host, n w.idx, n d.task, n d.out, jstatus (c.workerDs w d)]))).toArray)),
    ("remaining", n c.remaining),
    ("published", Json.arr ((dss.filter c.published).map jds).toArray),
    ("hasComputable", toJson c.hasComputable),
    ("hasAwaitable", toJson (c.hasAwaitable job))]

/-- `wide`: with the contents of the stores (only asked for at the end of a run: the values are long terms) -/
def digestEnv (job : Job) (cl : Cluster) (e : Env) (wide : Bool := false) : Json :=
  let dss := allDs job
  Json.mkObj ((if wide then [
    ("present", Json.arr ((cl.hosts.flatMap (fun h => (dss.filterMap (fun d => (e.present h d).map
        (fun v => Json.arr #[n h, n d.task, n d.out, Json.str v]))))).toArray))] else []) ++ [
    ("queued", Json.arr (e.queued.map (fun p => Json.arr #[n p.1.host, n p.1.idx, n p.2])).toArray),
    ("outstanding", Json.arr (e.outstanding.map jIO).toArray),
    ("pending", Json.arr (e.pending.map jEvent).toArray),
    ("viol", strs e.viol)])

/-- lookup in a precomputed table; points outside the table keep the old function. (The table is an ARGUMENT: a
definition that builds its table internally and returns a closure is eta-expanded by the compiler and would rebuild the
table at every lookup.) -/
def tabGet {α β : Type} [BEq α] (t : List (α × β)) (f : α → β) (a : α) : β :=
  match t.lookup a with
  | some b => b
  | none => f a

def tabGet2 {α β γ : Type} [BEq α] [BEq β] (t : List (α × List (β × γ))) (f : α → β → γ) (a : α) (b : β) : γ :=
  match t.lookup a with
  | some row => (match row.lookup b with | some v => v | none => f a b)
  | none => f a b

/-- semantics-preserving re-tabulation of the function-valued fields of the controller state over the finite domain of
the job and the cluster: a lookup then costs one pass over a table instead of one closure per past update -/
def compactCtl (job : Job) (cl : Cluster) (c : Ctl) : Ctl :=
  let dss := allDs job
  let hosts := cl.hosts
  let ws := cl.ids
  let ts := job.taskIds
  let tTracker := ts.map (fun t => (t, c.tracker t))
  let tTracked := ts.map (fun t => (t, c.tracked t))
  let tPtrack := dss.map (fun d => (d, c.ptrack d))
  let tPtracked := dss.map (fun d => (d, c.ptracked d))
  let tOutputs := dss.map (fun d => (d, c.outputs d))
  let tHostDs := hosts.map (fun h => (h, dss.map (fun d => (d, c.hostDs h d))))
  let tDsHost := dss.map (fun d => (d, hosts.map (fun h => (h, c.dsHost d h))))
  let tWorkerDs := ws.map (fun w => (w, dss.map (fun d => (d, c.workerDs w d))))
  let tPublished := dss.map (fun d => (d, c.published d))
  let tDispatched := ts.map (fun t => (t, c.dispatched t))
  let tDoneC := ts.map (fun t => (t, c.doneC t))
  let tAnnounced := dss.map (fun d => (d, c.announced d))
  { c with tracker := tabGet tTracker c.tracker, tracked := tabGet tTracked c.tracked, ptrack := tabGet tPtrack c.ptrack,
           ptracked := tabGet tPtracked c.ptracked, outputs := tabGet tOutputs c.outputs,
           hostDs := tabGet2 tHostDs c.hostDs, dsHost := tabGet2 tDsHost c.dsHost, workerDs := tabGet2 tWorkerDs c.workerDs,
           published := tabGet tPublished c.published, dispatched := tabGet tDispatched c.dispatched,
           doneC := tabGet tDoneC c.doneC, announced := tabGet tAnnounced c.announced }

def compactEnv (job : Job) (cl : Cluster) (e : Env) : Env :=
  let dss := allDs job
  let ts := job.taskIds
  let tPresent := cl.hosts.map (fun h => (h, dss.map (fun d => (d, e.present h d))))
  let tRan := ts.map (fun t => (t, e.ran t))
  let tProduced := dss.map (fun d => (d, e.produced d))
  let tDelivered := dss.map (fun d => (d, e.delivered d))
  let tDisp := ts.map (fun t => (t, e.dispatchedE t))
  let tPub := ts.map (fun t => (t, e.pubOf t))
  let tTrim := ts.map (fun t => (t, e.trimmed t))
  { e with present := tabGet2 tPresent e.present, ran := tabGet tRan e.ran, produced := tabGet tProduced e.produced,
           delivered := tabGet tDelivered e.delivered, dispatchedE := tabGet tDisp e.dispatchedE,
           pubOf := tabGet tPub e.pubOf, trimmed := tabGet tTrim e.trimmed }

def compactSys (job : Job) (cl : Cluster) (s : Sys) : Sys :=
  { s with ctl := compactCtl job cl s.ctl, env := compactEnv job cl s.env }

def jPhase : Phase → String
  | .top => "top" | .waiting => "waiting" | .finished => "finished" | .crashed => "crashed"
  | .assigning => "assigning" | .planning => "planning" | .flushF => "flushF" | .flushP => "flushP"
  | .notifying => "notifying"

def full (d : DState) (extra : List (String × Json)) (wide : Bool := false) : Json :=
  Json.mkObj (extra ++ [("ctl", digestCtl d.job d.cl d.sys.ctl), ("env", digestEnv d.job d.cl d.sys.env wide),
    ("phase", Json.str (jPhase d.sys.phase)), ("err", optStr d.sys.err), ("shutdowns", n d.sys.shutdowns)] ++
    (if wide then
      [("den", Json.arr (d.job.ext.map (fun ds => Json.arr #[n ds.task, n ds.out, optStr (den semStr d.job ds)])).toArray)]
     else []))

def pJob (j : Json) : Job :=
  { tasks := (getArr j "tasks").map (fun t =>
      { nOut := getNat t "nOut", gpu := getBool t "gpu", inputs := (getArr t "inputs").map pDs }),
    ext := (getArr j "ext").map pDs }

def pCluster (j : Json) : Cluster :=
  { workers := (getArr j "workers").map (fun w => match asArr w with
      | [h, i, g] => (⟨asNat h, asNat i⟩, (g.getBool?).toOption.getD false)
      | _ => (⟨0, 0⟩, false)) }

/-- the hypotheses of the theorems, evaluated on the replayed input (`wfCheck_sound`, `wfcCheck_sound`, `feasCheck_sound`):
`WF job cluster`, `WFC job cm` for the component map the REAL `precompute`/`initialize` produced, `Feasible job cluster` -/
def hypChecks (j : Json) (job : Job) (cl : Cluster) : List (String × Json) :=
  let comp := (getArr j "comp").map asNat
  let cm : Comps := { compOf := fun t => comp.getD t 0, n := getNat j "ncomp" }
  -- the component map the theorems `c01_delivers_checked` / `c03_completes_checked` are about (`preComps`: C16's model of
  -- `precompute` on the JobInstance the job stands for) against the REAL one, as partitions of the tasks (the numbering of
  -- components of equal size follows Python set iteration order); jobs of at most 20 tasks
  let compEq : Bool :=
    if job.tasks.length > 20 then true else
    let pc := preComps job (fun _ _ => .kw "k")
    let tbl := job.taskIds.map pc.compOf
    pc.n == cm.n && job.taskIds.all (fun t => job.taskIds.all (fun u =>
      (tbl.getD t 0 == tbl.getD u 0) == (cm.compOf t == cm.compOf u)))
  [("wf", toJson (wfCheck job cl)), ("wfc", toJson (wfcCheck job cm && comp.length == job.tasks.length)),
   ("feasible", toJson (feasCheck job cl)), ("compEq", toJson compEq)]

def pAsg (j : Json) : Asg :=
  { worker := pW ((j.getObjVal? "w").toOption.getD Json.null), task := getNat j "t",
    cands := (getArr j "cands").map (fun c => match asArr c with
      | [t, k, h] => (⟨asNat t, asNat k⟩, asNat h)
      | _ => (⟨0, 0⟩, 0)) }


/-- the order in which the real `build_assignment` scanned `ds2host[ds]` for each input it had to look up:
`[[t, k, [h, ...]], ...]` -/
def pOrders (j : Json) : List (Ds × List Host) :=
  (getArr j "orders").filterMap (fun o => match asArr o with
    | [t, k, hs] => some (⟨asNat t, asNat k⟩, (asArr hs).map asNat)
    | _ => none)

/-- **the scan, not the oracle, determines the source**: for every transmit source the real run chose, the model's scan
(`scanSource`) over the real iteration order of `ds2host[ds]` must return exactly that host -/
def scanMismatches (c : Ctl) (a : Asg) (orders : List (Ds × List Host)) : List String :=
  a.cands.filterMap (fun p =>
    match orders.find? (·.1 == p.1) with
    | none => some s!"no scan order recorded for input {p.1.task}.{p.1.out}"
    | some (_, order) =>
      if scanSource order c p.1 == some p.2 then none
      else if c.dsHost p.1 p.2 == .available && order.contains p.2 then
        -- another `available` host than the first one of the scan: admissible (c04_scan_source_holds), reported softly
        some s!"soft: scan of ds2host[{p.1.task}.{p.1.out}] over {order} yields {scanSource order c p.1}, implementation chose {p.2}"
      else some s!"scan of ds2host[{p.1.task}.{p.1.out}] over {order} yields {scanSource order c p.1}, implementation chose {p.2}")

/-- one environment op of the trace (`run` / `yield` / `io`) on the non-atomic layer; `none` = not enabled / bad op -/
def envOpN (job : Job) (cl : Cluster) (x : SysN) (j : Json) : Option SysN :=
  match j.getObjVal? "yield" with
  | .ok r =>
    (match asArr r with
     | [t, k] =>
       if nextHidden job x.hidden (asNat t) != some (asNat k) then none
       else stepN semStr job cl x (.yield (asNat t))
     | _ => none)
  | .error _ =>
    let es : Option StepN :=
      match j.getObjVal? "run" with
      | .ok r => (match asArr r with | [h, i, t] => some (.start ⟨asNat h, asNat i⟩ (asNat t)) | _ => none)
      | .error _ =>
        let want : Option IO := match getArr j "io" with
          | [Json.str "transmit", t, k, s, g] => some (.transmit ⟨asNat t, asNat k⟩ (asNat s) (asNat g))
          | [Json.str "fetch", t, k, s] => some (.fetch ⟨asNat t, asNat k⟩ (asNat s))
          | _ => none
        want.map (fun o => .base (.env (.io (x.sys.env.outstanding.findIdx (· == o)))))
    es.bind (fun es => stepN semStr job cl x es)

/-- executor steps that the real run performed in the MIDDLE of a controller round: `[[k, op], ...]`, `k` = number of
commands of the round issued before the step. They are replayed at the first micro-step boundary at which at least `k`
commands have been issued. -/
def pMid (j : Json) : List (Nat × Json) :=
  (getArr j "mid").filterMap (fun m => match asArr m with | [k, op] => some (asNat k, op) | _ => none)

end EkwVerif.DriveCtrl
