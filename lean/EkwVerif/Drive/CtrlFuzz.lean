import EkwVerif.Drive.Util
import EkwVerif.Drive.CtrlInvCheck
open Lean EkwVerif.Drive EkwVerif.Ctrl EkwVerif.Ctrl.Check

def parseDs (j : Json) : Ds := match asArr j with | [a, b] => ⟨asNat a, asNat b⟩ | _ => ⟨0, 0⟩

def parseTask (t : Json) : TaskDef :=
  { nOut := getNat t "nOut", gpu := getBool t "gpu", inputs := (getArr t "inputs").map parseDs }

def parseWorker (w : Json) : Worker × Bool :=
  match asArr w with
  | [h, i, g] => (⟨asNat h, asNat i⟩, (g.getBool?).toOption.getD false)
  | _ => (⟨0, 0⟩, false)

def fuzzStep (_ : Unit) (j : Json) : Unit × Json :=
  let job : Job := { tasks := (getArr j "tasks").map parseTask, ext := (getArr j "ext").map parseDs }
  let cl : Cluster := { workers := (getArr j "workers").map parseWorker }
  let (steps, failing, s) := walk job cl (getNat j "seed") (getNat j "steps")
  let phase := match s with
    | some s => (match s.phase with | .finished => "finished" | .crashed => "crashed" | .waiting => "waiting" | _ => "other")
    | none => "?"
  let extra := match s with
    | some s => if failing.isEmpty then Json.null else
        Json.mkObj [("viol", strs s.env.viol), ("err", optStr s.err), ("todo", toJson s.todo.length), ("inbox", toJson s.inbox.length)]
    | none => Json.null
  ((), Json.mkObj [("steps", toJson steps), ("failing", strs failing), ("phase", Json.str phase), ("info", extra)])

def main : IO Unit := runLoop () fuzzStep
