/-
Line-protocol driver for Model/Shm.lean (serves C08 and C09).
  {"op":"init","cap":n,"staleCreate":n,"staleRead":n}
  {"op":"add","k":..,"size":n,"deser":..,"t":n} | {"op":"cwrite","k":..,"size":n,"tok":n}
  {"op":"closeW","k":..} | {"op":"get","k":..,"t":n,"cands":[..]} | {"op":"closeR","k":..,"rdid":..}
  {"op":"purge","k":..} | {"op":"freeSpace"} | {"op":"io","id":n,"inj":"ok|fail|failLate"} | {"op":"cb","id":n}
Answer: {"out": <answer>, "st": <observable state>}.
-/
import EkwVerif.Drive.Util
import EkwVerif.Model.Shm
open Lean EkwVerif.Drive EkwVerif.Shm

def statusStr : Status → String
  | .created => "created" | .inMemory => "in_memory" | .pagingOut => "paging_out"
  | .onDisk => "on_disk" | .pagedIn => "paged_in"

def insStr (x : String × Json) : List (String × Json) → List (String × Json)
  | [] => [x]
  | y :: ys => if x.1 < y.1 then x :: y :: ys else y :: insStr x ys

def sortStr (l : List (String × Json)) : List (String × Json) := l.foldl (fun acc x => insStr x acc) []

def segJson (l : List (String × Seg)) : Json :=
  Json.arr ((sortStr (l.map (fun (k, g) => (k, Json.arr #[Json.str k, toJson g.size, toJson g.data])))).map (·.2)).toArray

def dsJson (k : String) (d : Dataset) : Json :=
  Json.mkObj [("k", Json.str k), ("status", Json.str (statusStr d.status)), ("size", toJson d.size),
    ("created", toJson d.created), ("first", toJson d.first), ("last", toJson d.last),
    ("readers", Json.arr (d.readers.map (fun (r, t) => Json.arr #[Json.str r, toJson t])).toArray),
    ("delayed", Json.bool d.delayed), ("deser", Json.str d.deser)]

def jobJson (j : Job) : Json :=
  Json.mkObj [("id", toJson j.id), ("kind", Json.str (match j.kind with | .out => "out" | .inn => "in")),
    ("k", Json.str j.key), ("io", match j.io with | none => Json.null | some b => Json.bool b)]

def stJson (s : St) : Json :=
  Json.mkObj [("free", toJson s.free), ("cap", toJson s.cap), ("lock", Json.bool s.lock), ("count", toJson s.count),
    ("ds", Json.arr (s.ds.map (fun (k, d) => dsJson k d)).toArray),
    ("segs", segJson s.segs), ("files", segJson s.files),
    ("jobs", Json.arr (s.jobs.map jobJson).toArray),
    ("resident", toJson (residentTotal s.ds)), ("segTotal", toJson (segTotal s.segs))]

def outJson : Out → Json
  | .add .granted => Json.str "granted"
  | .add .conflict => Json.str "conflict"
  | .add .capacityExceeded => Json.str "capacity exceeded"
  | .add .wait => Json.str "wait"
  | .write .ok => Json.str "ok"
  | .write .exists => Json.str "exists"
  | .close .ok => Json.str "ok"
  | .close .keyError => Json.str "KeyError"
  | .close .valueError => Json.str "ValueError"
  | .get (.granted size r d) => Json.mkObj [("size", toJson size), ("rdid", Json.str r), ("deser", Json.str d)]
  | .get .wait => Json.str "wait"
  | .get .keyError => Json.str "KeyError"
  | .get .noUuid => Json.str "noUuid"
  | .purged => Json.str "ok"
  | .free n => toJson n
  | .io (.done b) => Json.bool b
  | .io .noJob => Json.str "noJob"
  | .cb .done => Json.str "done"
  | .cb .noJob => Json.str "noJob"

def parseOp (j : Json) : Option Op :=
  match getStr j "op" with
  | "add" => some (.add (getStr j "k") (getNat j "size") (getStr j "deser") (getNat j "t"))
  | "cwrite" => some (.cwrite (getStr j "k") (getNat j "size") (getNat j "tok"))
  | "closeW" => some (.closeW (getStr j "k"))
  | "get" => some (.get (getStr j "k") (getNat j "t") ((getArr j "cands").map asStr))
  | "closeR" => some (.closeR (getStr j "k") (getStr j "rdid"))
  | "purge" => some (.purge (getStr j "k"))
  | "freeSpace" => some .freeSpace
  | "io" => some (.io (getNat j "id") (match getStr j "inj" with | "fail" => .fail | "failLate" => .failLate | _ => .ok))
  | "cb" => some (.cb (getNat j "id"))
  | _ => none

def c08Step (s : St) (j : Json) : St × Json :=
  if getStr j "op" == "init" then
    let s' := init (getNat j "cap") (getNat j "staleCreate") (getNat j "staleRead")
    (s', Json.mkObj [("out", Json.str "init"), ("st", stJson s')])
  else if getStr j "op" == "ioMid" then
    let (s', o) := ioMidPurge s (getNat j "id") (getStr j "k")
    (s', Json.mkObj [("out", outJson (.io o)), ("st", stJson s')])
  else if getStr j "op" == "atexit" then
    let s' := atexit s
    (s', Json.mkObj [("out", Json.str "atexit"), ("st", stJson s')])
  else match parseOp j with
    | none => (s, Json.mkObj [("out", Json.str "bad-op")])
    | some op =>
      let (s', o) := step s op
      (s', Json.mkObj [("out", outJson o), ("st", stJson s')])

def main : IO Unit := runLoop (init 0 0 0) c08Step
