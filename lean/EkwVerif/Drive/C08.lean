/-
Line-protocol driver for Model/Shm.lean (serves C08 and C09).
  {"op":"init","cap":n,"staleCreate":n,"staleRead":n}  or  {"op":"init","configured":n|null,"avail":n,"staleCreate":n,"staleRead":n}
  {"op":"add","k":..,"size":n,"deser":..,"t":n} | {"op":"cwrite","k":..,"size":n,"tok":n}
  {"op":"closeW","k":..} | {"op":"get","k":..,"t":n,"cands":[..]} | {"op":"closeR","k":..,"rdid":..}
  {"op":"purge","k":..} | {"op":"freeSpace"} | {"op":"io","id":n,"inj":"ok|fail|failLate"} | {"op":"cb","id":n}
Answer: {"out": <answer>, "st": <observable state>}.
-/
import EkwVerif.Drive.Util
import EkwVerif.Model.Shm
open Lean EkwVerif.Drive EkwVerif.Shm

def statusStr : Status → String
  | .created => "created" | .inMemory => "in_memory" | .pagingOut => "paging_out"
  | .onDisk => "on_disk" | .pagedIn => "paged_in"

def insStr (x : String × Json) : List (String × Json) → List (String × Json)
  | [] => [x]
  | y :: ys => if x.1 < y.1 then x :: y :: ys else y :: insStr x ys

def sortStr (l : List (String × Json)) : List (String × Json) := l.foldl (fun acc x => insStr x acc) []

def segJson (l : List (String × Seg)) : Json :=
  Json.arr ((sortStr (l.map (fun (k, g) => (k, Json.arr #[Json.str k, toJson g.size, toJson g.data])))).map (·.2)).toArray

def dsJson (k : String) (d : Dataset) : Json :=
  Json.mkObj [("k", Json.str k), ("status", Json.str (statusStr d.status)), ("size", toJson d.size),
    ("created", toJson d.created), ("first", toJson d.first), ("last", toJson d.last),
    ("readers", Json.arr (d.readers.map (fun (r, t) => Json.arr #[Json.str r, toJson t])).toArray),
    ("delayed", Json.bool d.delayed), ("deser", Json.str d.deser)]

def jobJson (j : Job) : Json :=
  Json.mkObj [("id", toJson j.id), ("kind", Json.str (match j.kind with | .out => "out" | .inn => "in")),
    ("k", Json.str j.key), ("io", match j.io with | none => Json.null | some b => Json.bool b)]

def stJson (s : St) : Json :=
  Json.mkObj [("free", toJson s.free), ("cap", toJson s.cap), ("lock", Json.bool s.lock), ("count", toJson s.count),
    ("ds", Json.arr (s.ds.map (fun (k, d) => dsJson k d)).toArray),
    ("segs", segJson s.segs), ("files", segJson s.files),
    ("jobs", Json.arr (s.jobs.map jobJson).toArray),
    ("resident", toJson (residentTotal s.ds)), ("segTotal", toJson (segTotal s.segs))]

def outJson : Out → Json
  | .add .granted => Json.str "granted"
  | .add .conflict => Json.str "conflict"
  | .add .capacityExceeded => Json.str "capacity exceeded"
  | .add .wait => Json.str "wait"
  | .write .ok => Json.str "ok"
  | .write .exists => Json.str "exists"
  | .write .invalid => Json.str "invalid"
  | .close .ok => Json.str "ok"
  | .close .keyError => Json.str "KeyError"
  | .close .valueError => Json.str "ValueError"
  | .get (.granted size r d) => Json.mkObj [("size", toJson size), ("rdid", Json.str r), ("deser", Json.str d)]
  | .get .wait => Json.str "wait"
  | .get .keyError => Json.str "KeyError"
  | .get .noUuid => Json.str "noUuid"
  | .purged => Json.str "ok"
  | .free n => toJson n
  | .io (.done b) => Json.bool b
  | .io .noJob => Json.str "noJob"
  | .cb .done => Json.str "done"
  | .cb .noJob => Json.str "noJob"

def parseOp (j : Json) : Option Op :=
  match getStr j "op" with
  | "add" => some (.add (getStr j "k") (getNat j "size") (getStr j "deser") (getNat j "t"))
  | "cwrite" => some (.cwrite (getStr j "k") (getNat j "size") (getNat j "tok"))
  | "closeW" => some (.closeW (getStr j "k"))
  | "get" => some (.get (getStr j "k") (getNat j "t") ((getArr j "cands").map asStr))
  | "closeR" => some (.closeR (getStr j "k") (getStr j "rdid"))
  | "purge" => some (.purge (getStr j "k"))
  | "freeSpace" => some .freeSpace
  | "io" => some (.io (getNat j "id") (match getStr j "inj" with | "fail" => .fail | "failLate" => .failLate | _ => .ok))
  | "cb" => some (.cb (getNat j "id"))
  | _ => none

def clientOutStr : ClientOut → String
  | .granted _ => "granted" | .timeout => "timeout" | .conflict => "conflict" | .capacityExceeded => "capacity exceeded"
  | .keyError => "KeyError" | .noUuid => "RuntimeError" | .outOfSchedule => "outOfSchedule"

def parseAttempt (j : Json) : Attempt :=
  { env := (getArr j "env").filterMap parseOp, t := getNat j "t", cands := (getArr j "cands").map asStr }

/-- the driver's state: the model state and the state saved by the last `clientBegin` -/
structure DSt where
  s : St
  saved : St

def c08Step' (s : St) (j : Json) : St × Json :=
  if getStr j "op" == "init" then
    -- with "avail" the capacity is computed as Manager.__init__ does (configured value, null = not configured)
    let s' := match j.getObjValAs? Nat "avail" with
      | .ok avail => boot (j.getObjValAs? Nat "configured").toOption avail (getNat j "staleCreate") (getNat j "staleRead")
      | _ => init (getNat j "cap") (getNat j "staleCreate") (getNat j "staleRead")
    (s', Json.mkObj [("out", Json.str "init"), ("st", stJson s')])
  else if getStr j "op" == "ioMid" then
    let (s', o) := ioMidPurge s (getNat j "id") (getStr j "k")
    (s', Json.mkObj [("out", outJson (.io o)), ("st", stJson s')])
  else if getStr j "op" == "atexit" then
    let s' := atexit s
    (s', Json.mkObj [("out", Json.str "atexit"), ("st", stJson s')])
  else match parseOp j with
    | none => (s, Json.mkObj [("out", Json.str "bad-op")])
    | some op =>
      let (s', o) := step s op
      (s', Json.mkObj [("out", outJson o), ("st", stJson s')])

def budgetOf (j : Json) : Nat :=
  match j.getObjValAs? Nat "budget" with
  | .ok n => n
  | _ => defaultBudgetMs

def c08Step (d : DSt) (j : Json) : DSt × Json :=
  if getStr j "op" == "clientBegin" then
    ({ d with saved := d.s }, Json.mkObj [("out", Json.str "begin")])
  else if getStr j "op" == "clientEnd" then
    let sched := (getArr j "sched").map parseAttempt
    let (s', o, n) :=
      if getStr j "kind" == "alloc" then clientAlloc d.saved (getStr j "k") (getNat j "size") (getStr j "deser") (budgetOf j) sched
      else clientGet d.saved (getStr j "k") (budgetOf j) sched
    let s'' := run s' ((getArr j "tail").filterMap parseOp)
    let same := (stJson s'').compress == (stJson d.s).compress
    (d, Json.mkObj [("out", Json.mkObj [("res", Json.str (clientOutStr o)), ("attempts", toJson n), ("same", Json.bool same)])])
  else
    let (s', o) := c08Step' d.s j
    ({ d with s := s' }, o)

def main : IO Unit := runLoop ({ s := init 0 0 0, saved := init 0 0 0 } : DSt) c08Step
