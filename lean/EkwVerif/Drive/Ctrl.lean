import EkwVerif.Drive.CtrlCommon
open Lean EkwVerif.Drive EkwVerif.Ctrl EkwVerif.DriveCtrl

def ctrlStep (d : DState) (j : Json) : DState × Json :=
  match getStr j "op" with
  | "init" =>
    let job := pJob j
    let cl := pCluster j
    let d' : DState := { job := job, cl := cl, sys := Sys.init job cl, hidden := fun _ => false }
    (d', full d' [])
  | "round" =>
    let oracle := (getArr j "asg").map pAsg
    let before := d.sys.env.log.length
    -- enter; if the loop exits we are done
    match step semStr d.job d.cl d.sys .enter with
    | none => (d, Json.mkObj [("enabled", toJson false)])
    | some s1 =>
      if s1.phase == .finished then
        let d' := { d with sys := s1 }; (d', full d' [("enabled", toJson true), ("cmds", Json.arr #[])])
      else
        let oracle := if s1.mayAssign then oracle else []
        let drain (s : Sys) (st : Step) (fuel : Nat) : Sys := Id.run do
          let mut s := s
          for _ in [0:fuel] do
            match step semStr d.job d.cl s st with
            | some s' => s := s'
            | none => break
          return s
        let run1 (s : Sys) (st : Step) : Sys := (step semStr d.job d.cl s st).getD s
        let s2 := oracle.foldl (fun s a => run1 s (.assign a)) s1
        let s3 := run1 s2 .endAssign
        let s4 := drain s3 .plan1 (oracle.length + 1)
        let s5 := run1 s4 .endPlan
        let s6 := drain s5 .flushF1 (s5.ctl.fetchQ.length + 1)
        let s7 := run1 s6 .endFlushF
        let s8 := drain s7 .flushP1 (s7.ctl.purgeQ.length + 1)
        let s9 := run1 s8 .endFlush
        let d' := { d with sys := s9 }
        (d', full d' [("enabled", toJson true), ("cmds", Json.arr ((s9.env.log.drop before).map jCmd).toArray)])
  | "env" =>
    let xN : SysN := { sys := d.sys, hidden := d.hidden }
    -- {"op":"env","yield":[t,k]}: the running body of t publishes its next output, which must be its k-th
    match j.getObjVal? "yield" with
    | .ok r =>
      (match asArr r with
       | [t, k] =>
         if nextHidden d.job d.hidden (asNat t) != some (asNat k) then (d, Json.mkObj [("enabled", toJson false)]) else
         (match stepN semStr d.job d.cl xN (.yield (asNat t)) with
          | none => (d, Json.mkObj [("enabled", toJson false)])
          | some x' => ({ d with hidden := x'.hidden }, Json.mkObj [("enabled", toJson true)]))
       | _ => (d, Json.str "bad-op"))
    | .error _ =>
    let es : Option StepN :=
      match j.getObjVal? "run" with
      | .ok r => (match asArr r with | [h, i, t] => some (.start ⟨asNat h, asNat i⟩ (asNat t)) | _ => none)
      | .error _ =>
        -- the transfer/fetch is named by content; the model step takes its index
        let want : Option IO := match getArr j "io" with
          | [Json.str "transmit", t, k, s, g] => some (.transmit ⟨asNat t, asNat k⟩ (asNat s) (asNat g))
          | [Json.str "fetch", t, k, s] => some (.fetch ⟨asNat t, asNat k⟩ (asNat s))
          | _ => none
        want.map (fun o => .base (.env (.io (d.sys.env.outstanding.findIdx (· == o)))))
    match es with
    | none => (d, Json.str "bad-op")
    | some es =>
      match stepN semStr d.job d.cl xN es with
      | none => (d, Json.mkObj [("enabled", toJson false)])
      | some x' => let d' := { d with sys := x'.sys, hidden := x'.hidden }; (d', Json.mkObj [("enabled", toJson true), ("env", digestEnv d.job d.cl x'.sys.env)])
  | "deliver" =>
    let evs := (getArr j "events").filterMap pEvent
    if evs.length != (getArr j "events").length then (d, Json.str "bad-event") else
    match (stepN semStr d.job d.cl { sys := d.sys, hidden := d.hidden } (.base (.recv evs))).map (·.sys) with
    | none => (d, Json.mkObj [("enabled", toJson false)])
    | some s1 =>
      let s2 : Sys := Id.run do
        let mut s := s1
        for _ in [0:evs.length + 1] do
          match step semStr d.job d.cl s .notify1 with
          | some s' => s := s'
          | none => break
        return s
      let s3 := (step semStr d.job d.cl s2 .endNotify).getD s2
      let d' := { d with sys := s3 }; (d', full d' [("enabled", toJson true)])
  | _ => (d, Json.str "bad-op")

def main : IO Unit :=
  runLoop ({ job := { tasks := [], ext := [] }, cl := { workers := [] }, sys := Sys.init { tasks := [], ext := [] } { workers := [] } } : DState) ctrlStep
