import EkwVerif.Drive.CtrlCommon
open Lean EkwVerif.Drive EkwVerif.Ctrl EkwVerif.DriveCtrl

def ctrlStep (d : DState) (j : Json) : DState × Json :=
  match getStr j "op" with
  | "init" =>
    let job := pJob j
    let cl := pCluster j
    let d' : DState := { job := job, cl := cl, sys := Sys.init job cl, hidden := fun _ => false }
    (d', full d' (hypChecks j job cl) true)
  | "round" =>
    let oracle := (getArr j "asg").map pAsg
    let orders := (getArr j "asg").map pOrders
    let before := d.sys.env.log.length
    -- enter; if the loop exits we are done
    match step semStr d.job d.cl d.sys .enter with
    | none => (d, Json.mkObj [("enabled", toJson false)])
    | some s1 =>
      if s1.phase == .finished then
        let d' := { d with sys := s1 }; (d', full d' [("enabled", toJson true), ("cmds", Json.arr #[])] true)
      else
        let oracle := if s1.mayAssign then oracle else []
        -- state threaded through the round: (system, hidden outputs, mid-round executor steps still to replay, problems)
        let applyMid (st : Sys × Hidden × List (Nat × Json) × List String) : Sys × Hidden × List (Nat × Json) × List String := Id.run do
          let mut (s, hd, mid, notes) := st
          let mut go := true
          while go do
            match mid with
            | (k, op) :: rest =>
              if k ≤ s.env.log.length - before then
                match envOpN d.job d.cl { sys := s, hidden := hd } op with
                | some x' => s := x'.sys; hd := x'.hidden; mid := rest
                | none => notes := notes ++ [s!"mid-round executor step not enabled in the model: {op.compress}"]; mid := rest
              else go := false
            | [] => go := false
          return (s, hd, mid, notes)
        let run1 (st : Sys × Hidden × List (Nat × Json) × List String) (stp : Step) :=
          let (s, hd, mid, notes) := st
          ((step semStr d.job d.cl s stp).getD s, hd, mid, notes)
        let st0 : Sys × Hidden × List (Nat × Json) × List String := (s1, d.hidden, pMid j, [])
        let st2 := (oracle.zip (orders ++ List.replicate oracle.length [])).foldl (fun st ao =>
          let st := applyMid st
          let (s, hd, mid, notes) := st
          let notes := notes ++ scanMismatches s.ctl ao.1 ao.2
          run1 (s, hd, mid, notes) (.assign ao.1)) st0
        let s3 := (run1 st2 .endAssign).1
        let st3 := (s3, st2.2)
        let drainS (s : Sys) (stp : Step) (fuel : Nat) : Sys := Id.run do
          let mut s := s
          for _ in [0:fuel] do
            match step semStr d.job d.cl s stp with
            | some s' => s := s'
            | none => break
          return s
        let s4 := drainS s3 .plan1 (oracle.length + 1)
        let s5 := (step semStr d.job d.cl s4 .endPlan).getD s4
        -- flush: executor steps may be interleaved before every fetch and before the purges of every dataset
        let stF : Sys × Hidden × List (Nat × Json) × List String := Id.run do
          let mut st : Sys × Hidden × List (Nat × Json) × List String := (s5, st3.2)
          for _ in [0:s5.ctl.fetchQ.length + 1] do
            st := applyMid st
            match step semStr d.job d.cl st.1 .flushF1 with
            | some s' => st := (s', st.2)
            | none => break
          return st
        let s7 := (step semStr d.job d.cl stF.1 .endFlushF).getD stF.1
        let stP : Sys × Hidden × List (Nat × Json) × List String := Id.run do
          let mut st : Sys × Hidden × List (Nat × Json) × List String := (s7, stF.2)
          for _ in [0:s7.ctl.purgeQ.length + 1] do
            st := applyMid st
            match step semStr d.job d.cl st.1 .flushP1 with
            | some s' => st := (s', st.2)
            | none => break
          return st
        -- whatever is left happened after the last command of the round
        let stE := applyMid (stP.1, stP.2.1, stP.2.2.1.map (fun p => (0, p.2)), stP.2.2.2)
        let s9 := (step semStr d.job d.cl stE.1 .endFlush).getD stE.1
        let d' := { d with sys := compactSys d.job d.cl s9, hidden := stE.2.1 }
        let midStates := if getBool j "wantMid" then [("ctlA", digestCtl d.job d.cl s3.ctl), ("ctlP", digestCtl d.job d.cl s5.ctl)] else []
        (d', full d' ([("enabled", toJson true), ("cmds", Json.arr ((s9.env.log.drop before).map jCmd).toArray),
          ("notes", strs stE.2.2.2)] ++ midStates))
  | "env" =>
    match envOpN d.job d.cl { sys := d.sys, hidden := d.hidden } j with
    | none => (d, Json.mkObj [("enabled", toJson false)])
    | some x' =>
      let d' := { d with sys := x'.sys, hidden := x'.hidden }
      (d', Json.mkObj [("enabled", toJson true), ("env", digestEnv d.job d.cl x'.sys.env)])
  | "deliver" =>
    let evs := (getArr j "events").filterMap pEvent
    if evs.length != (getArr j "events").length then (d, Json.str "bad-event") else
    match (stepN semStr d.job d.cl { sys := d.sys, hidden := d.hidden } (.base (.recv evs))).map (·.sys) with
    | none => (d, Json.mkObj [("enabled", toJson false)])
    | some s1 =>
      let s2 : Sys := Id.run do
        let mut s := s1
        for _ in [0:evs.length + 1] do
          match step semStr d.job d.cl s .notify1 with
          | some s' => s := s'
          | none => break
        return s
      let s3 := (step semStr d.job d.cl s2 .endNotify).getD s2
      let d' := { d with sys := compactSys d.job d.cl s3 }; (d', full d' [("enabled", toJson true)])
  | _ => (d, Json.str "bad-op")

def main : IO Unit :=
  runLoop ({ job := { tasks := [], ext := [] }, cl := { workers := [] }, sys := Sys.init { tasks := [], ext := [] } { workers := [] } } : DState) ctrlStep
