import EkwVerif.Drive.Util
import EkwVerif.Model.Gateway
import EkwVerif.Model.Base64
open Lean EkwVerif.Drive EkwVerif.Gateway

def pairs (l : List Json) : List (String × String) :=
  l.map (fun p => match asArr p with | [a, b] => (asStr a, asStr b) | _ => ("", ""))

def evOf (j : Json) : Ev :=
  match getStr j "k" with
  | "submit" => .fe (.submit ((getArr j "candidates").map asStr) (getBool j "fail"))
  | "progress" => .fe (.progressOf ((getArr j "ids").map asStr))
  | "result" => .fe (.getResult (getStr j "job") (getStr j "ds"))
  | "shutdown" => .fe .shutdown
  | "malformed" => .fe .malformed
  | "report" => .ctrl (getStr j "owner") (.report { job := getStr j "job", status := getOptStr j "status", ts := getInt j "ts",
                                                     results := pairs (getArr j "results") })
  | _ => .ctrl (getStr j "owner") .garbage

def outJson : Out → Json
  | .spawned r => Json.mkObj [("spawned", optStr r)]
  | .progress none => Json.mkObj [("progress", Json.null)]
  | .progress (some l) => Json.mkObj [("progress", Json.arr (l.map (fun p => Json.arr #[Json.str p.1, Json.str p.2])).toArray)]
  | .result r => Json.mkObj [("result", optStr r)]
  | .bye => Json.mkObj [("bye", Json.bool true)]
  | .rejected => Json.mkObj [("rejected", Json.bool true)]
  | .reported .ok => Json.mkObj [("reported", Json.str "ok")]
  | .reported .error => Json.mkObj [("reported", Json.str "error")]
  | .notRead => Json.str "notRead"
  | .died => Json.mkObj [("died", Json.bool true)]
  | .lost => Json.str "lost"
  | .notServed => Json.str "notServed"

def phaseStr : Phase → String
  | .running => "running"
  | .stopped => "stopped"
  | .dead => "dead"

def hexVal (c : Char) : Nat :=
  if c.isDigit then c.toNat - 48 else if c.toNat ≥ 97 ∧ c.toNat ≤ 102 then c.toNat - 87 else 0

def bytesOfHex : List Char → List Nat
  | a :: b :: r => (hexVal a * 16 + hexVal b) :: bytesOfHex r
  | _ => []

def c18Step (g : G) (j : Json) : G × Json :=
  match getStr j "op" with
  | "reset" => (G.init, Json.str "reset")
  | "poll" =>
    let r := poll g ((getArr j "events").map evOf)
    (r.g, Json.mkObj [("outs", Json.arr (r.outs.map outJson).toArray), ("phase", Json.str (phaseStr r.g.phase))])
  | "b64" =>
    let bs := bytesOfHex (getStr j "hex").toList
    let txt := EkwVerif.B64.encode bs
    (g, Json.mkObj [("text", Json.str (String.ofList txt)), ("back", Json.bool (EkwVerif.B64.decode txt == some bs))])
  | _ => (g, Json.str "bad-op")

def main : IO Unit := runLoop G.init c18Step
