import EkwVerif.Drive.Util
import EkwVerif.Model.Gateway
open Lean EkwVerif.Drive EkwVerif.Gateway

def pairs (l : List Json) : List (String × String) :=
  l.map (fun p => match asArr p with | [a, b] => (asStr a, asStr b) | _ => ("", ""))

def c18Step (s : St) (j : Json) : St × Json :=
  match getStr j "op" with
  | "reset" => ([], Json.str "reset")
  | "spawn" =>
    let (s', r) := spawn s ((getArr j "candidates").map asStr)
    (s', Json.mkObj [("spawned", optStr r)])
  | "report" =>
    let r : Report := { job := getStr j "job", status := getOptStr j "status", ts := getInt j "ts",
                        results := pairs (getArr j "results") }
    let (s', o) := report s r
    (s', Json.mkObj [("reported", Json.str (match o with | .ok => "ok" | .notRead => "notRead" | .keyError => "keyError"))])
  | "progress" =>
    match progressOf s ((getArr j "ids").map asStr) with
    | none => (s, Json.mkObj [("progress", Json.null)])
    | some l => (s, Json.mkObj [("progress", Json.arr (l.map (fun p => Json.arr #[Json.str p.1, Json.str p.2])).toArray)])
  | "result" => (s, Json.mkObj [("result", optStr (getResult s (getStr j "job") (getStr j "ds")))])
  | _ => (s, Json.str "bad-op")

def main : IO Unit := runLoop ([] : St) c18Step
