import EkwVerif.Drive.Util
import EkwVerif.Model.ExecLayer
import EkwVerif.Model.BridgeInit
open Lean EkwVerif.Drive EkwVerif.Worker EkwVerif.ExecLayer

def pDs (j : Json) : Ds := match asArr j with | [a, b] => (asNat a, asNat b) | _ => (0, 0)
def jDs (d : Ds) : Json := Json.arr #[toJson d.1, toJson d.2]
def jDsl (l : List Ds) : Json := Json.arr (l.map jDs).toArray
def getJ (j : Json) (k : String) : Json := (j.getObjVal? k).toOption.getD Json.null
def optNat (j : Json) : Option Nat := match j with | .null => none | _ => (j.getNat?).toOption
def jOptNat : Option Nat → Json
  | none => Json.null
  | some n => toJson n

def pTask (j : Json) : Task :=
  { inputs := (getArr j "inputs").map pDs, nOut := getNat j "nOut", failAt := optNat (getJ j "failAt") }

def jX : XMsg → Json
  | .task w _ ts pub => Json.mkObj [("m", "task"), ("w", toJson w), ("tasks", nats ts), ("pub", jDsl pub)]
  | .purge d => Json.mkObj [("m", "purge"), ("ds", jDs d)]
  | .shutdown => Json.mkObj [("m", "xshutdown")]
  | .published d f => Json.mkObj [("m", "pub"), ("ds", jDs d), ("from", if f then "d" else "w")]
  | .taskFail w t => Json.mkObj [("m", "taskfail"), ("w", toJson w), ("task", jOptNat t)]
  | .transmitFail => Json.mkObj [("m", "tfail")]

def jW (k : Nat) : WMsg → Json
  | .task _ ts pub => Json.mkObj [("m", "task"), ("w", toJson k), ("tasks", nats ts), ("pub", jDsl pub)]
  | .published d => Json.mkObj [("m", "pub"), ("ds", jDs d)]
  | .purge d => Json.mkObj [("m", "purge"), ("ds", jDs d)]
  | .shutdown => Json.mkObj [("m", "shutdown")]

def jD : DMsg → Json
  | .payload d => Json.mkObj [("m", "payload"), ("ds", jDs d)]
  | .purge d => Json.mkObj [("m", "purge"), ("ds", jDs d)]

def jC : CMsg → Json
  | .published d f => Json.mkObj [("m", "pub"), ("ds", jDs d), ("from", if f then "d" else "w")]
  | .taskFail w t => Json.mkObj [("m", "taskfail"), ("w", toJson w), ("task", jOptNat t)]
  | .transmitFail => Json.mkObj [("m", "tfail")]
  | .xfail why => Json.mkObj [("m", "xfail"), ("why", why)]
  | .xexit => Json.mkObj [("m", "xexit")]

def tag1 (t : String) : Json := Json.arr #[Json.str t]
def tag2 (t : String) (a : Json) : Json := Json.arr #[Json.str t, a]

/-- `wk` = the worker a worker-side `recv` belongs to (for the "w" field of a task message) -/
def jOp (wk : Nat) : Op → Option Json
  | .skip => some (tag1 "skip")
  | .recvX m => some (tag2 "recv" (jX m))
  | .recvW m => some (tag2 "recv" (jW wk m))
  | .recvD m => some (tag2 "recv" (jD m))
  | .sendX m => some (Json.arr #["send", "x", jX m])
  | .sendW k m => some (Json.arr #["send", Json.str s!"w{k}", jW k m])
  | .sendD m => some (Json.arr #["send", "d", jD m])
  | .sendC m => some (Json.arr #["send", "ctrl", jC m])
  | .alloc d => some (tag2 "alloc" (jDs d))
  | .allocConflict d => some (tag2 "alloc-conflict" (jDs d))
  | .close d => some (tag2 "close" (jDs d))
  | .closeFail d => some (tag2 "close-fail" (jDs d))
  | .get d => some (tag2 "get" (jDs d))
  | .getMiss d => some (tag2 "get-miss" (jDs d))
  | .shmPurge d => some (tag2 "shm-purge" (jDs d))
  | .pop d => some (tag2 "pop" (jDs d))
  | .exec ts => some (tag2 "exec" (nats ts))
  | .execEnd => some (tag1 "exec-end")
  | .stop => some (tag1 "stop")
  | .died why => some (tag2 "died" why)
  | .submit d => some (tag2 "submit" (jDs d))
  | .ignore _ => none
  | .jobDone => some (tag1 "job-done")
  | .terminated => some (tag1 "terminated")

def jWS (ws : WS) : Json :=
  if ws.dead then Json.mkObj [("dead", true)] else
  Json.mkObj [("dead", false), ("avail", jDsl ws.w.avail), ("missing", jDsl ws.w.missing),
    ("waiting", match ws.pend with | some p => nats p.1 | none => Json.null),
    ("local", jDsl ws.loc), ("bufs", jDsl ws.bufs), ("running", !ws.run.isEmpty)]

def jDigest (s : Host) : Json :=
  Json.mkObj [("datasets", jDsl s.datasets), ("xdead", s.xdead), ("shmR", jDsl s.shmR), ("shmW", jDsl s.shmW),
    ("invalid", jDsl s.invalid), ("xq", toJson s.xq.length), ("dq", toJson s.dq.length),
    ("inbox", nats ((List.range s.nW).map fun k => (s.wk k).inbox.length)), ("jobs", toJson s.jobs.length),
    ("w", Json.arr ((List.range s.nW).map fun k => jWS (s.wk k)).toArray)]

def pCtrl (j : Json) : CtrlMsg :=
  match getStr j "m" with
  | "task" => .task (getNat j "w") (getNat j "id") ((getArr j "tasks").map asNat) ((getArr j "pub").map pDs)
  | "purge" => .purge (pDs (getJ j "ds"))
  | _ => .shutdown

def pPick (j : Json) : Option Pick :=
  match getStr j "a" with
  | "c" => some (.ctrl (pCtrl (getJ j "m")))
  | "n" => some (.net (pDs (getJ j "ds")))
  | "x" => some (.x (getNat j "i"))
  | "w" => some (.w (getNat j "k") (getNat j "i"))
  | "d" => some (.d (getNat j "i"))
  | "j" => some (.j (getNat j "i"))
  | _ => none

def jEntry (e : ExecEntry) : Json :=
  Json.mkObj [("w", toJson e.k), ("tasks", nats e.ts), ("req", jDsl e.req),
    ("never", jDsl (e.req.filter fun d => !e.ever.contains d)), ("unreadable", jDsl (e.req.filter fun d => !e.shmR.contains d))]

def xStep (s : Host) (j : Json) : Host × Json :=
  match getStr j "op" with
  | "reset" => (Host.init ((getArr j "job").map pTask) (getNat j "nW"), Json.str "reset")
  | "pick" =>
    match pPick j with
    | none => (s, Json.mkObj [("driver_error", "bad pick")])
    | some p =>
      let ok := match p with | .ctrl m => ctrlOK s m | _ => true
      let r := pick s p
      let wk := match p with | .w k _ => k | _ => 0
      (r.1, Json.mkObj [("ops", Json.arr (r.2.filterMap (jOp wk)).toArray), ("dig", jDigest r.1), ("ok", ok)])
  | "log" => (s, Json.mkObj [("log", Json.arr (s.execLog.map jEntry).toArray), ("purgedC", jDsl s.purgedC), ("ever", jDsl s.ever),
      ("required", Json.arr (((getArr j "seqs").map fun q => jDsl (required s.job ((asArr q).map asNat))).toArray))])
  | "gpu" =>
    let nW := getNat j "nW"
    let gpus := getNat j "gpus"
    (s, Json.mkObj [("reg", Json.arr ((regGpu gpus nW).map fun p => Json.arr #[toJson p.1, toJson (if p.2 then 1 else 0 : Nat)]).toArray),
      ("sees", Json.arr ((List.range nW).map fun i => nats (visible (cudaFields i))).toArray)])
  | "bridge_init" =>
    -- the registration messages in the order Bridge.__init__ received them: [host, nW, CASCADE_GPU_COUNT]
    let msgs := (getArr j "regs").map fun r => match asArr r with
      | [h, nW, g] => EkwVerif.BridgeInit.execReg (asNat h) (asNat nW) (asNat g)
      | _ => EkwVerif.BridgeInit.execReg 0 0 0
    let st := EkwVerif.BridgeInit.bridgeInit msgs
    (s, Json.mkObj [("hosts", nats st.hosts),
      ("env", Json.arr (st.env.map fun p => Json.arr #[toJson p.1.host, toJson p.1.idx, toJson (if p.2 then 1 else 0 : Nat)]).toArray)])
  | _ => (s, Json.mkObj [("driver_error", "bad op")])

def main : IO Unit := runLoop (Host.init [] 0) xStep
