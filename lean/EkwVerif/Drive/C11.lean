import EkwVerif.Drive.Util
import EkwVerif.Model.Graph
open Lean EkwVerif.Drive EkwVerif.Graph
abbrev GName := EkwVerif.Graph.Name

def nameOf (j : Json) : GName := (asStr j).toList
def jName (n : GName) : Json := Json.str (String.ofList n)

def parseRef (x : Json) : GName × Ref :=
  match asArr x with
  | [k, i, o] => (nameOf k, (asNat i, nameOf o))
  | _ => ([], (0, []))

/-- payload: a number (atom) or ["fuse", child, cin, parent, pout, [pins], [pouts]] -/
partial def parsePayload (j : Json) : Payload :=
  match j with
  | .arr a =>
    match a.toList with
    | [_, c, cin, p, pout, pins, pouts] =>
      .fused (parsePayload c) (nameOf cin) (parsePayload p) (nameOf pout) ((asArr pins).map nameOf) ((asArr pouts).map nameOf)
    | _ => .atom 0
  | _ => .atom (asNat j)

def payloadJson : Payload → Json
  | .atom n => toJson n
  | .fused c cin p pout pins pouts =>
    Json.arr #[Json.str "fuse", payloadJson c, jName cin, payloadJson p, jName pout,
               Json.arr (pins.map jName).toArray, Json.arr (pouts.map jName).toArray]

def parseNode (j : Json) : Node :=
  { name := (getStr j "name").toList, outputs := (getArr j "outputs").map nameOf,
    payload := parsePayload (j.getObjValD "payload"), inputs := (getArr j "inputs").map parseRef }

def parseGraph (j : Json) : Graph :=
  { nodes := (getArr j "nodes").map parseNode, sinks := (getArr j "sinks").map asNat }

def nodeJson (n : Node) : Json :=
  Json.mkObj [("name", jName n.name), ("outputs", Json.arr (n.outputs.map jName).toArray),
              ("payload", payloadJson n.payload),
              ("inputs", Json.arr (n.inputs.map fun x => Json.arr #[jName x.1, toJson x.2.1, jName x.2.2]).toArray)]

def graphJson (g : Graph) : Json :=
  Json.mkObj [("nodes", Json.arr (g.nodes.map nodeJson).toArray), ("sinks", nats g.sinks)]

def errStr : Err → String
  | .dangling => "dangling"
  | .noOutput => "noOutput"
  | .noCallback => "noCallback"
  | .keyError => "keyError"
  | .assertion => "assertion"

def result (r : Except Err Json) (extra : List (String × Json) := []) : Json :=
  match r with
  | .ok j => Json.mkObj ([("ok", j)] ++ extra)
  | .error e => Json.mkObj ([("err", Json.str (errStr e))] ++ extra)


/-- renaming function of the harness: explicit table, otherwise a prefix -/
def renameFun (j : Json) : GName → GName :=
  let table := (getArr j "table").map fun p => match asArr p with | [a, b] => (nameOf a, nameOf b) | _ => ([], [])
  let pre := (getStr j "prefix").toList
  fun s => match table.lookup s with | some t => t | none => pre ++ s

/-- key function of the harness: by node name, with a default -/
def keyFun (j : Json) : Node → Nat :=
  let table := (getArr j "keys").map fun p => match asArr p with | [a, b] => (nameOf a, asNat b) | _ => ([], 0)
  let dflt := getNat j "default"
  fun n => match table.lookup n.name with | some k => k | none => dflt

/-- hash-free canonical cut name, the same string the harness substitutes for `CutEdge.name` -/
def cutNameC (c : CutEdge) : GName :=
  "__cut|".toList ++ (toString c.sourceKey).toList ++ "|".toList ++ c.sourceNode ++ "|".toList ++ c.sourceOutput ++ "|".toList ++
    (toString c.destKey).toList ++ "|".toList ++ c.destNode ++ "|".toList ++ c.destInput ++ "__".toList

def cutJson (c : CutEdge) : Json :=
  Json.arr #[toJson c.sourceKey, jName c.sourceNode, jName c.sourceOutput, toJson c.destKey, jName c.destNode, jName c.destInput]

def splitJson (r : SplitResult) : Json :=
  Json.mkObj [("nodes", Json.arr (r.nodes.map nodeJson).toArray), ("owner", nats r.owner),
              ("parts", Json.arr (r.parts.map fun p => Json.arr #[toJson p.1, nats p.2]).toArray),
              ("cuts", Json.arr (r.cuts.map cutJson).toArray)]

def parsePairs (j : Json) : Option (List (GName × GName)) :=
  match j with
  | .arr a => some (a.toList.map fun p => match asArr p with | [x, y] => (nameOf x, nameOf y) | _ => ([], []))
  | _ => none

/-- expander of the harness: by node name -/
def expandFun (j : Json) : Node → Option Expansion :=
  let table : List (GName × Expansion) := (getArr j "exp").map fun p =>
    match asArr p with
    | [nm, e] => (nameOf nm, { sub := asVisited (parseGraph (e.getObjValD "sub")), inputMap := parsePairs (e.getObjValD "imap"),
                               outputMap := parsePairs (e.getObjValD "omap") })
    | _ => ([], { sub := { nodes := [], sinks := [] }, inputMap := none, outputMap := none })
  fun n => table.lookup n.name

/-- acceptance predicate of the harness: mode "all" | "table" (parent names listed) | "linear" -/
def acceptFun (j : Json) : Node → GName → Node → GName → Bool :=
  let mode := getStr j "mode"
  let names := (getArr j "accept").map nameOf
  fun parent pout cur _cin =>
    match mode with
    | "all" => true
    | "table" => names.contains parent.name
    | "linear" => parent.isProcessor && cur.isProcessor && pout == defaultOutput && parent.outputs.length == 1 &&
                  cur.inputs.length == 1
    | _ => false

def c11Step (_ : Unit) (j : Json) : Unit × Json :=
  let g0 := parseGraph (j.getObjValD "g")
  match visitOrder g0 with
  | none => ((), Json.mkObj [("err", Json.str "noOrder")])      -- impossible on a well-formed graph (c11_traverse_terminates)
  | some ord =>
    let g := reorder g0 ord
    let x := [("order", nats ord)]
    let out : Json :=
      match getStr j "t" with
      | "copy" => result ((copyGraph g).map graphJson) x
      | "rename" => result ((renameGraph (renameFun j) g).map graphJson) x
      | "dedup" =>
        let pred : Node → Node → Bool :=
          match getStr j "pred" with
          | "payload+name" => fun a b => samePayload a b && a.name == b.name
          | "payload+name-length" => fun a b => samePayload a b && a.name.length == b.name.length
          | _ => samePayload
        result ((dedupGraph pred g).map graphJson) x
      | "expand" =>
        let ex := expandFun j
        let subs : List Json := (getArr j "exp").map fun p =>
          match asArr p with
          | [nm, e] => Json.arr #[nm, match visitOrder (parseGraph (e.getObjValD "sub")) with | some o => nats o | none => Json.null]
          | _ => Json.null
        let r := match getStr j "splicer" with
          | "tap" => expandGraphW tapSplice ex g
          | "first" => expandGraphW firstSplice ex g
          | _ => expandGraph ex g
        result (r.map graphJson)
          (x ++ [("domain", Json.bool (expandOK ex g.nodes)), ("suborders", Json.arr subs.toArray)])
      | "fuse" =>
        let r := match getStr j "inplace" with
          | "" => fuseGraph (inlineFuse (acceptFun j)) g
          | "none" => fuseGraph (inlineFuse (acceptFun j)) g
          | m =>
            let names := (getArr j "inplace_for").map nameOf
            -- "all": every answer mutates `current`; "table": those for the listed PARENT names
            fuseGraphM (inlineFuseM (acceptFun j) fun parent _ _ _ => m == "all" || names.contains parent.name) g
        result (r.map graphJson) x
      | "split" => result ((splitGraph (keyFun j) cutNameC g).map splitJson) x
      | "join" =>
        let more : List (GName × Graph) := (getArr j "more").map fun p =>
          match asArr p with
          | [ns, a] => (nameOf ns, asVisited (parseGraph a))
          | _ => ([], { nodes := [], sinks := [] })
        result ((joinNamespaced (((getStr j "ns").toList, g) :: more)).map graphJson) x
      | _ => Json.str "bad-op"
    ((), out)

def main : IO Unit := runLoop () c11Step
