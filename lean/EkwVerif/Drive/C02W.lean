import EkwVerif.Drive.Util
import EkwVerif.Model.Worker
open Lean EkwVerif.Drive EkwVerif.Worker

def pD (j : Json) : Ds := match asArr j with | [a, b] => (asNat a, asNat b) | _ => (0, 0)
def jD (d : Ds) : Json := Json.arr #[toJson d.1, toJson d.2]

def wStep (w : W) (j : Json) : W × Json :=
  if w.stopped && getStr j "op" != "reset" then (w, Json.mkObj [("out", Json.str "dead")]) else
  let m : Option Msg := match getStr j "op" with
    | "pub" => some (.published (pD ((j.getObjVal? "ds").toOption.getD Json.null)))
    | "purge" => some (.purge (pD ((j.getObjVal? "ds").toOption.getD Json.null)))
    | "task" => some (.taskSeq (getNat j "id") ((getArr j "req").map pD))
    | "shutdown" => some .shutdown
    | _ => none
  match m with
  | none => (W.init, Json.str "reset")
  | some m =>
    let (w', o) := step w m
    let w' := match o with | .raised _ => { w' with stopped := true } | _ => w'
    let jo := match o with
      | .nothing => Json.mkObj [("out", Json.str "nothing")]
      | .executed id => Json.mkObj [("out", Json.str "executed"), ("id", toJson id)]
      | .provided l => Json.mkObj [("out", Json.str "provided"), ("ds", Json.arr (l.map jD).toArray)]
      | .raised msg => Json.mkObj [("out", Json.str "raised"), ("msg", Json.str msg)]
      | .stop => Json.mkObj [("out", Json.str "stop")]
    (w', Json.mkObj [("o", jo), ("avail", Json.arr (w'.avail.map jD).toArray), ("missing", Json.arr (w'.missing.map jD).toArray),
      ("waiting", match w'.waiting with | none => Json.null | some p => toJson p.1)])

def main : IO Unit := runLoop W.init wStep
