/-
Line-protocol driver for C17 (library part; `Drive/C17.lean` is the entry point -- kept tiny so that `lean --run` has next
to nothing to elaborate: everything here is loaded from the .olean).

  shm api (the generated table `EkwVerif.Gen.shmApi` interpreted by `Model/Codec.lean`)
  {"op":"enc","cls":C,"vals":[V,...]}   V = {"i":"<decimal>"} | {"s":[code points]} | {"a":"printable ascii"}
      -> {"ok":"<hex>"} | {"err":E}
  {"op":"dec","hex":"<hex>"}
      -> {"ok":{"cls":C,"vals":[V,...]}} | {"err":E}
  {"op":"classes"} -> [{"cls":C,"fields":[...],"base":b,"response":b,"tag":"<hex>"|null}]
  {"op":"wire","dir":"c2s"|"s2c","cls":C,"vals":[V,...]}     encode, datagram transport into the receive buffer of the source, decode
      -> {"ok":{"cls":C,"vals":[V,...]}} | {"err":"encode:E"|"msgsize"|"decode:E"}
  {"op":"limits"} -> {"max_datagram":n,"server_recv":n,"client_recv":n}

  JSON encodings (Model/Json.lean); PV = Python value, DOC = document as parsed by Python's stdlib json from the real bytes
  {"op":"any","v":PV,"back":PV}  -> {"text":<hex of render (encAny v)>,"back":decAny .. == back,"native":b,"lossless":b,"refused":b} | {"err":K,..}
  {"op":"job","job":JOB,"real":DOC} -> {"text":hex,"reload":loadJob (dumpJob JOB) == JOB,"load_real":loadJob DOC == JOB,"native":b,"lossless":b} | {"err":K,..}
  {"op":"gwreq","req":REQ,"real":DOC} -> {"text":hex,"reload":b,"load_real":b} | {"err":K}
  {"op":"gwrsp","req":REQ,"rsp":RSP,"real":DOC} -> {"text":hex,"answers":b,"reload":b,"load_real":b}
      JOB = {"tasks":[[name,{"def":{..},"kw":[[k,PV]..],"ps":[[k,PV]..]}],..],"edges":[{"source":[t,o],"sink_task":s,"kw":k|null,"ps":"<decimal>"|null}],
             "serdes":[[type,ser,des]],"ext":[[t,o]]}   (every list in the order of the real dict / list)
-/
import EkwVerif.Drive.Util
import EkwVerif.Model.Codec
import EkwVerif.Model.Json
import EkwVerif.Gen.ShmApi
open Lean EkwVerif.Drive EkwVerif.Codec

/-! ### JSON encodings (Model/Json.lean) -/
section Job
open EkwVerif.Json hiding asArr asStr asInt asBool asObj optStr field

/-- documents as the harness sends them (parsed from the bytes the real code wrote by Python's stdlib `json`, an
independent parser, with the order of the keys and the kind of every number token kept):
null | true | false | {"i":"<decimal>"} | {"f":[neg,"<digits>",exp]} | {"s":str} | {"a":[..]} | {"o":[[key,doc],..]} -/
partial def docOfJson : Json → J
  | .null => .null
  | .bool b => .bool b
  | j =>
    match j.getObjVal? "i" with
    | .ok (.str s) => .int (s.toInt?.getD 0)
    | _ =>
      match j.getObjVal? "f" with
      | .ok (.arr #[.bool neg, .str d, e]) => .flt ⟨neg, d.toNat?.getD 0, (e.getInt?).toOption.getD 0⟩
      | _ =>
        match j.getObjVal? "s" with
        | .ok (.str s) => .str s
        | _ =>
          match j.getObjVal? "a" with
          | .ok (.arr a) => .arr (a.toList.map docOfJson)
          | _ =>
            match j.getObjVal? "o" with
            | .ok (.arr a) => .obj (a.toList.map (fun p => match p with
                | .arr #[.str k, v] => (k, docOfJson v)
                | _ => ("", .null)))
            | _ => .null

/-- Python values as the harness sends them:
null | true | false | {"i":"<decimal>"} | {"f":[neg,"<digits>",exp]} | {"nf":"inf"|"ninf"|"nan"} | {"s":str} | {"b":[bytes]}
| {"l":[..]} | {"t":[..]} | {"set":[..]} | {"fs":[..]} | {"d":[[key,value],..]} | {"n":[class,text]} | {"x":class} -/
partial def pyOfJson : Json → PyVal
  | .null => .none
  | .bool b => .bool b
  | j =>
    match j.getObjVal? "i" with
    | .ok (.str s) => .int (s.toInt?.getD 0)
    | _ =>
    match j.getObjVal? "f" with
    | .ok (.arr #[.bool neg, .str d, e]) => .float ⟨neg, d.toNat?.getD 0, (e.getInt?).toOption.getD 0⟩
    | _ =>
    match j.getObjVal? "nf" with
    | .ok (.str "inf") => .nonfinite .inf
    | .ok (.str "ninf") => .nonfinite .ninf
    | .ok (.str _) => .nonfinite .nan
    | _ =>
    match j.getObjVal? "s" with
    | .ok (.str s) => .str s
    | _ =>
    match j.getObjVal? "b" with
    | .ok (.arr a) => .bytes (a.toList.map asNat)
    | _ =>
    match j.getObjVal? "l" with
    | .ok (.arr a) => .list (a.toList.map pyOfJson)
    | _ =>
    match j.getObjVal? "t" with
    | .ok (.arr a) => .tuple (a.toList.map pyOfJson)
    | _ =>
    match j.getObjVal? "set" with
    | .ok (.arr a) => .set (a.toList.map pyOfJson)
    | _ =>
    match j.getObjVal? "fs" with
    | .ok (.arr a) => .frozenset (a.toList.map pyOfJson)
    | _ =>
    match j.getObjVal? "d" with
    | .ok (.arr a) => .dict (a.toList.map (fun p => match p with
        | .arr #[k, v] => (pyOfJson k, pyOfJson v)
        | _ => (.none, .none)))
    | _ =>
    match j.getObjVal? "n" with
    | .ok (.arr #[.str c, .str t]) => .native c t
    | _ =>
    match j.getObjVal? "x" with
    | .ok (.str c) => .opaque c
    | _ => .opaque "?"

partial def beqPy : PyVal → PyVal → Bool
  | .none, .none => true
  | .bool a, .bool b => a == b
  | .int a, .int b => a == b
  | .float a, .float b => a == b
  | .nonfinite a, .nonfinite b => a == b
  | .str a, .str b => a == b
  | .bytes a, .bytes b => a == b
  | .list a, .list b => a.length == b.length && (a.zip b).all (fun (x, y) => beqPy x y)
  | .tuple a, .tuple b => a.length == b.length && (a.zip b).all (fun (x, y) => beqPy x y)
  | .set a, .set b => a.length == b.length && (a.zip b).all (fun (x, y) => beqPy x y)
  | .frozenset a, .frozenset b => a.length == b.length && (a.zip b).all (fun (x, y) => beqPy x y)
  | .dict a, .dict b => a.length == b.length && (a.zip b).all (fun (x, y) => beqPy x.1 y.1 && beqPy x.2 y.2)
  | .native a b, .native c d => a == c && b == d
  | .opaque a, .opaque b => a == b
  | _, _ => false

def beqStatics (a b : List (String × PyVal)) : Bool :=
  a.length == b.length && (a.zip b).all (fun (x, y) => x.1 == y.1 && beqPy x.2 y.2)

def beqTask (a b : TaskInst) : Bool := a.defn == b.defn && beqStatics a.kw b.kw && beqStatics a.ps b.ps

def beqJob (a b : JobInst) : Bool :=
  a.tasks.length == b.tasks.length && (a.tasks.zip b.tasks).all (fun (x, y) => x.1 == y.1 && beqTask x.2 y.2) &&
  a.edges == b.edges && a.serdes == b.serdes && a.ext == b.ext

def beqOptJob : Option JobInst → Option JobInst → Bool
  | none, none => true
  | some a, some b => beqJob a b
  | _, _ => false

def beqReq : GwReq → GwReq → Bool
  | .submit a, .submit b => a.benchmark == b.benchmark && a.envvars == b.envvars && beqOptJob a.job b.job &&
      a.workersPerHost == b.workersPerHost && a.hosts == b.hosts && a.useSlurm == b.useSlurm
  | .progress a, .progress b => a == b
  | .result a b, .result c d => a == c && b == d
  | .shutdown, .shutdown => true
  | _, _ => false

def beqRsp : GwRsp → GwRsp → Bool
  | .submit a b, .submit c d => a == c && b == d
  | .progress a b, .progress c d => a == c && b == d
  | .result a b, .result c d => a == c && b == d
  | .shutdown a, .shutdown b => a == b
  | _, _ => false

def jOptStr (j : Json) (k : String) : Option String := getOptStr j k
def jOptIntS (j : Json) (k : String) : Option Int :=
  match j.getObjVal? k with
  | .ok (.str s) => s.toInt?
  | _ => none
def jIntS (j : Json) (k : String) : Int := (jOptIntS j k).getD 0
def strPairs (l : List Json) : List (String × String) :=
  l.map (fun p => match asArr p with | [a, b] => (asStr a, asStr b) | _ => ("", ""))
def pyPairs (l : List Json) : List (String × PyVal) :=
  l.map (fun p => match asArr p with | [a, b] => (asStr a, pyOfJson b) | _ => ("", .none))
def dsOf (j : Json) : DatasetId := match asArr j with | [a, b] => ⟨asStr a, asStr b⟩ | _ => ⟨"", ""⟩
def sub (j : Json) (k : String) : Json := (j.getObjVal? k).toOption.getD Json.null

def jobOfJson (j : Json) : JobInst :=
  { tasks := (getArr j "tasks").map (fun p => match asArr p with
      | [n, t] =>
        let d := sub t "def"
        (asStr n, { defn := { entrypoint := getStr d "entrypoint", func := jOptStr d "func",
                              environment := (getArr d "environment").map asStr,
                              inputSchema := strPairs (getArr d "input_schema"),
                              outputSchema := strPairs (getArr d "output_schema"),
                              needsGpu := getBool d "needs_gpu" },
                    kw := pyPairs (getArr t "kw"), ps := pyPairs (getArr t "ps") })
      | _ => ("", ⟨⟨"", none, [], [], [], false⟩, [], []⟩)),
    edges := (getArr j "edges").map (fun e =>
      { source := dsOf (sub e "source"), sinkTask := getStr e "sink_task",
        kw := jOptStr e "kw", ps := jOptIntS e "ps" }),
    serdes := (getArr j "serdes").map (fun p => match asArr p with
      | [a, b, c] => (asStr a, (asStr b, asStr c)) | _ => ("", ("", ""))),
    ext := (getArr j "ext").map dsOf }

def reqOfJson (j : Json) : GwReq :=
  match getStr j "cls" with
  | "SubmitJobRequest" =>
    let s := sub j "job"
    .submit { benchmark := jOptStr s "benchmark_name", envvars := strPairs (getArr s "envvars"),
              job := (match s.getObjVal? "job_instance" with
                      | .ok .null => none
                      | .ok ji => some (jobOfJson ji)
                      | _ => none),
              workersPerHost := jIntS s "workers_per_host", hosts := jIntS s "hosts", useSlurm := getBool s "use_slurm" }
  | "JobProgressRequest" => .progress ((getArr j "job_ids").map asStr)
  | "ResultRetrievalRequest" => .result (getStr j "job_id") (dsOf (sub j "dataset_id"))
  | _ => .shutdown

def rspOfJson (j : Json) : GwRsp :=
  match getStr j "cls" with
  | "SubmitJobResponse" => .submit (jOptStr j "job_id") (jOptStr j "error")
  | "JobProgressResponse" => .progress (strPairs (getArr j "progresses")) (jOptStr j "error")
  | "ResultRetrievalResponse" => .result (jOptStr j "result") (jOptStr j "error")
  | _ => .shutdown (jOptStr j "error")

def encErrName : EncErr → String
  | .type => "type" | .key => "key" | .intRange => "int-range"

def hexDigit' (n : Nat) : Char := "0123456789abcdef".toList.getD n '0'
def utf8Hex (s : String) : String :=
  String.ofList (s.toUTF8.toList.foldr (fun b acc => hexDigit' (b.toNat / 16) :: hexDigit' (b.toNat % 16) :: acc) [])

/-- {"op":"any","v":PV,"back":PV} -> {"text":<hex of the text orjson writes>,"back":decAny == back,
"native":b,"lossless":b,"refused":b} | {"err":kind,...} -/
def anyStep (j : Json) : Json :=
  let v := pyOfJson (sub j "v")
  let flags := [("native", Json.bool (Native v)), ("lossless", Json.bool (Lossless v)), ("refused", Json.bool (Refused v))]
  match encAny v with
  | .error e => Json.mkObj ([("err", Json.str (encErrName e))] ++ flags)
  | .ok d => Json.mkObj ([("text", Json.str (utf8Hex (render d))), ("back", Json.bool (beqPy (decAny d) (pyOfJson (sub j "back"))))] ++ flags)

/-- {"op":"job","job":JOB,"real":DOC} -> {"text":hex,"reload":loadJob (dumpJob JOB) == JOB,"load_real":loadJob DOC == JOB,
"native":b,"lossless":b} | {"err":kind} -/
def jobStep (j : Json) : Json :=
  let job := jobOfJson (sub j "job")
  let flags := [("native", Json.bool (JobNative job)), ("lossless", Json.bool (JobLossless job))]
  match dumpJob job with
  | .error e => Json.mkObj ([("err", Json.str (encErrName e))] ++ flags)
  | .ok d =>
    Json.mkObj ([("text", Json.str (utf8Hex (render d))),
                 ("reload", Json.bool (match loadJob d with | some j2 => beqJob j2 job | none => false)),
                 ("load_real", Json.bool (match loadJob (docOfJson (sub j "real")) with | some j2 => beqJob j2 job | none => false))] ++ flags)

/-- {"op":"gwreq","req":REQ,"real":DOC} -> {"text":hex,"reload":b,"load_real":b} | {"err":kind} -/
def gwReqStep (j : Json) : Json :=
  let r := reqOfJson (sub j "req")
  match dumpReq r with
  | .error e => Json.mkObj [("err", Json.str (encErrName e))]
  | .ok d =>
    Json.mkObj [("text", Json.str (utf8Hex (render d))),
                ("reload", Json.bool (match loadReq d with | some r2 => beqReq r2 r | none => false)),
                ("load_real", Json.bool (match loadReq (docOfJson (sub j "real")) with | some r2 => beqReq r2 r | none => false))]

/-- {"op":"gwrsp","req":REQ,"rsp":RSP,"real":DOC} -> {"text":hex,"reload":b,"load_real":b,"answers":b} -/
def gwRspStep (j : Json) : Json :=
  let q := reqOfJson (sub j "req")
  let r := rspOfJson (sub j "rsp")
  let d := dumpRsp r
  Json.mkObj [("text", Json.str (utf8Hex (render d))), ("answers", Json.bool (r.answers q)),
              ("reload", Json.bool (match loadRsp q d with | some r2 => beqRsp r2 r | none => false)),
              ("load_real", Json.bool (match loadRsp q (docOfJson (sub j "real")) with | some r2 => beqRsp r2 r | none => false))]
end Job

def hexDigit (n : Nat) : Char := "0123456789abcdef".toList.getD n '0'

def toHex (bs : Bytes) : String :=
  String.ofList (bs.foldr (fun b acc => hexDigit (b / 16 % 16) :: hexDigit (b % 16) :: acc) [])

def hexVal (c : Char) : Nat :=
  if '0' ≤ c ∧ c ≤ '9' then c.toNat - '0'.toNat
  else if 'a' ≤ c ∧ c ≤ 'f' then c.toNat - 'a'.toNat + 10
  else 0

def fromHexL : List Char → Bytes
  | a :: b :: rest => (hexVal a * 16 + hexVal b) :: fromHexL rest
  | _ => []

def fromHex (s : String) : Bytes := fromHexL s.toList

def errName : Err → String
  | .overflow => "overflow" | .unicode => "unicode" | .type => "type"
  | .value => "value" | .key => "key" | .arity => "arity"

def valOfJson (j : Json) : Val :=
  match j.getObjVal? "i" with
  | .ok (.str s) => .int (s.toInt?.getD 0)
  | _ =>
    match j.getObjVal? "a" with
    | .ok (.str s) => .str (s.toList.map Char.toNat)     -- compact form: printable ASCII
    | _ => .str ((getArr j "s").map asNat)

def printable (cs : List Nat) : Bool := !cs.isEmpty && cs.all (fun c => 32 ≤ c && c < 127 && c != 34 && c != 92)

def valToJson : Val → Json
  | .int n => Json.mkObj [("i", Json.str (toString n))]
  | .str cs =>
    if printable cs then Json.mkObj [("a", Json.str (String.ofList (cs.map Char.ofNat)))]
    else Json.mkObj [("s", nats cs)]

def errJson (e : Err) : Json := Json.mkObj [("err", Json.str (errName e))]

def c17Step (u : Unit) (j : Json) : Unit × Json :=
  match getStr j "op" with
  | "enc" =>
    let m : Msg := { cls := getStr j "cls", vals := (getArr j "vals").map valOfJson }
    match encode EkwVerif.Gen.shmApi m with
    | .ok bs => (u, Json.mkObj [("ok", Json.str (toHex bs))])
    | .error e => (u, errJson e)
  | "dec" =>
    match decode EkwVerif.Gen.shmApi (fromHex (getStr j "hex")) with
    | .ok m => (u, Json.mkObj [("ok", Json.mkObj [("cls", Json.str m.cls), ("vals", Json.arr (m.vals.map valToJson).toArray)])])
    | .error e => (u, errJson e)
  | "classes" =>
    (u, Json.arr (EkwVerif.Gen.shmApi.msgs.map (fun s => Json.mkObj [
      ("cls", Json.str s.cls), ("fields", strs s.fields), ("base", Json.bool s.isBase),
      ("response", Json.bool s.isResponse),
      ("tag", match EkwVerif.Gen.shmApi.c2b s.cls with | some t => Json.str (toHex t) | none => Json.null)])).toArray)
  | "wire" =>
    let m : Msg := { cls := getStr j "cls", vals := (getArr j "vals").map valOfJson }
    let limit := if getStr j "dir" == "s2c" then EkwVerif.Gen.shmClientRecv else EkwVerif.Gen.shmServerRecv
    match wire EkwVerif.Gen.shmApi limit m with
    | .ok m' => (u, Json.mkObj [("ok", Json.mkObj [("cls", Json.str m'.cls), ("vals", Json.arr (m'.vals.map valToJson).toArray)])])
    | .error (.encode e) => (u, Json.mkObj [("err", Json.str ("encode:" ++ errName e))])
    | .error .msgsize => (u, Json.mkObj [("err", Json.str "msgsize")])
    | .error (.decode e) => (u, Json.mkObj [("err", Json.str ("decode:" ++ errName e))])
  | "limits" => (u, Json.mkObj [("max_datagram", toJson maxDatagram), ("server_recv", toJson EkwVerif.Gen.shmServerRecv),
                                ("client_recv", toJson EkwVerif.Gen.shmClientRecv)])
  | "any" => (u, anyStep j)
  | "job" => (u, jobStep j)
  | "gwreq" => (u, gwReqStep j)
  | "gwrsp" => (u, gwRspStep j)
  | _ => (u, Json.str "bad-op")
