/-
Line-protocol driver for the C05 model (Model/Failure.lean + Gen/Health.lean + Gen/ShmEntry.lean).
One JSON object per line in, one per line out; stateless (every op carries its state).
-/
import EkwVerif.Drive.Util
import EkwVerif.Model.Failure
import EkwVerif.Gen.Health
import EkwVerif.Gen.ShmEntry
open Lean EkwVerif.Drive EkwVerif.Failure

def optInt (j : Json) (k : String) : Option Int :=
  match j.getObjVal? k with
  | .ok (.num n) => if n.exponent == 0 then some n.mantissa else none
  | _ => none

def optIntJ : Option Int → Json
  | none => Json.null
  | some i => toJson i

def asBool (j : Json) : Bool := match j with | .bool b => b | _ => false

def handleOf (j : Json) : Handle :=
  match j with
  | .str _ => .notStarted
  | _ => .proc (optInt j "exit") (getBool j "stuck")

def handleJ : Handle → Json
  | .notStarted => Json.str "ns"
  | .proc e s => Json.mkObj [("exit", optIntJ e), ("stuck", Json.bool s)]

def stOf (j : Json) : ExecSt :=
  { host := getStr j "host",
    workers := (getArr j "workers").map (fun p => match asArr p with | [a, b] => (asStr a, handleOf b) | _ => ("", .notStarted)),
    shm := optInt j "shm", data := optInt j "data", terminating := getBool j "terminating",
    segments := (getArr j "segments").map asStr,
    shmMode := match getStr j "shm_mode" with | "mute" => .mute | "lingers" => .lingers | _ => .ok }

def stJ (s : ExecSt) : Json :=
  Json.mkObj [("host", Json.str s.host),
    ("workers", Json.arr (s.workers.map (fun p => Json.arr #[Json.str p.1, handleJ p.2])).toArray),
    ("shm", optIntJ s.shm), ("data", optIntJ s.data), ("terminating", Json.bool s.terminating),
    ("segments", strs s.segments),
    ("shm_mode", Json.str (match s.shmMode with | .ok => "ok" | .mute => "mute" | .lingers => "lingers"))]

def emsgOf (j : Json) : EMsg :=
  match asArr j with
  | [k] => match asStr k with
    | "ack" => .ack | "purge" => .purge | "shutdown" => .executorShutdown | "xf" => .transmitFailure | _ => .other
  | [k, a] => match asStr k with
    | "ts" => .taskSequence (asStr a) | "tf" => .taskFailure (asStr a) | _ => .other
  | [k, a, b] => match asStr k with
    | "pub" => .published (asStr a) (asBool b) | _ => .other
  | _ => .other

def emsgJ : EMsg → Json
  | .taskSequence w => Json.arr #[Json.str "ts", Json.str w]
  | .ack => Json.arr #[Json.str "ack"]
  | .purge => Json.arr #[Json.str "purge"]
  | .executorShutdown => Json.arr #[Json.str "shutdown"]
  | .taskFailure w => Json.arr #[Json.str "tf", Json.str w]
  | .published d c => Json.arr #[Json.str "pub", Json.str d, Json.bool c]
  | .transmitFailure => Json.arr #[Json.str "xf"]
  | .other => Json.arr #[Json.str "other"]

def cmsgOf (j : Json) : CMsg :=
  match asArr j with
  | [k] => match asStr k with
    | "ack" => .ack | "tf" => .taskFailure | "xf" => .transmitFailure | _ => .unsupported
  | [k, a] => match asStr k with
    | "reg" => .registration (asStr a) | "ef" => .executorFailure (asStr a) | "exit" => .executorExit (asStr a) | _ => .unsupported
  | [k, a, b] => match asStr k with
    | "pub" => .published (asStr a) (asBool b) | "pay" => .payload (asStr a) (asInt b) | _ => .unsupported
  | _ => .unsupported

def cmsgJ : CMsg → Json
  | .published d c => Json.arr #[Json.str "pub", Json.str d, Json.bool c]
  | .payload d v => Json.arr #[Json.str "pay", Json.str d, toJson v]
  | .ack => Json.arr #[Json.str "ack"]
  | .registration h => Json.arr #[Json.str "reg", Json.str h]
  | .taskFailure => Json.arr #[Json.str "tf"]
  | .executorFailure h => Json.arr #[Json.str "ef", Json.str h]
  | .transmitFailure => Json.arr #[Json.str "xf"]
  | .executorExit h => Json.arr #[Json.str "exit", Json.str h]
  | .unsupported => Json.arr #[Json.str "unsup"]

def actJ : TermAct → Json
  | .workerShutdown w => Json.arr #[Json.str "shutdown", Json.str w]
  | .workerJoin w => Json.arr #[Json.str "join", Json.str w]
  | .workerKill w => Json.arr #[Json.str "kill", Json.str w]
  | .shmShutdown => Json.arr #[Json.str "shm-shutdown"]
  | .shmJoin => Json.arr #[Json.str "shm-join"]
  | .shmKill => Json.arr #[Json.str "shm-kill"]
  | .dataKill => Json.arr #[Json.str "data-kill"]

def eoutJ : EOut → Json
  | .toController m => Json.arr #[Json.str "c", cmsgJ m]
  | .toWorker w => Json.arr #[Json.str "w", Json.str w]
  | .act a => Json.arr #[Json.str "a", actJ a]

def outcomeOf (j : Json) : TaskOutcome :=
  match asArr j with
  | [k] => match asStr k with | "exc" => .raisesException | "base" => .baseException | _ => .returns
  | [k, a] => match asStr k with | "exit" => .systemExit (asInt a) | "kill" => .killed (asNat a) | _ => .returns
  | _ => .returns

def predS : FailPred → String | .exited => "exited" | .nonzero => "nonzero" | .never => "never"
def classS : ChildClass → String | .worker => "worker" | .shm => "shm" | .dataServer => "data"
def errS : HealthErr → String
  | .workerNotAlive w => "worker-not-alive:" ++ w | .workerFailed w => "worker-failed:" ++ w
  | .shmFailed => "shm" | .dataFailed => "data"

def statusS : CtrlStatus → String
  | .running => "running" | .endedOk => "ok" | .endedErr => "error" | .starved => "starved"

def exitS : StartExit → String | .returned => "returned" | .raised => "raised"

/-- the end of the shm server process holding `segs`: segments left in /dev/shm, exit code (null: still serving) -/
def shmEnd (e : ShmEntry) (segs : List String) (how : String) : List String × Option Int :=
  let st : ExecSt := { host := "h", workers := [], shm := none, data := none, terminating := false, segments := segs }
  let dies (d : ShmDeath) : List String × Option Int := let r := shmDies e st d; (r.segments, r.shm)
  match how with
  | "shutdown" => shmShutdown e segs
  | "sigterm" => dies .sigterm
  | "sigint" => dies .sigint
  | "sigkill" => dies .sigkill
  | "loop-exception" => dies .loopException
  | _ => (segs, none)

def batchesOf (j : Json) (k : String) : List (List CMsg) := (getArr j k).map (fun b => (asArr b).map cmsgOf)

def c05Step (_ : Unit) (j : Json) : Unit × Json :=
  let t := EkwVerif.Gen.healthTable
  let out : Json :=
    match getStr j "op" with
    | "table" =>
      Json.mkObj [("rows", Json.arr (t.rows.map (fun r => Json.arr #[Json.str (classS r.child), Json.str (predS r.pred), Json.bool r.raises])).toArray),
                  ("none_raises", Json.bool t.workerNoneRaises), ("all_raise", Json.bool EkwVerif.Gen.health_all_raise)]
    | "entry-table" =>
      let e := EkwVerif.Gen.shmEntry
      Json.mkObj [("rows", Json.arr (e.rows.map (fun r => Json.arr #[Json.str (exitS r.exit), Json.bool r.goesOn, Json.bool r.atexit])).toArray),
                  ("shutdown_breaks", Json.bool e.shutdownBreaks), ("sigterm_handler", Json.bool e.sigtermHandler),
                  ("sigint_handler", Json.bool e.sigintHandler), ("atexit_unlinks", Json.bool e.atexitUnlinks),
                  ("clean", Json.bool EkwVerif.Gen.shm_entry_clean)]
    | "shmend" =>
      let r := shmEnd EkwVerif.Gen.shmEntry ((getArr j "segs").map asStr) (getStr j "how")
      Json.mkObj [("left", strs r.1), ("code", optIntJ r.2)]
    | "health" =>
      let r := healthcheck t (stOf j)
      Json.mkObj [("raises", Json.bool r.isSome), ("err", match r with | some e => Json.str (errS e) | none => Json.null)]
    | "worker" =>
      let r := workerBody (getStr j "w") ((getArr j "pubs").map emsgOf) (outcomeOf (j.getObjValD "outcome"))
      Json.mkObj [("msgs", Json.arr (r.msgs.map emsgJ).toArray), ("exit", optIntJ r.exit)]
    | "terminate" =>
      let r := terminate (stOf j)
      let r2 := terminate r.2
      Json.mkObj [("acts", Json.arr (r.1.map actJ).toArray), ("acts2", Json.arr (r2.1.map actJ).toArray), ("st", stJ r.2)]
    | "tick" =>
      let r := tickEnv t (stOf j) ((getArr j "inbox").map emsgOf) (getBool j "hb") (getBool j "retry")
      Json.mkObj [("out", Json.arr (r.2.map eoutJ).toArray), ("st", stJ r.1)]
    | "recv" =>
      match recvEvents ((getArr j "hosts").map asStr) (batchesOf j "batches") with
      | .events ev hosts _ => Json.mkObj [("res", Json.str "events"), ("events", Json.arr (ev.map cmsgJ).toArray), ("hosts", strs hosts)]
      | .raised sent left _ => Json.mkObj [("res", Json.str "raised"), ("sent", strs sent), ("left", strs left)]
      | .starved hosts => Json.mkObj [("res", Json.str "starved"), ("hosts", strs hosts)]
    | "run" =>
      let c : Ctrl := { status := .running, requested := (getArr j "requested").map asStr, outputs := [], remaining := getNat j "remaining",
                        hosts := (getArr j "hosts").map asStr, shutdownCalls := 0, shutdownSent := [] }
      let bs := batchesOf j "batches"
      let r := runLoop (bs.length + 2) c bs
      Json.mkObj [("status", Json.str (statusS r.status)),
                  ("outputs", Json.arr (r.outputs.map (fun p => Json.arr #[Json.str p.1, toJson p.2])).toArray),
                  ("calls", toJson r.shutdownCalls), ("sent", strs r.shutdownSent), ("left", strs r.hosts)]
    | _ => Json.str "bad-op"
  ((), out)

def main : IO Unit := runLoop () c05Step
