/-
Line-protocol driver for C17: the generated table `EkwVerif.Gen.shmApi` interpreted by `Model/Codec.lean`.

  {"op":"enc","cls":C,"vals":[V,...]}   V = {"i":"<decimal>"} | {"s":[code points]} | {"a":"printable ascii"}
      -> {"ok":"<hex>"} | {"err":E}
  {"op":"dec","hex":"<hex>"}
      -> {"ok":{"cls":C,"vals":[V,...]}} | {"err":E}
  {"op":"classes"} -> [{"cls":C,"fields":[...],"base":b,"response":b,"tag":"<hex>"|null}]
  {"op":"job","job":JOB,"real":<the JSON the real code wrote>}      (Model/Json.lean)
      JOB = {"tasks":[[name,{"def":{...},"kw":{..},"ps":{..}}],..],"edges":[{"source":[t,o],"sink_task":s,"kw":k|null,"ps":n|null}],
             "serdes":[[type,ser,des]],"ext":[[t,o]]}   (pairs sorted by key)
      -> {"dump":<dumpJob JOB>,"reload":loadJob (dumpJob JOB) == JOB,"load_real":loadJob real == JOB}
-/
import EkwVerif.Drive.Util
import EkwVerif.Model.Codec
import EkwVerif.Model.Json
import EkwVerif.Gen.ShmApi
open Lean EkwVerif.Drive EkwVerif.Codec

/-! ### job instances (Model/Json.lean) -/
section Job
open EkwVerif.Json (J DatasetId Edge TaskDef TaskInst JobInst dumpJob loadJob)

partial def ofJson : Json → J
  | .null => .null
  | .bool b => .bool b
  | .num n => .num n.mantissa n.exponent
  | .str s => .str s
  | .arr a => .arr (a.toList.map ofJson)
  | .obj o => .obj (o.toList.map (fun (k, v) => (k, ofJson v)))

partial def toJsonJ : J → Json
  | .null => .null
  | .bool b => .bool b
  | .num m e => .num ⟨m, e⟩
  | .str s => .str s
  | .arr l => .arr (l.map toJsonJ).toArray
  | .obj kvs => Json.mkObj (kvs.map (fun (k, v) => (k, toJsonJ v)))

/-- numbers are compared by value (1.0 = 1, 1e2 = 100) -/
partial def beqJ : J → J → Bool
  | .null, .null => true
  | .bool a, .bool b => a == b
  | .num m1 e1, .num m2 e2 => m1 * (10 : Int) ^ e2 == m2 * (10 : Int) ^ e1
  | .str a, .str b => a == b
  | .arr a, .arr b => a.length == b.length && (a.zip b).all (fun (x, y) => beqJ x y)
  | .obj a, .obj b => a.length == b.length && (a.zip b).all (fun (x, y) => x.1 == y.1 && beqJ x.2 y.2)
  | _, _ => false

instance : BEq J := ⟨beqJ⟩
deriving instance BEq for DatasetId, Edge, TaskDef, TaskInst, JobInst

def jOptStr (j : Json) (k : String) : Option String := getOptStr j k
def jOptInt (j : Json) (k : String) : Option Int :=
  match j.getObjVal? k with
  | .ok (.num n) => if n.exponent == 0 then some n.mantissa else none
  | _ => none
def jObj (j : Json) (k : String) : List (String × J) :=
  match j.getObjVal? k with
  | .ok v => match ofJson v with | .obj kvs => kvs | _ => []
  | _ => []
def strPairs (l : List Json) : List (String × String) :=
  l.map (fun p => match asArr p with | [a, b] => (asStr a, asStr b) | _ => ("", ""))
def dsOf (j : Json) : DatasetId := match asArr j with | [a, b] => ⟨asStr a, asStr b⟩ | _ => ⟨"", ""⟩

def jobOfJson (j : Json) : JobInst :=
  { tasks := (getArr j "tasks").map (fun p => match asArr p with
      | [n, t] =>
        let d := (t.getObjVal? "def").toOption.getD Json.null
        (asStr n, { defn := { entrypoint := getStr d "entrypoint", func := jOptStr d "func",
                              environment := (getArr d "environment").map asStr,
                              inputSchema := strPairs (getArr d "input_schema"),
                              outputSchema := strPairs (getArr d "output_schema"),
                              needsGpu := getBool d "needs_gpu" },
                    kw := jObj t "kw", ps := jObj t "ps" })
      | _ => ("", ⟨⟨"", none, [], [], [], false⟩, [], []⟩)),
    edges := (getArr j "edges").map (fun e =>
      { source := dsOf ((e.getObjVal? "source").toOption.getD Json.null), sinkTask := getStr e "sink_task",
        kw := jOptStr e "kw", ps := jOptInt e "ps" }),
    serdes := (getArr j "serdes").map (fun p => match asArr p with
      | [a, b, c] => (asStr a, (asStr b, asStr c)) | _ => ("", ("", ""))),
    ext := (getArr j "ext").map dsOf }

def jobStep (j : Json) : Json :=
  let job := jobOfJson ((j.getObjVal? "job").toOption.getD Json.null)
  let real := ofJson ((j.getObjVal? "real").toOption.getD Json.null)
  let d := dumpJob job
  Json.mkObj [("dump", toJsonJ d),
              ("reload", Json.bool (match loadJob d with | some j2 => j2 == job | none => false)),
              ("load_real", Json.bool (match loadJob real with | some j2 => j2 == job | none => false))]
end Job

def hexDigit (n : Nat) : Char := "0123456789abcdef".toList.getD n '0'

def toHex (bs : Bytes) : String :=
  String.ofList (bs.foldr (fun b acc => hexDigit (b / 16 % 16) :: hexDigit (b % 16) :: acc) [])

def hexVal (c : Char) : Nat :=
  if '0' ≤ c ∧ c ≤ '9' then c.toNat - '0'.toNat
  else if 'a' ≤ c ∧ c ≤ 'f' then c.toNat - 'a'.toNat + 10
  else 0

def fromHexL : List Char → Bytes
  | a :: b :: rest => (hexVal a * 16 + hexVal b) :: fromHexL rest
  | _ => []

def fromHex (s : String) : Bytes := fromHexL s.toList

def errName : Err → String
  | .overflow => "overflow" | .unicode => "unicode" | .type => "type"
  | .value => "value" | .key => "key" | .arity => "arity"

def valOfJson (j : Json) : Val :=
  match j.getObjVal? "i" with
  | .ok (.str s) => .int (s.toInt?.getD 0)
  | _ =>
    match j.getObjVal? "a" with
    | .ok (.str s) => .str (s.toList.map Char.toNat)     -- compact form: printable ASCII
    | _ => .str ((getArr j "s").map asNat)

def printable (cs : List Nat) : Bool := !cs.isEmpty && cs.all (fun c => 32 ≤ c && c < 127 && c != 34 && c != 92)

def valToJson : Val → Json
  | .int n => Json.mkObj [("i", Json.str (toString n))]
  | .str cs =>
    if printable cs then Json.mkObj [("a", Json.str (String.ofList (cs.map Char.ofNat)))]
    else Json.mkObj [("s", nats cs)]

def errJson (e : Err) : Json := Json.mkObj [("err", Json.str (errName e))]

def c17Step (u : Unit) (j : Json) : Unit × Json :=
  match getStr j "op" with
  | "enc" =>
    let m : Msg := { cls := getStr j "cls", vals := (getArr j "vals").map valOfJson }
    match encode EkwVerif.Gen.shmApi m with
    | .ok bs => (u, Json.mkObj [("ok", Json.str (toHex bs))])
    | .error e => (u, errJson e)
  | "dec" =>
    match decode EkwVerif.Gen.shmApi (fromHex (getStr j "hex")) with
    | .ok m => (u, Json.mkObj [("ok", Json.mkObj [("cls", Json.str m.cls), ("vals", Json.arr (m.vals.map valToJson).toArray)])])
    | .error e => (u, errJson e)
  | "classes" =>
    (u, Json.arr (EkwVerif.Gen.shmApi.msgs.map (fun s => Json.mkObj [
      ("cls", Json.str s.cls), ("fields", strs s.fields), ("base", Json.bool s.isBase),
      ("response", Json.bool s.isResponse),
      ("tag", match EkwVerif.Gen.shmApi.c2b s.cls with | some t => Json.str (toHex t) | none => Json.null)])).toArray)
  | "job" => (u, jobStep j)
  | _ => (u, Json.str "bad-op")

def main : IO Unit := runLoop () c17Step
