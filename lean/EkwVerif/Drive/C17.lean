/-
Line-protocol driver for C17: entry point. The protocol and all the code are in `Drive/C17Lib.lean` (a library module, so
that `lake env lean --run EkwVerif/Drive/C17.lean` elaborates only this file).
-/
import EkwVerif.Drive.C17Lib
open EkwVerif.Drive

def main : IO Unit := runLoop () c17Step
