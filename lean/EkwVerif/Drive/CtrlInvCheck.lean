/-
Executable (Bool) mirror of the invariant conjuncts of Lemmas/CtrlInv1.lean and CtrlInvDefs.lean
over the finite domains of a job/cluster, plus a random walk over the model (all step kinds,
environment steps interleaved anywhere, random admissible oracle choices, any-order delivery).
Scaffolding for validating candidate invariants before proving them; not part of the trusted
base and not used by any theorem.
-/
import EkwVerif.Lemmas.CtrlInvDefs
import EkwVerif.Lemmas.CtrlInv4X
import EkwVerif.Lemmas.SchedLiveDefs

namespace EkwVerif.Ctrl.Check
open EkwVerif.Ctrl

def semStr : Sem := fun t k args => s!"t{t}.{k}(" ++ ",".intercalate args ++ ")"

def allDs (j : Job) : List Ds := j.taskIds.flatMap (fun t => j.outputsOf t)

structure Dom where
  tasks : List Task
  dss : List Ds
  hosts : List Host
  workers : List Worker

def dom (j : Job) (cl : Cluster) : Dom :=
  { tasks := List.range (j.tasks.length + 1),
    dss := allDs j ++ [⟨j.tasks.length, 0⟩, ⟨0, 7⟩],
    hosts := cl.hosts ++ [99],
    workers := cl.ids ++ [⟨99, 0⟩] }

def neededB (j : Job) (c : Ctl) (ds : Ds) : Bool :=
  (j.consumers ds).any (fun t => c.doneC t == false) || (j.ext.contains ds && (c.outputs ds).isNone)

def inFlightB (s : Sys) (w : Worker) (t : Task) : Bool := s.ctl.ongoing.contains (w, t) || s.todoPairs.contains (w, t)

def imp (a b : Bool) : Bool := !a || b

def checks (j : Job) (cl : Cluster) (s : Sys) : List (String × Bool) :=
  let d := dom j cl
  let c := s.ctl
  let e := s.env
  let allEv := s.allEv
  let pubWs : List (Worker × Ds) := allEv.filterMap (fun ev => match ev with | .pubW w ds => some (w, ds) | _ => none)
  let pubTs : List (Host × Ds) := allEv.filterMap (fun ev => match ev with | .pubT h ds => some (h, ds) | _ => none)
  let pays : List (Ds × Val) := allEv.filterMap (fun ev => match ev with | .payload ds v => some (ds, v) | _ => none)
  let fetches : List (Ds × Host) := e.outstanding.filterMap (fun o => match o with | .fetch ds h => some (ds, h) | _ => none)
  let transmits : List (Ds × Host × Host) := e.outstanding.filterMap (fun o => match o with | .transmit ds a b => some (ds, a, b) | _ => none)
  let wt : List (Worker × Task) := d.workers.flatMap (fun w => d.tasks.map (fun t => (w, t)))
  [ -- Inv1
    ("1.comp_nodup", decide c.computable.Nodup),
    ("1.comp_disp", c.computable.all (fun t => c.dispatched t == 0)),
    ("1.blocked", d.tasks.all (fun t => imp (c.tracked t && !(c.tracker t).isEmpty) (c.dispatched t == 0 && !c.computable.contains t))),
    ("1.disp_le", d.tasks.all (fun t => c.dispatched t ≤ 1)),
    ("1.disp_eq", d.tasks.all (fun t => e.dispatchedE t == c.dispatched t)),
    ("1.idle_nodup", decide c.idle.Nodup),
    ("1.idle_free", c.idle.all (fun w => d.tasks.all (fun t => !inFlightB s w t))),
    ("1.idle_known", c.idle.all (fun w => cl.ids.contains w)),
    ("1.flight_known", wt.all (fun p => imp (inFlightB s p.1 p.2) (cl.ids.contains p.1))),
    ("1.flight_disp", wt.all (fun p => imp (inFlightB s p.1 p.2) (c.dispatched p.2 == 1))),
    ("1.queued_flight", e.queued.all (fun p => inFlightB s p.1 p.2)),
    ("1.queued_nodup", decide e.queued.Nodup),
    ("1.ev_disp", pubWs.all (fun p => c.dispatched p.2.task == 1)),
    ("1.ev_not_queued", pubWs.all (fun p => !e.queued.contains (p.1, p.2.task))),
    ("1.todo_phase", imp (s.phase != .assigning && s.phase != .planning && s.phase != .crashed) s.todo.isEmpty),
    ("1.todo_nodup", decide s.todoPairs.Nodup),
    ("1.todo_not_ongoing", s.todoPairs.all (fun p => !c.ongoing.contains p)),
    -- Inv2
    ("2.flight_not_done", wt.all (fun p => imp (inFlightB s p.1 p.2) (c.doneC p.2 == false))),
    ("2.flight_valid", wt.all (fun p => imp (inFlightB s p.1 p.2) (p.2 < j.tasks.length))),
    ("2.comp_valid", c.computable.all (fun t => t < j.tasks.length)),
    ("2.done_ran", d.tasks.all (fun t => imp (c.doneC t) (e.ran t))),
    ("2.ran_disp", d.tasks.all (fun t => imp (e.ran t) (c.dispatched t == 1 && t < j.tasks.length))),
    ("2.queued_not_ran", e.queued.all (fun p => e.ran p.2 == false)),
    ("2.flight_queued_or_ran", wt.all (fun p => imp (inFlightB s p.1 p.2) (e.queued.contains p || e.ran p.2))),
    ("2.ev_count", pubWs.all (fun p => allEv.count (Event.pubW p.1 p.2) ≤ 1)),
    ("2.ev_ran", pubWs.all (fun p => e.ran p.2.task && p.2.out < j.nOut p.2.task)),
    ("2.ev_flight", pubWs.all (fun p => inFlightB s p.1 p.2.task)),
    ("2.inbox_phase", imp (s.phase != .notifying && s.phase != .crashed) s.inbox.isEmpty),
    ("2.ptrack_sound", d.dss.all (fun ds => (j.consumers ds).all (fun t => imp (c.doneC t == false) (c.ptracked ds && (c.ptrack ds).contains t)))),
    ("2.purgeQ_ok", c.purgeQ.all (fun ds => (j.consumers ds).all (fun t => c.doneC t) && imp (j.ext.contains ds) (c.outputs ds).isSome && c.announced ds)),
    ("2.tracker_complete", d.dss.all (fun ds => (j.consumers ds).all (fun t => imp (c.announced ds == false) (c.tracked t && (c.tracker t).contains ds)))),
    ("2.ready", d.tasks.all (fun t => imp (c.computable.contains t || c.dispatched t == 1) ((j.inputs t).all (fun ds => c.announced ds)))),
    ("2.announced_produced", d.dss.all (fun ds => imp (c.announced ds) (e.produced ds))),
    ("2.produced_iff", d.dss.all (fun ds => e.produced ds == (e.ran ds.task && ds.out < j.nOut ds.task))),
    -- Inv3
    ("3.fetchQ_ok", c.fetchQ.all (fun p => j.ext.contains p.1 && (c.outputs p.1).isNone && !c.fetchIssued.contains p.1 && c.dsHost p.1 p.2 == .available)),
    ("3.fetchQ_nodup", decide (c.fetchQ.map (·.1)).Nodup),
    ("3.fetch_out", fetches.all (fun p => j.ext.contains p.1 && (c.outputs p.1).isNone && c.fetchIssued.contains p.1 &&
        !pays.any (·.1 == p.1) && (e.present p.2 p.1).isSome)),
    ("3.fetch_count", d.dss.all (fun ds => (e.outstanding.filter (isFetchOf ds)).length ≤ 1)),
    ("3.payload_ok", pays.all (fun p => j.ext.contains p.1 && (c.outputs p.1).isNone && c.fetchIssued.contains p.1 &&
        !fetches.any (·.1 == p.1) && den semStr j p.1 == some p.2)),
    ("3.payload_count", d.dss.all (fun ds => (allEv.filter (isPayloadOf ds)).length ≤ 1)),
    ("3.outputs_ok", d.dss.all (fun ds => match c.outputs ds with
        | none => true
        | some v => den semStr j ds == some v && e.delivered ds && j.ext.contains ds && !fetches.any (·.1 == ds) && !pays.any (·.1 == ds))),
    ("3.inbox_delivered", s.inbox.all (fun ev => match ev with | .payload ds _ => e.delivered ds | _ => true)),
    ("3.store_sound", d.hosts.all (fun h => d.dss.all (fun ds => match e.present h ds with
        | none => true | some v => den semStr j ds == some v))),
    -- Inv4
    ("4.keys", d.hosts.all (fun h => d.dss.all (fun ds => (c.hostDs h ds == .missing) == (c.dsHost ds h == .missing)))),
    ("4.status_hosts", d.hosts.all (fun h => d.dss.all (fun ds => imp (c.dsHost ds h != .missing) (cl.hosts.contains h)))),
    ("4.workerDs_ok", d.workers.all (fun w => d.dss.all (fun ds => imp (c.workerDs w ds != .missing) (c.hostDs w.host ds != .missing && cl.ids.contains w)))),
    ("4.avail_present", d.hosts.all (fun h => d.dss.all (fun ds => imp (c.dsHost ds h == .available && neededB j c ds) (e.present h ds).isSome))),
    ("4.status_present", d.hosts.all (fun h => d.dss.all (fun ds => imp (c.hostDs h ds != .missing && neededB j c ds && c.announced ds)
        ((e.present h ds).isSome || inboundTransmit e ds h)))),
    ("4.transmit_out", transmits.all (fun p => (e.present p.2.1 p.1).isSome && (e.present p.2.2 p.1).isNone && c.hostDs p.2.2 p.1 != .missing &&
        e.queued.any (fun q => q.1.host == p.2.2 && (j.inputs q.2).contains p.1))),
    ("4.flight_present", wt.all (fun p => imp (inFlightB s p.1 p.2 && e.ran p.2) ((List.range (j.nOut p.2)).all (fun k =>
        imp (neededB j c ⟨p.2, k⟩) (e.present p.1.host ⟨p.2, k⟩).isSome)))),
    ("4.present_status", d.hosts.all (fun h => d.dss.all (fun ds => imp (e.present h ds).isSome
        (c.hostDs h ds != .missing || s.todoPairs.any (fun q => q.1.host == h && q.2 == ds.task))))),
    ("4.ongoing_status", c.ongoing.all (fun p => imp (e.ran p.2 == false) ((List.range (j.nOut p.2)).all (fun k => c.hostDs p.1.host ⟨p.2, k⟩ != .missing)))),
    ("4.evW_present", pubWs.all (fun p => cl.ids.contains p.1 && imp (neededB j c p.2) (e.present p.1.host p.2).isSome)),
    ("4.evT_present", pubTs.all (fun p => cl.hosts.contains p.1 && imp (neededB j c p.2) (e.present p.1 p.2).isSome)),
    ("4.avail_somewhere", d.dss.all (fun ds => imp (c.announced ds && (j.consumers ds).any (fun t => c.doneC t == false))
        (cl.hosts.any (fun h => c.dsHost ds h == .available)))),
    ("4.purged_unneeded", e.purged.all (fun p => !neededB j c p.2)),
    ("4.present_produced", d.hosts.all (fun h => d.dss.all (fun ds => imp (e.present h ds).isSome (e.produced ds)))),
    -- extra tiers InvT / Inv2X / Inv4X
    ("T.todo_prep", s.todo.all (fun ap => ap.2.all (fun p => c.hostDs ap.1.worker.host p.1 != .missing && (j.inputs ap.1.task).contains p.1))),
    ("T.todo_unannounced", s.todoPairs.all (fun q => (List.range (j.nOut q.2 + 1)).all (fun k => c.announced ⟨q.2, k⟩ == false))),
    ("2X.tracked_valid", d.tasks.all (fun t => imp (c.tracked t) (t < j.tasks.length))),
    ("2X.flight_unique", decide ((c.ongoing ++ s.todoPairs).map (·.2)).Nodup),
    ("2X.evT_produced", pubTs.all (fun p => e.produced p.2)),
    ("4X.transmit_count", d.dss.all (fun ds => d.hosts.all (fun h => (e.outstanding.filter (isTransmitTo ds h)).length ≤ 1))),
    ("4X.status_produced", d.hosts.all (fun h => d.dss.all (fun ds => imp (c.hostDs h ds != .missing && neededB j c ds && e.produced ds)
        ((e.present h ds).isSome || inboundTransmit e ds h)))),
    ("4X.status_unran", d.hosts.all (fun h => d.dss.all (fun ds => imp (c.hostDs h ds != .missing && e.ran ds.task == false)
        (d.workers.any (fun w => w.host == h && inFlightB s w ds.task))))),
    -- tier P (record of processed output notices) and tier L (liveness bookkeeping), any order
    ("P.pub_once", pubWs.all (fun p => c.published p.2 == false)),
    ("P.pub_ran", d.dss.all (fun ds => imp (c.published ds) (e.ran ds.task && ds.out < j.nOut ds.task))),
    ("P.pub_announced", d.dss.all (fun ds => imp (c.published ds) (c.announced ds))),
    ("P.done_iff", j.taskIds.all (fun t => c.doneC t == (List.range (j.nOut t)).all (fun k => c.published ⟨t, k⟩))),
    ("P.allPublished", d.tasks.all (fun t => c.allPublished j t ==
        (((List.range (j.nOut t + 3)).filter (fun k => c.published ⟨t, k⟩)).length == j.nOut t))),   -- the len() comparison of the code
    ("L.notice", d.tasks.all (fun t => imp (e.ran t) ((List.range (j.nOut t)).all (fun k =>
        c.published ⟨t, k⟩ || pubWs.any (fun p => p.2 == ⟨t, k⟩))))),
    ("L.done_announced", d.tasks.all (fun t => imp (c.doneC t) ((List.range (j.nOut t)).all (fun k => c.announced ⟨t, k⟩)))),
    ("L.disp_flight_or_done", d.tasks.all (fun t => imp (c.dispatched t == 1) (c.doneC t || d.workers.any (fun w => inFlightB s w t)))),
    ("L.undisp", j.taskIds.all (fun t => imp (c.dispatched t == 0) (c.computable.contains t || (c.tracked t && !(c.tracker t).isEmpty)))),
    ("L.tracker_sound", d.tasks.all (fun t => imp (c.tracked t) ((c.tracker t).all (fun ds => (j.inputs t).contains ds && c.announced ds == false)))),
    ("L.workers_cover", cl.ids.all (fun w => c.idle.contains w || d.tasks.any (fun t => inFlightB s w t))),
    -- monitors and crashes
    ("viol_empty", e.viol.isEmpty),
    ("no_crash", s.err.isNone) ]

def failing (j : Job) (cl : Cluster) (s : Sys) : List String :=
  (checks j cl s).filterMap (fun p => if p.2 then none else some p.1)

/-! ### random walk -/

def lcg (x : Nat) : Nat := (x * 6364136223846793005 + 1442695040888963407) % 18446744073709551616

def pick {α : Type} (l : List α) (r : Nat) : Option α := if l.isEmpty then none else l[(r / 65536) % l.length]?

/-- candidate steps in state `s` (a superset of the enabled ones; `step` filters) -/
def candidates (j : Job) (cl : Cluster) (s : Sys) (r : Nat) : List Step :=
  let c := s.ctl
  let asgs : List Step := c.idle.flatMap (fun w => c.computable.filterMap (fun t =>
    if j.gpu t && !cl.hasGpu w then none else
    let cands := (j.inputs t).filterMap (fun ds =>
      let av := cl.hosts.filter (fun h => c.dsHost ds h == .available)
      (pick av (lcg (r + ds.task * 7 + ds.out))).map (fun h => (ds, h)))
    some (Step.assign ⟨w, t, cands⟩)))
  let envs : List Step := (s.env.queued.map (fun p => Step.env (.run p.1 p.2))) ++
    ((List.range s.env.outstanding.length).map (fun i => Step.env (.io i)))
  -- a random non-empty sub-multiset of pending, in random order
  let pend := s.env.pending
  let k := if pend.isEmpty then 0 else 1 + (r / 7) % pend.length
  let rec takeR (fuel : Nat) (pend : List Event) (r : Nat) (acc : List Event) : List Event :=
    match fuel with
    | 0 => acc
    | fuel + 1 => match pick pend r with
      | none => acc
      | some ev => takeR fuel (pend.erase ev) (lcg r) (acc ++ [ev])
  let recvs : List Step := if pend.isEmpty then [] else [Step.recv (takeR k pend (lcg r) [])]
  [Step.enter, .endAssign, .plan1, .endPlan, .flushF1, .endFlushF, .flushP1, .endFlush, .notify1, .endNotify]
    ++ asgs ++ asgs ++ envs ++ envs ++ recvs

/-- one random walk of at most `n` steps; returns the first failing conjunct names with the step index -/
def walk (j : Job) (cl : Cluster) (seed : Nat) (n : Nat) : Nat × List String × Option Sys := Id.run do
  let mut s := Sys.init j cl
  let mut r := lcg (seed + 17)
  let mut steps := 0
  for _ in [0:n] do
    let cands := candidates j cl s r
    let en := cands.filterMap (fun st => (step semStr j cl s st).map (fun s' => (st, s')))
    r := lcg r
    match pick en r with
    | none => break
    | some (_, s') =>
      s := s'
      steps := steps + 1
      let f := failing j cl s
      if !f.isEmpty then return (steps, f, some s)
    r := lcg r
  return (steps, [], some s)

end EkwVerif.Ctrl.Check
