import EkwVerif.Drive.Util
import EkwVerif.Props.C12
instance : Inhabited EkwVerif.Export.PV := ⟨.none⟩
open Lean EkwVerif.Drive EkwVerif.Export

def parseKey (j : Json) : Key :=
  match getStr j "k" with
  | "str" => .str (getStr j "v")
  | "int" => .int (getInt j "v")
  | "bool" => .bool (getBool j "v")
  | _ => .none

def jKey : Key → Json
  | .str s => Json.mkObj [("k", "str"), ("v", Json.str s)]
  | .int i => Json.mkObj [("k", "int"), ("v", toJson i)]
  | .bool b => Json.mkObj [("k", "bool"), ("v", Json.bool b)]
  | .none => Json.mkObj [("k", "none")]

partial def parsePV (j : Json) : PV :=
  match getStr j "t" with
  | "bool" => .bool (getBool j "v")
  | "int" => .int (getInt j "v")
  | "str" => .str (getStr j "v")
  | "float" => .float (getBool j "nan") (getStr j "v")
  | "atom" => .atom (getBool j "ref") (getNat j "id")
  | "val" => .val (getStr j "k") (getStr j "v")
  | "hook" => .hook (getNat j "id") (match j.getObjVal? "v" with | .ok p => parsePV p | _ => .none)
  | "list" => .list ((getArr j "v").map parsePV)
  | "tuple" => .tuple ((getArr j "v").map parsePV)
  | "dict" => .dict ((getArr j "v").map (fun e => match asArr e with | [k, v] => (parseKey k, parsePV v) | _ => (.none, .none)))
  | _ => .none

partial def jPV : PV → Json
  | .none => Json.mkObj [("t", "none")]
  | .bool b => Json.mkObj [("t", "bool"), ("v", Json.bool b)]
  | .int i => Json.mkObj [("t", "int"), ("v", toJson i)]
  | .str s => Json.mkObj [("t", "str"), ("v", Json.str s)]
  | .float n r => Json.mkObj [("t", "float"), ("nan", Json.bool n), ("v", Json.str r)]
  | .atom b i => Json.mkObj [("t", "atom"), ("ref", Json.bool b), ("id", toJson i)]
  | .val k r => Json.mkObj [("t", "val"), ("k", Json.str k), ("v", Json.str r)]
  | .hook i s => Json.mkObj [("t", "hook"), ("id", toJson i), ("v", jPV s)]
  | .list l => Json.mkObj [("t", "list"), ("v", Json.arr (l.map jPV).toArray)]
  | .tuple l => Json.mkObj [("t", "tuple"), ("v", Json.arr (l.map jPV).toArray)]
  | .dict d => Json.mkObj [("t", "dict"), ("v", Json.arr (d.map (fun e => Json.arr #[jKey e.1, jPV e.2])).toArray)]

def parseNode (j : Json) : Node :=
  { name := getStr j "name", outputs := (getArr j "outputs").map asStr,
    payload := match j.getObjVal? "payload" with | .ok p => parsePV p | _ => .none,
    inputs := (getArr j "inputs").map (fun e => match asArr e with
      | [i, p, o] => (asStr i, { parent := asStr p, out := asStr o })
      | _ => ("", { parent := "", out := "" })) }

def parseRef (j : Json) : Ref :=
  match j with
  | .str p => .bare p
  | _ => match getArr j "v" with
    | [p, o] => .pair (getStr j "t" == "tuple") (asStr p) (asStr o)
    | _ => .bare ""

def parseSNode (j : Json) : SNode :=
  { outputs := (getArr j "outputs").map asStr,
    inputs := (getArr j "inputs").map (fun e => match asArr e with
      | [i, r] => (asStr i, parseRef r)
      | _ => ("", .bare "")),
    payload := match j.getObjVal? "payload" with
      | .ok .null => none
      | .ok p => some (parsePV p)
      | _ => none }

def jRef : Ref → Json
  | .bare p => Json.str p
  | .pair t p o => Json.mkObj [("t", if t then "tuple" else "list"), ("v", strs [p, o])]

def jSNode (s : SNode) : Json :=
  Json.mkObj [("outputs", strs s.outputs),
    ("inputs", Json.arr (s.inputs.map (fun i => Json.arr #[Json.str i.1, jRef i.2])).toArray),
    ("payload", match s.payload with | none => Json.null | some p => jPV p)]

def jNode (n : Node) : Json :=
  Json.mkObj [("name", Json.str n.name), ("outputs", strs n.outputs), ("payload", jPV n.payload),
    ("inputs", Json.arr (n.inputs.map (fun i => strs [i.1, i.2.parent, i.2.out])).toArray)]

def jSer (d : List (String × SNode)) : Json := Json.arr (d.map (fun e => Json.arr #[Json.str e.1, jSNode e.2])).toArray

def wfB (g : Graph) : Bool :=
  decide ((g.nodes.map (·.name)).Nodup) && topoFrom [] g.nodes &&
  g.nodes.all (fun n => decide ((n.inputs.map (·.1)).Nodup)) && (graphNodes g).length == g.nodes.length &&
  g.nodes.all (fun n => n.inputs.all (fun i => decide (i.1 ∉ EkwVerif.Gen.nodeInitKw)))

/-- identities dill hands out to objects it pickles by value (the harness renames them) -/
def freshBase : Nat := 1000000

def jRound (shared : Bool) (orig : Graph) (r : Except Err Graph) : Json :=
  match r with
  | .error .keyError => Json.mkObj [("ok", Json.bool false), ("err", "KeyError")]
  | .error .attributeError => Json.mkObj [("ok", Json.bool false), ("err", "AttributeError")]
  | .error .typeError => Json.mkObj [("ok", Json.bool false), ("err", "TypeError")]
  | .ok g' =>
    Json.mkObj [("ok", Json.bool true), ("nodes", Json.arr ((graphNodes g').map jNode).toArray),
      ("sinks", strs g'.sinks), ("eq", Json.bool (graphEq shared g' orig)), ("eq_rev", Json.bool (graphEq shared orig g')),
      ("all_reachable", Json.bool ((graphNodes g').length == g'.nodes.length))]

def c12Step (_ : Unit) (j : Json) : Unit × Json :=
  match getStr j "op" with
  | "graph" =>
    let g : Graph := { nodes := (getArr j "nodes").map parseNode, sinks := (getArr j "sinks").map asStr }
    let ser := serialise g
    let dict := deserialise R ser
    ((), Json.mkObj [("wf", Json.bool (wfB g)), ("reach", strs ((graphNodes g).map (·.name))),
      ("self_eq", Json.bool (graphEq true g g)),
      ("ser", jSer ser), ("json_ser", if jsonOk ser then jSer (jsonNorm ser) else Json.null),
      ("dict", jRound true g dict), ("json", jRound false g (jsonTrip R g)),
      ("file", jRound false g (fileTrip R (dillPV (· + freshBase)) g)),
      ("dict_inv", jRound true g (dict.map (withFactory invHook)))])
  | "deser" =>
    let data := (getArr j "data").map (fun e => match asArr e with
      | [k, v] => (asStr k, parseSNode v)
      | _ => ("", { outputs := [], inputs := [], payload := none }))
    ((), Json.mkObj [("deser", jRound true { nodes := [], sinks := [] } (deserialise R data))])
  | "eq2" =>
    -- `a == b` and `b == a` for two separately built graphs (no payload object shared except opaque objects of the same identity)
    let pg (k : String) : Graph := match j.getObjVal? k with
      | .ok o => { nodes := (getArr o "nodes").map parseNode, sinks := (getArr o "sinks").map asStr }
      | _ => { nodes := [], sinks := [] }
    ((), Json.mkObj [("eq", Json.bool (graphEq false (pg "a") (pg "b"))), ("eq_rev", Json.bool (graphEq false (pg "b") (pg "a")))])
  | "reserved" => ((), Json.mkObj [("reserved", strs R), ("ctor", strs EkwVerif.Gen.nodeInitKw)])
  | _ => ((), Json.str "bad-op")

def main : IO Unit := runLoop () c12Step
