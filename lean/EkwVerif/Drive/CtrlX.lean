import EkwVerif.Drive.CtrlCommon
import EkwVerif.Model.Sched
open Lean EkwVerif.Drive EkwVerif.Ctrl EkwVerif.DriveCtrl

/-- driver of the extended system (controller + scheduler bookkeeping) -/
structure XState where
  job : Job
  cl : Cluster
  cm : Comps
  x : SysX
  note : List String      -- replay problems (oracle events that do not fit the model's control flow)
  hidden : Hidden := fun _ => false   -- non-atomic layer (Model/CtrlN.lean)
  mid : List (Nat × Json) := []       -- executor steps of the current round still to be replayed (position, op)
  before : Nat := 0                   -- length of the command log when the current round began

def digestSch (_job : Job) (cl : Cluster) (cm : Comps) (sc : Sch) : Json :=
  let comps := List.range cm.n
  Json.mkObj [
    ("host2comp", Json.arr ((cl.hosts.map (fun h => Json.arr #[n h, match sc.host2comp h with | none => Json.null | some c => n c])).toArray)),
    ("weight", nats (comps.map sc.weight)),
    ("distDom", Json.arr ((comps.map (fun c => Json.arr ((sc.distDom c).map jw).toArray)).toArray)),
    ("values", Json.arr ((comps.map (fun c => nats (sc.values c))).toArray)),
    ("ovDom", Json.arr ((cl.ids.map (fun w => Json.arr #[jw w, nats (sc.ovDom w)])).toArray)),
    ("schErr", optStr sc.schErr)]

def fullX (d : XState) (extra : List (String × Json)) (wide : Bool := false) : Json :=
  let s := d.x.sys
  Json.mkObj (extra ++ [("ctl", digestCtl d.job d.cl s.ctl), ("env", digestEnv d.job d.cl s.env wide),
    ("sch", digestSch d.job d.cl d.cm d.x.sch),
    ("phase", Json.str (jPhase s.phase)), ("err", optStr s.err), ("shutdowns", n s.shutdowns),
    ("notes", strs d.note)])

def stepOr (d : XState) (st : StepX) (what : String) : XState :=
  match stepX semStr d.job d.cl d.cm d.x st with
  | some x' => { d with x := x' }
  | none => { d with note := d.note ++ [what] }

def tryStep (d : XState) (st : StepX) : XState :=
  match stepX semStr d.job d.cl d.cm d.x st with
  | some x' => { d with x := x' }
  | none => d

def drainX (d : XState) (st : StepX) (fuel : Nat) : XState := Id.run do
  let mut d := d
  for _ in [0:fuel] do
    match stepX semStr d.job d.cl d.cm d.x st with
    | some x' => d := { d with x := x' }
    | none => break
  return d

def sameSet (a b : List Worker) : Bool := a.all (fun w => b.contains w) && b.all (fun w => a.contains w)

/-- finish the heuristic call we are in (phase 2 + end), if any -/
def closeHeur (d : XState) : XState :=
  match d.x.sch.stage with
  | .inH _ _ _ _ .p1 _ _ _ => tryStep (tryStep d .hPhase2) .hEnd
  | .inH _ _ _ _ .p2 _ _ _ => tryStep d .hEnd
  | _ => d

/-- one environment op of the trace on the extended system, with the guards of the non-atomic layer (`stepN`) -/
def envOpX (d : XState) (j : Json) : Option XState :=
  let xN : SysN := { sys := d.x.sys, hidden := d.hidden }
  match j.getObjVal? "yield" with
  | .ok r =>
    (match asArr r with
     | [t, k] =>
       if nextHidden d.job d.hidden (asNat t) != some (asNat k) then none
       else some { d with hidden := upd d.hidden ⟨asNat t, asNat k⟩ false }
     | _ => none)
  | .error _ =>
    let es : Option (EnvStep × Bool × Hidden) :=
      match j.getObjVal? "run" with
      | .ok r => (match asArr r with
          | [h, i, t] => some (.run ⟨asNat h, asNat i⟩ (asNat t), !(d.job.inputs (asNat t)).any d.hidden, hideOutputs d.job d.hidden (asNat t))
          | _ => none)
      | .error _ =>
        let want : Option IO := match getArr j "io" with
          | [Json.str "transmit", t, k, s, g] => some (.transmit ⟨asNat t, asNat k⟩ (asNat s) (asNat g))
          | [Json.str "fetch", t, k, s] => some (.fetch ⟨asNat t, asNat k⟩ (asNat s))
          | _ => none
        want.map (fun o => let i := d.x.sys.env.outstanding.findIdx (· == o); (.io i, baseAllowed xN (.env (.io i)), d.hidden))
    match es with
    | none => none
    | some (es, allowed, hid') =>
      if !allowed then none else
      (stepX semStr d.job d.cl d.cm d.x (.base (.env es))).map (fun x' => { d with x := x', hidden := hid' })

/-- replay the mid-round executor steps whose position has been reached (all of them if `all`) -/
def applyMidX (d : XState) (all : Bool := false) : XState := Id.run do
  let mut d := d
  let mut go := true
  while go do
    match d.mid with
    | (k, op) :: rest =>
      if all || k ≤ d.x.sys.env.log.length - d.before then
        match envOpX d op with
        | some d' => d := { d' with mid := rest }
        | none => d := { d with mid := rest, note := d.note ++ [s!"mid-round executor step not enabled in the model: {op.compress}"] }
      else go := false
    | [] => go := false
  return d

/-- like `drainX`, with the mid-round executor steps replayed before every step -/
def drainMidX (d : XState) (st : StepX) (fuel : Nat) : XState := Id.run do
  let mut d := d
  for _ in [0:fuel] do
    d := applyMidX d
    match stepX semStr d.job d.cl d.cm d.x st with
    | some x' => d := { d with x := x' }
    | none => break
  return d

/-- replay one event of the assign phase recorded from the real run -/
def assignEvent (d : XState) (ev : Json) : XState :=
  match getStr ev "k" with
  | "awc" =>
    let c := getNat ev "c"
    let ws := (getArr ev "ws").map pW
    let d := match d.x.sch.stage with
      | .stepI _ => stepOr d (.awcBegin c) s!"awcBegin {c} not enabled"
      | _ => d
    let d := match d.x.sch.stage with
      | .ready c' ws' _ => if c' == c && sameSet ws ws' then d else { d with note := d.note ++ [s!"awc({c}) worker list differs from the model's"] }
      | _ => { d with note := d.note ++ [s!"awc({c}) outside ready stage"] }
    stepOr d .awcEnter "awcEnter not enabled"
  | "heur" =>
    -- beginning of an _assignment_heuristic call: "gpu" is entered by awcEnter; for "cpu" close the gpu call
    if getStr ev "cls" == "cpu" then
      match d.x.sch.stage with
      | .inH _ .gpu _ _ _ _ _ _ => closeHeur d
      | _ => { d with note := d.note ++ ["cpu heuristic outside awc"] }
    else d
  | "heur2" => tryStep d .hPhase2      -- the strongest placement of the phase-2 domain check: before the call's assignments
  | "asg" =>
    let d := applyMidX d
    let d := { d with note := d.note ++ scanMismatches d.x.sys.ctl (pAsg ev) (pOrders ev) }
    stepOr d (.base (.assign (pAsg ev))) "assign not enabled"
  | "awcend" => closeHeur d
  | "migrate" =>
    let h := getNat ev "h"
    let d := match d.x.sch.stage with
      | .stepI [] => stepOr d .beginStepII "beginStepII not enabled"
      | _ => d
    let d := stepOr d (.migrate h) s!"migrate {h} not enabled"
    match d.x.sch.stage with
    | .ready c _ _ => if c == getNat ev "c" then d else { d with note := d.note ++ [s!"migrate {h}: model picks component {c}, implementation {getNat ev "c"}"] }
    | _ => d
  | _ => { d with note := d.note ++ ["bad assign event"] }

def xStep (d : XState) (j : Json) : XState × Json :=
  match getStr j "op" with
  | "init" =>
    let job := pJob j
    let cl := pCluster j
    let comp := (getArr j "comp").map asNat
    let cm : Comps := { compOf := fun t => comp.getD t 0, n := getNat j "ncomp" }
    let d' : XState := { job := job, cl := cl, cm := cm, x := SysX.init job cl cm, note := [], hidden := fun _ => false }
    (d', fullX d' (hypChecks j job cl))
  | "round" =>
    let d := { d with note := [], mid := pMid j, before := d.x.sys.env.log.length }
    let before := d.x.sys.env.log.length
    match stepX semStr d.job d.cl d.cm d.x (.base .enter) with
    | none => (d, Json.mkObj [("enabled", toJson false)])
    | some x1 =>
      let d := { d with x := x1 }
      if x1.sys.phase == .finished then (d, fullX d [("enabled", toJson true), ("cmds", Json.arr #[])] true) else
      let d := if x1.sys.mayAssign then (getArr j "events").foldl assignEvent d else d
      -- leave assign(): step II may still have to be entered (and found empty)
      let d := match d.x.sch.stage with
        | .stepI [] => tryStep d .beginStepII
        | _ => d
      let d := stepOr d (.base .endAssign) "endAssign not enabled"
      let ctlA := if getBool j "wantMid" then [("ctlA", digestCtl d.job d.cl d.x.sys.ctl)] else []
      let d := drainX d (.base .plan1) (d.x.sys.todo.length + 1)
      let d := stepOr d (.base .endPlan) "endPlan not enabled"
      let ctlP := if getBool j "wantMid" then [("ctlP", digestCtl d.job d.cl d.x.sys.ctl)] else []
      let d := drainMidX d (.base .flushF1) (d.x.sys.ctl.fetchQ.length + 1)
      let d := stepOr d (.base .endFlushF) "endFlushF not enabled"
      let d := drainMidX d (.base .flushP1) (d.x.sys.ctl.purgeQ.length + 1)
      let d := applyMidX d true
      let d := stepOr d (.base .endFlush) "endFlush not enabled"
      let d := { d with x := { d.x with sys := compactSys d.job d.cl d.x.sys } }
      (d, fullX d ([("enabled", toJson true), ("cmds", Json.arr ((d.x.sys.env.log.drop before).map jCmd).toArray)]
        ++ ctlA ++ ctlP))
  | "env" =>
    match envOpX d j with
    | none => (d, Json.mkObj [("enabled", toJson false)])
    | some d' => (d', Json.mkObj [("enabled", toJson true), ("env", digestEnv d.job d.cl d'.x.sys.env)])
  | "deliver" =>
    let d := { d with note := [] }
    let evs := (getArr j "events").filterMap pEvent
    if evs.length != (getArr j "events").length then (d, Json.str "bad-event") else
    if !baseAllowed { sys := d.x.sys, hidden := d.hidden } (.recv evs) then (d, Json.mkObj [("enabled", toJson false)]) else
    match stepX semStr d.job d.cl d.cm d.x (.base (.recv evs)) with
    | none => (d, Json.mkObj [("enabled", toJson false)])
    | some x1 =>
      let d := drainX { d with x := x1 } (.base .notify1) (evs.length + 1)
      let d := tryStep d (.base .endNotify)
      let d := { d with x := { d.x with sys := compactSys d.job d.cl d.x.sys } }
      (d, fullX d [("enabled", toJson true)])
  | _ => (d, Json.str "bad-op")

def main : IO Unit :=
  let job : Job := { tasks := [], ext := [] }
  let cl : Cluster := { workers := [] }
  let cm : Comps := { compOf := fun _ => 0, n := 0 }
  runLoop ({ job := job, cl := cl, cm := cm, x := SysX.init job cl cm, note := [] } : XState) xStep
