/-
Shared plumbing of the line-protocol drivers: read one JSON value per line from stdin,
feed it to a pure `step : σ → Json → σ × Json`, print one JSON value per line.
-/
import Lean.Data.Json

namespace EkwVerif.Drive
open Lean

partial def loop {σ : Type} (h : IO.FS.Stream) (out : IO.FS.Stream) (st : σ) (step : σ → Json → σ × Json) : IO Unit := do
  let line ← h.getLine
  if line.isEmpty then return ()
  let line := line.trimAscii.toString
  if line.isEmpty then loop h out st step else
  match Json.parse line with
  | .error e =>
    out.putStrLn (Json.compress (Json.mkObj [("driver_error", Json.str e)]))
    loop h out st step
  | .ok j =>
    let (st', o) := step st j
    out.putStrLn (Json.compress o)
    loop h out st' step

def runLoop {σ : Type} (init : σ) (step : σ → Json → σ × Json) : IO Unit := do
  let i ← IO.getStdin
  let o ← IO.getStdout
  loop i o init step
  o.flush

def getStr (j : Json) (k : String) : String := (j.getObjValAs? String k).toOption.getD ""
def getInt (j : Json) (k : String) : Int := (j.getObjValAs? Int k).toOption.getD 0
def getNat (j : Json) (k : String) : Nat := (j.getObjValAs? Nat k).toOption.getD 0
def getBool (j : Json) (k : String) : Bool := (j.getObjValAs? Bool k).toOption.getD false
def getArr (j : Json) (k : String) : List Json :=
  match j.getObjVal? k with
  | .ok (.arr a) => a.toList
  | _ => []
def getOptStr (j : Json) (k : String) : Option String :=
  match j.getObjVal? k with
  | .ok (.str s) => some s
  | _ => none
def asStr (j : Json) : String := match j with | .str s => s | _ => ""
def asNat (j : Json) : Nat := (j.getNat?).toOption.getD 0
def asInt (j : Json) : Int := (j.getInt?).toOption.getD 0
def asArr (j : Json) : List Json := match j with | .arr a => a.toList | _ => []
def strs (l : List String) : Json := Json.arr (l.map Json.str).toArray
def nats (l : List Nat) : Json := Json.arr (l.map (fun (n : Nat) => (toJson n))).toArray
def optStr : Option String → Json
  | none => Json.null
  | some s => Json.str s

end EkwVerif.Drive
