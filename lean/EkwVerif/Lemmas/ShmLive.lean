/-
Liveness ingredients for `c09_eventually_granted`:
  * the lottery frees enough whenever the evictable datasets are enough,
  * `page_out_at_least` launches exactly one page-out job per winner,
  * completing a page-out job successfully returns its size,
  * draining all jobs of a quiescent-plus-one-eviction state returns the sum.
-/
import EkwVerif.Lemmas.ShmCore2

namespace EkwVerif.Shm
open Aux
namespace Aux

/-! ### sums -/

theorem perm_sum_map {α : Type} (f : α → Nat) {l1 l2 : List α} (h : l1.Perm l2) : (l1.map f).sum = (l2.map f).sum := by
  induction h with
  | nil => rfl
  | cons x _ ih => simp [ih]
  | swap x y l => simp; omega
  | trans _ _ ih1 ih2 => exact ih1.trans ih2

theorem sum_take_le {α : Type} (f : α → Nat) (l : List α) (n : Nat) : ((l.take n).map f).sum ≤ (l.map f).sum := by
  induction l generalizing n with
  | nil => simp
  | cons x xs ih =>
    cases n with
    | zero => simp
    | succ n => simp only [List.take_succ_cons, List.map_cons, List.sum_cons]; have := ih n; omega

/-- the sweep returns the keys of a prefix that reaches `amount`, or of the whole list -/
theorem sweep_spec (amount : Nat) (l : List Entity) (freed : Nat) :
    ∃ n, sweep amount l freed = (l.take n).map (·.key) ∧
      (amount ≤ freed + ((l.take n).map (·.size)).sum ∨ l.length ≤ n) := by
  induction l generalizing freed with
  | nil => exact ⟨0, by simp [sweep], Or.inr (by simp)⟩
  | cons e es ih =>
    unfold sweep
    by_cases h : freed + e.size ≥ amount
    · refine ⟨1, by simp [h], Or.inl ?_⟩
      simp; omega
    · obtain ⟨n, hn, hr⟩ := ih (freed + e.size)
      refine ⟨n + 1, by simp [h, hn], ?_⟩
      rcases hr with hr | hr
      · left; simp only [List.take_succ_cons, List.map_cons, List.sum_cons]; omega
      · right; simp; omega

/-- size of the dataset stored under a key (0 if none) -/
def dsize (ds : List (String × Dataset)) (k : String) : Nat :=
  match find? ds k with
  | some d => d.size
  | none => 0

def candTotal (sc sr t : Nat) (ds : List (String × Dataset)) : Nat := ((candidates sc sr t ds).map (·.size)).sum

/-- if the evictable datasets are enough, the winners are enough -/
theorem lottery_enough (sc sr t amount : Nat) (ds : List (String × Dataset)) (hn : Nd ds)
    (h : amount ≤ candTotal sc sr t ds) :
    amount ≤ ((lottery (candidates sc sr t ds) amount).map (dsize ds)).sum := by
  unfold lottery
  obtain ⟨n, hn', hr⟩ := sweep_spec amount (lotteryOrder (candidates sc sr t ds)) 0
  rw [hn']
  have hp := lotteryOrder_perm (candidates sc sr t ds)
  have hds : ∀ e ∈ lotteryOrder (candidates sc sr t ds), dsize ds e.key = e.size := by
    intro e he
    obtain ⟨d, hd, _, hs⟩ := candidates_mem _ _ _ _ _ (hp.mem_iff.mp he)
    simp [dsize, mem_find? _ _ _ hn hd, hs]
  have e1 : (((lotteryOrder (candidates sc sr t ds)).take n).map (·.key)).map (dsize ds)
      = ((lotteryOrder (candidates sc sr t ds)).take n).map (·.size) := by
    rw [List.map_map]
    apply List.map_congr_left
    intro e he
    exact hds e (List.mem_of_mem_take he)
  rw [e1]
  rcases hr with hr | hr
  · omega
  · rw [List.take_of_length_le hr, perm_sum_map (·.size) hp]
    exact h

/-! ### the jobs launched by `page_out_at_least` -/

theorem pageOut_dsize (s : St) (k x : String) : dsize (pageOut s k).ds x = dsize s.ds x := by
  unfold pageOut dsize
  cases h : find? s.ds k with
  | none => simp
  | some d =>
    simp only [find?_set, h]
    by_cases hx : x = k
    · subst hx; simp [h]
    · simp [hx]

theorem pageOutAll_spec (ws : List String) : ∀ (s : St), (∀ w ∈ ws, (find? s.ds w).isSome = true) →
    ∃ J, (pageOutAll s ws).jobs = s.jobs ++ J ∧ (∀ j ∈ J, j.kind = .out ∧ j.io = none ∧ j.key ∈ ws) ∧
      (J.map (·.size)).sum = (ws.map (dsize s.ds)).sum := by
  induction ws with
  | nil => intro s _; exact ⟨[], by simp [pageOutAll], by simp, by simp⟩
  | cons k ws ih =>
    intro s hf
    obtain ⟨d, hd⟩ := Option.isSome_iff_exists.mp (hf k (by simp))
    obtain ⟨ej, _, _⟩ := pageOut_jobs s k d hd
    have hf' : ∀ w ∈ ws, (find? (pageOut s k).ds w).isSome = true := by
      intro w hw; rw [pageOut_isSome]; exact hf w (List.mem_cons_of_mem _ hw)
    obtain ⟨J, hJ, hall, hsum⟩ := ih (pageOut s k) hf'
    refine ⟨{ id := s.nextJob, kind := .out, key := k, gen := d.gen, size := d.size, io := none } :: J, ?_, ?_, ?_⟩
    · simp only [pageOutAll, List.foldl_cons] at hJ ⊢
      rw [hJ, ej]; simp
    · intro j hj
      rcases List.mem_cons.mp hj with hj | hj
      · subst hj; exact ⟨rfl, rfl, by simp⟩
      · obtain ⟨a, b, c⟩ := hall j hj
        exact ⟨a, b, List.mem_cons_of_mem _ c⟩
    · simp only [List.map_cons, List.sum_cons]
      rw [hsum]
      have e1 : dsize s.ds k = d.size := by simp [dsize, hd]
      have e2 : ws.map (dsize (pageOut s k).ds) = ws.map (dsize s.ds) := by
        apply List.map_congr_left; intro w _; exact pageOut_dsize s k w
      rw [e1, e2]

/-! ### completing page-out jobs -/

/-- run the I/O part (no injected fault) and then the callback of job `id` -/
def complete (s : St) (id : Nat) : St := (cbStep (ioStep s id .ok).1 id).1

/-- complete the given jobs one after the other -/
def drain (s : St) (js : List Job) : St := js.foldl (fun u j => complete u j.id) s

theorem findJob_of_mem (js : List Job) (j : Job) (hj : j ∈ js) (hp : js.Pairwise (fun a b => a.id ≠ b.id)) :
    findJob js j.id = some j := by
  induction js with
  | nil => cases hj
  | cons x js ih =>
    rw [List.pairwise_cons] at hp
    rcases List.mem_cons.mp hj with hj | hj
    · subst hj; simp [findJob]
    · have : x.id ≠ j.id := hp.1 j hj
      simp [findJob, this, ih hj hp.2]

theorem eraseJob_setJobIo (js : List Job) (id : Nat) (r : Bool) : eraseJob (setJobIo js id r) id = eraseJob js id := by
  induction js with
  | nil => rfl
  | cons x xs ih =>
    unfold eraseJob setJobIo at ih ⊢
    simp only [List.map_cons, List.filter_cons]
    by_cases hx : x.id = id
    · simp [hx]; simpa using ih
    · simp [hx]; simpa using ih

theorem complete_out (s : St) (j : Job) (hb : Base s) (hc : Core s) (hj : j ∈ s.jobs) (hk : j.kind = .out)
    (hio : j.io = none) (g : Seg) (hg : find? s.segs j.key = some g) :
    (complete s j.id).free = s.free + j.size ∧ (complete s j.id).cap = s.cap ∧
    (complete s j.id).jobs = eraseJob s.jobs j.id ∧
    (∀ x, (find? (complete s j.id).ds x).isSome = (find? s.ds x).isSome) ∧
    (∀ x, x ≠ j.key → find? (complete s j.id).segs x = find? s.segs x) := by
  have hf := findJob_of_mem s.jobs j hj hb.ids
  -- the I/O part
  have e1 : (ioStep s j.id .ok).1 = { s with files := put s.files j.key g, segs := erase s.segs j.key, jobs := setJobIo s.jobs j.id true } := by
    simp [ioStep, hf, hio, hk, hg]
  -- the job as seen by the callback
  have hj' : { j with io := some true } ∈ setJobIo s.jobs j.id true := by
    rw [mem_setJobIo]; exact ⟨j, hj, by simp⟩
  have hp' : (setJobIo s.jobs j.id true).Pairwise (fun a b => a.id ≠ b.id) :=
    pairwise_setJobIo (fun j => j.id) (fun _ _ => rfl) _ _ _ hb.ids
  have hf' : findJob (setJobIo s.jobs j.id true) j.id = some { j with io := some true } :=
    findJob_of_mem _ { j with io := some true } hj' hp'
  obtain ⟨d, hd, hgen, _, _⟩ := hc.jobLink j hj
  have e2 := eraseJob_setJobIo s.jobs j.id true
  have e3 : (complete s j.id) =
      decCount { s with files := put s.files j.key g, segs := erase s.segs j.key, jobs := eraseJob s.jobs j.id, ds := set s.ds j.key { d with status := .onDisk }, free := s.free + j.size } := by
    unfold complete
    rw [e1]
    simp [cbStep, hf', hk, e2, setStatusIfSame, hd, hgen]
  rw [e3]
  refine ⟨rfl, rfl, rfl, ?_, ?_⟩
  · intro x
    simp only [decCount, find?_set, hd]
    by_cases hx : x = j.key
    · subst hx; simp [hd]
    · simp [hx]
  · intro x hx
    exact find?_erase_ne _ _ _ hx

theorem eraseJob_head (j : Job) (js : List Job) (hp : (j :: js).Pairwise (fun a b => a.id ≠ b.id)) :
    eraseJob (j :: js) j.id = js := by
  rw [List.pairwise_cons] at hp
  unfold eraseJob
  simp only [List.filter_cons, ne_eq, not_true_eq_false, decide_false, Bool.false_eq_true, ↓reduceIte]
  apply List.filter_eq_self.mpr
  intro a ha
  have := hp.1 a ha
  simp; exact fun e => this e.symm

/-- completing every pending job of a state whose jobs are all fresh page-outs with existing
segments returns the sum of their sizes, keeps the key set and empties the pool -/
theorem drain_all (l : List Job) : ∀ (s : St), Base s → Core s → s.jobs = l →
    (∀ j ∈ l, j.kind = .out ∧ j.io = none ∧ (find? s.segs j.key).isSome = true) →
    (drain s l).free = s.free + (l.map (·.size)).sum ∧ (drain s l).cap = s.cap ∧ (drain s l).jobs = [] ∧
    (∀ x, (find? (drain s l).ds x).isSome = (find? s.ds x).isSome) := by
  induction l with
  | nil => intro s _ _ hl _; exact ⟨by simp [drain], rfl, hl, fun _ => rfl⟩
  | cons j js ih =>
    intro s hb hc hl hall
    have hj : j ∈ s.jobs := by rw [hl]; simp
    obtain ⟨hk, hio, hseg⟩ := hall j (by simp)
    obtain ⟨g, hg⟩ := Option.isSome_iff_exists.mp hseg
    obtain ⟨r1, r2, r3, r4, r5⟩ := complete_out s j hb hc hj hk hio g hg
    have hb' : Base (complete s j.id) := base_step _ (.cb j.id) (base_step s (.io j.id .ok) hb)
    have hc' : Core (complete s j.id) :=
      core_step _ (.cb j.id) (base_step s (.io j.id .ok) hb) (core_step s (.io j.id .ok) hb hc rfl) rfl
    have hjobs : (complete s j.id).jobs = js := by
      rw [r3, hl]; exact eraseJob_head j js (by rw [← hl]; exact hb.ids)
    have hkeys : ∀ j' ∈ js, j'.key ≠ j.key := by
      have := hc.jobKeys
      rw [hl, List.pairwise_cons] at this
      intro j' hj'; exact fun e => this.1 j' hj' e.symm
    have hall' : ∀ j' ∈ js, j'.kind = .out ∧ j'.io = none ∧ (find? (complete s j.id).segs j'.key).isSome = true := by
      intro j' hj'
      obtain ⟨a, b, c⟩ := hall j' (List.mem_cons_of_mem _ hj')
      exact ⟨a, b, by rw [r5 _ (hkeys j' hj')]; exact c⟩
    obtain ⟨q1, q2, q3, q4⟩ := ih (complete s j.id) hb' hc' hjobs hall'
    have e : drain s (j :: js) = drain (complete s j.id) js := by simp [drain]
    rw [e]
    refine ⟨?_, by rw [q2, r2], q3, fun x => (q4 x).trans (r4 x)⟩
    rw [q1, r1]; simp; omega

end Aux
end EkwVerif.Shm
