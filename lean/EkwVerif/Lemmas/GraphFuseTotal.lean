/-
Helper lemmas for Props/C11.lean: total correctness of `fuse_nodes` (it returns on every well-formed
graph, with a well-formed result) for callbacks that answer with structurally sane nodes.
-/
import EkwVerif.Lemmas.GraphFuse
import EkwVerif.Lemmas.GraphExpand

namespace EkwVerif.Graph

/-- The structural restrictions on a fusion callback (no interpretation involved): the node `F` it
answers with for (parent `P`, current `C`) has distinct input names, is connected only to what `P` or
`C` are connected to, and declares at least the outputs of `C` (the consumers of `C` are re-wired to
`F`). -/
def FuseStruct (func : FuseFunc) : Prop :=
  ∀ (P C F : Node) (pout cin : Name), func P pout C cin = some F →
    (P.inputs.map (·.1)).Nodup → (C.inputs.map (·.1)).Nodup →
    (F.inputs.map (·.1)).Nodup ∧
    (∀ x ∈ F.inputs, (∃ y ∈ P.inputs, y.2 = x.2) ∨ (∃ y ∈ C.inputs, y.2 = x.2)) ∧
    (∀ o ∈ C.outputs, o ∈ F.outputs)

namespace Aux

theorem transInputs_total {σ : Type} (tr : Transformer σ Nat Ref) (s : σ) (out : List Node)
    (htr : ∀ t o, tr.output s t o = nodeOutput out t o) (done : List Nat) (ins : List (Name × Ref))
    (h : ∀ x ∈ ins, ∃ t m, done[x.2.1]? = some t ∧ out[t]? = some m ∧ x.2.2 ∈ m.outputs) :
    transInputs tr s done ins = .ok (remap done ins) := by
  unfold transInputs remap
  apply mapE_total
  intro x hx
  obtain ⟨t, m, h1, h2, h3⟩ := h x hx
  simp [h1, htr, nodeOutput, h2, h3, List.getD_eq_getElem?_getD]

/-- a reference into the store that names a declared output -/
def RefOKIn (out : List Node) (r : Ref) : Prop := ∃ m, out[r.1]? = some m ∧ r.2 ∈ m.outputs

theorem refOKIn_of_wf (out : List Node) (hwf : WFNodes out) (t : Nat) (P : Node) (hP : out[t]? = some P) :
    (P.inputs.map (·.1)).Nodup ∧ ∀ y ∈ P.inputs, RefOKIn out y.2 := by
  have hok := wf_get out hwf t P hP
  refine ⟨hok.1, fun y hy => ?_⟩
  obtain ⟨m, hm, ho⟩ := hok.2 y hy
  exact ⟨m, get_of_prefix (List.take_prefix t out) hm, ho⟩

/-- the loop of `_FuseTransformer.node` keeps the structural facts -/
theorem fuseLoop_struct (func : FuseFunc) (hs : FuseStruct func) (s : FuseSt) (hwf : WFNodes s.out) (outs : List Name)
    (xs : List (Name × Ref)) : ∀ (acc : Node × Bool), (acc.1.inputs.map (·.1)).Nodup →
      (∀ y ∈ acc.1.inputs, RefOKIn s.out y.2) → (∀ o ∈ outs, o ∈ acc.1.outputs) →
      let r := fuseLoop func s xs acc
      (r.1.inputs.map (·.1)).Nodup ∧ (∀ y ∈ r.1.inputs, RefOKIn s.out y.2) ∧ (∀ o ∈ outs, o ∈ r.1.outputs) := by
  induction xs with
  | nil => intro acc h1 h2 h3; exact ⟨h1, h2, h3⟩
  | cons x xs ih =>
    intro acc h1 h2 h3
    simp only [fuseLoop]
    split
    · exact ih acc h1 h2 h3
    · cases hP : s.out[x.2.1]? with
      | none => simp only; exact ih acc h1 h2 h3
      | some P =>
        simp only
        cases hf : func P x.2.2 acc.1 x.1 with
        | none => simp only; exact ih acc h1 h2 h3
        | some F =>
          simp only
          obtain ⟨hPnd, hPrefs⟩ := refOKIn_of_wf s.out hwf x.2.1 P hP
          obtain ⟨hFnd, hFrefs, hFouts⟩ := hs P acc.1 F x.2.2 x.1 hf hPnd h1
          refine ih (F, true) hFnd ?_ (fun o ho => hFouts o (h3 o ho))
          intro y hy
          rcases hFrefs y hy with ⟨z, hz, hzy⟩ | ⟨z, hz, hzy⟩
          · rw [← hzy]; exact hPrefs z hz
          · rw [← hzy]; exact h2 z hz

theorem RefOKIn.mono {out : List Node} {r : Ref} (h : RefOKIn out r) (more : List Node) : RefOKIn (out ++ more) r := by
  obtain ⟨m, hm, ho⟩ := h
  exact ⟨m, get_append_of_some hm _, ho⟩

/-- Invariant of the traversal of `_FuseTransformer` (structure only). -/
structure FSInv (pre : List Node) (st : FuseSt × List Nat) : Prop where
  wf : WFNodes st.1.out
  doneLen : st.2.length = pre.length
  origLen : st.1.orig.length = pre.length
  doneOut : ∀ (i : Nat) (n : Node), pre[i]? = some n →
    ∃ t m, st.2[i]? = some t ∧ st.1.out[t]? = some m ∧ ∀ o ∈ n.outputs, o ∈ m.outputs
  origOut : ∀ (i : Nat) (n : Node), pre[i]? = some n →
    ∃ t m, st.1.orig[i]? = some t ∧ st.1.out[t]? = some m ∧ ∀ o ∈ n.outputs, o ∈ m.outputs

theorem refs_remap (pre out : List Node) (d : List Nat) (a : Node) (hok : NodeOK pre a)
    (hd : ∀ (i : Nat) (n : Node), pre[i]? = some n → ∃ t m, d[i]? = some t ∧ out[t]? = some m ∧ ∀ o ∈ n.outputs, o ∈ m.outputs) :
    ∀ y ∈ remap d a.inputs, RefOKIn out y.2 := by
  intro y hy
  simp only [remap, List.mem_map] at hy
  obtain ⟨x, hx, rfl⟩ := hy
  obtain ⟨m0, hm0, ho⟩ := hok.2 x hx
  obtain ⟨t, m, h1, h2, h3⟩ := hd _ _ hm0
  exact ⟨m, by simpa [List.getD_eq_getElem?_getD, h1] using h2, h3 _ ho⟩

theorem fuseS_step (func : FuseFunc) (hs : FuseStruct func) (counts : List Nat) (pre : List Node) (a : Node)
    (hok : NodeOK pre a) (st : FuseSt × List Nat) (hinv : FSInv pre st) :
    ∃ st', step (fuser func counts) st a = .ok st' ∧ FSInv (pre ++ [a]) st' := by
  obtain ⟨s, done⟩ := st
  obtain ⟨hwf, hdl, hol, hdo, hoo⟩ := hinv
  simp only at hwf hdl hol hdo hoo
  have hti : transInputs (fuser func counts) s done a.inputs = .ok (remap done a.inputs) := by
    apply transInputs_total (fuser func counts) s s.out (fun _ _ => rfl)
    intro x hx
    obtain ⟨m0, hm0, ho⟩ := hok.2 x hx
    obtain ⟨t, m, h1, h2, h3⟩ := hdo _ _ hm0
    exact ⟨t, m, h1, h2, h3 _ ho⟩
  have hUrefs := refs_remap pre s.out done a hok hdo
  have hCrefs := refs_remap pre s.out s.orig a hok hoo
  have hnd : ∀ d : List Nat, ((remap d a.inputs).map (·.1)).Nodup := fun d => by rw [remap_keys]; exact hok.1
  have hloop := fuseLoop_struct func hs s hwf a.outputs (remap done a.inputs)
    ({ a with inputs := remap s.orig a.inputs }, false) (hnd s.orig) hCrefs (fun o ho => ho)
  simp only at hloop
  obtain ⟨hrnd, hrrefs, hrouts⟩ := hloop
  have hnew : ∀ (i : Nat) (n : Node), ¬ i < pre.length → (pre ++ [a])[i]? = some n → i = pre.length ∧ n = a := by
    intro i n hi hn
    have hlt := (List.getElem?_eq_some_iff.1 hn).1
    simp at hlt
    have : i = pre.length := by omega
    subst this
    simp at hn
    exact ⟨rfl, hn.symm⟩
  have hold : ∀ (d : List Nat) (e : List Node) (t' : Nat),
      (∀ (i : Nat) (n : Node), pre[i]? = some n → ∃ t m, d[i]? = some t ∧ s.out[t]? = some m ∧ ∀ o ∈ n.outputs, o ∈ m.outputs) →
      ∀ (i : Nat) (n : Node), i < pre.length → (pre ++ [a])[i]? = some n →
        ∃ t m, (d ++ [t'])[i]? = some t ∧ (s.out ++ e)[t]? = some m ∧ ∀ o ∈ n.outputs, o ∈ m.outputs := by
    intro d e t' hd i n hi hn
    rw [List.getElem?_append_left hi] at hn
    obtain ⟨t, m, h1, h2, h3⟩ := hd i n hn
    exact ⟨t, m, get_append_of_some h1 _, get_append_of_some h2 _, h3⟩
  simp only [step, hti, nodeVisit_node_only (fuser func counts) _ rfl rfl rfl rfl]
  rw [show fuseNode func counts s a (remap done a.inputs) = _ from fuseNode_eq func counts s a (remap done a.inputs)]
  by_cases hr2 : (fuseLoop func s (remap done a.inputs) ({ a with inputs := remap s.orig a.inputs }, false)).2 = true
  · rw [if_pos hr2]
    refine ⟨_, rfl, ?_, by simp [hdl], by simp [hol], ?_, ?_⟩
    · show WFNodes (s.out ++ [_, _])
      have h1 : WFNodes (s.out ++ [{ a with inputs := remap s.orig a.inputs }]) :=
        (wf_snoc _ _).2 ⟨hwf, hnd s.orig, hCrefs⟩
      have : s.out ++ [{ a with inputs := remap s.orig a.inputs },
          (fuseLoop func s (remap done a.inputs) ({ a with inputs := remap s.orig a.inputs }, false)).1] =
          s.out ++ [{ a with inputs := remap s.orig a.inputs }] ++
            [(fuseLoop func s (remap done a.inputs) ({ a with inputs := remap s.orig a.inputs }, false)).1] := by simp
      rw [this]
      exact (wf_snoc _ _).2 ⟨h1, hrnd, fun y hy => (hrrefs y hy).mono _⟩
    · intro i n hn
      by_cases hi : i < pre.length
      · exact hold done _ _ hdo i n hi hn
      · obtain ⟨rfl, rfl⟩ := hnew i n hi hn
        exact ⟨s.out.length + 1, _, by simp only; rw [← hdl]; simp, by simp, hrouts⟩
    · intro i n hn
      by_cases hi : i < pre.length
      · exact hold s.orig _ _ hoo i n hi hn
      · obtain ⟨rfl, rfl⟩ := hnew i n hi hn
        exact ⟨s.out.length, { n with inputs := remap s.orig n.inputs }, by simp only; rw [← hol]; simp, by simp, fun o ho => ho⟩
  · rw [if_neg hr2]
    refine ⟨_, rfl, ?_, by simp [hdl], by simp [hol], ?_, ?_⟩
    · exact (wf_snoc _ _).2 ⟨hwf, hnd done, hUrefs⟩
    · intro i n hn
      by_cases hi : i < pre.length
      · exact hold done _ _ hdo i n hi hn
      · obtain ⟨rfl, rfl⟩ := hnew i n hi hn
        exact ⟨s.out.length, { n with inputs := remap done n.inputs }, by simp only; rw [← hdl]; simp, by simp, fun o ho => ho⟩
    · intro i n hn
      by_cases hi : i < pre.length
      · exact hold s.orig _ _ hoo i n hi hn
      · obtain ⟨rfl, rfl⟩ := hnew i n hi hn
        exact ⟨s.out.length, { n with inputs := remap done n.inputs }, by simp only; rw [← hol]; simp, by simp, fun o ho => ho⟩

theorem fuseS_run (func : FuseFunc) (hs : FuseStruct func) (counts : List Nat) (ns : List Node) (hwf : WFNodes ns) :
    ∃ st, run (fuser func counts) {} ns = .ok st ∧ FSInv ns st := by
  refine foldE_inv (step (fuser func counts)) ns FSInv ({}, []) ?_ ?_
  · exact ⟨trivial, rfl, rfl, fun i n hn => by simp at hn, fun i n hn => by simp at hn⟩
  · intro pre a post b hl hb
    exact fuseS_step func hs counts pre a (wf_split pre a post (hl ▸ hwf)).2 b hb

/-- the structural half of `FuseSound` -/
theorem fuseStruct_of_sound {V : Type} (I : Interp V) (func : FuseFunc) (hs : FuseSound I func)
    (ho : ∀ (P C F : Node) (pout cin : Name), func P pout C cin = some F → ∀ o ∈ C.outputs, o ∈ F.outputs) :
    FuseStruct func := by
  intro P C F pout cin hF hP hC
  obtain ⟨h1, h2, _, _⟩ := hs P C F pout cin hF hP hC
  exact ⟨h1, h2, ho P C F pout cin hF⟩

end Aux
end EkwVerif.Graph
