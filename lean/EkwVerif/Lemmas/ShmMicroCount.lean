/-
Thread-level model of `Manager.pageout_count` and of the release of `pageout_all` by the last callback of a page-out
batch (re-audit B, probe P3).

`page_out_at_least` (server thread) acquires `pageout_all`, sets `pageout_count = len(winners)` and submits one job per
winner; the callback of every job (success AND failure branch), in a pool thread of `Disk.writers` (4 workers), does

    with self.pageout_one:            -- acquire
        self.pageout_count -= 1       -- read · write
        if self.pageout_count == 0:   -- read again, test
            self.pageout_all.release()
                                      -- release pageout_one

Here every callback of the batch is a thread making these micro steps, interleaved arbitrarily.

  * when every callback takes `pageout_one` (the code as it is) the counter always equals the number of callbacks that
    have not yet written, `pageout_all` is released exactly once, by the callback that brings the counter to 0, never
    while a decrement is outstanding, never twice (`threading.Lock.release()` of an unlocked lock raises), and when all
    callbacks have finished the counter is 0 and the lock is free (`locked_batch_exact`, `locked_batch_done`);
  * with the decrement outside the lock there is an interleaving of two callbacks that loses a decrement: both have
    finished, the counter is 1 and `pageout_all` is held for ever (`unlocked_decrement_loses`).  The harness places a real
    second thread at the STORE_ATTR of `pageout_count` inside the real callback (op `race`, `attr: pageout_count`).
-/
namespace EkwVerif.Shm.MicroCount

inductive Pc
  | idle                -- callback not started
  | entered             -- inside `with pageout_one` (holding it if the site locks), counter not yet read
  | loaded (v : Int)    -- has read `v`
  | stored              -- has written `v - 1`
  | tested              -- has evaluated `if pageout_count == 0: pageout_all.release()`
  | done                -- has left the `with` block
deriving DecidableEq, Repr

structure Th where
  locking : Bool
  pc : Pc
deriving DecidableEq, Repr

/-- the callback has not yet written its decrement -/
def Th.pre (t : Th) : Bool :=
  match t.pc with
  | .idle | .entered | .loaded _ => true
  | _ => false

structure CSt where
  count : Int                -- pageout_count
  all : Bool                 -- pageout_all is held
  releases : Nat             -- ghost: successful releases of pageout_all
  bad : Bool                 -- ghost: a release of pageout_all while it was not held (RuntimeError in the callback)
  one : Option Nat           -- holder of pageout_one
  ths : List Th
deriving DecidableEq, Repr

/-- callback `i` makes its next micro step, if it can (`none` = blocked on `pageout_one`, finished, or no such thread) -/
def cstep (s : CSt) (i : Nat) : Option CSt :=
  match s.ths[i]? with
  | none => none
  | some t =>
    match t.pc with
    | .idle =>
      if t.locking then
        (if s.one.isSome then none else some { s with one := some i, ths := s.ths.set i { t with pc := .entered } })
      else some { s with ths := s.ths.set i { t with pc := .entered } }
    | .entered => some { s with ths := s.ths.set i { t with pc := .loaded s.count } }
    | .loaded v => some { s with count := v - 1, ths := s.ths.set i { t with pc := .stored } }
    | .stored =>
      if s.count = 0 then
        (if s.all then some { s with all := false, releases := s.releases + 1, ths := s.ths.set i { t with pc := .tested } }
         else some { s with bad := true, ths := s.ths.set i { t with pc := .tested } })
      else some { s with ths := s.ths.set i { t with pc := .tested } }
    | .tested => some { s with one := if t.locking then none else s.one, ths := s.ths.set i { t with pc := .done } }
    | .done => none

/-- a schedule = which callback moves next; one that cannot move is skipped -/
def crun (s : CSt) : List Nat → CSt
  | [] => s
  | i :: is => crun ((cstep s i).getD s) is

/-- the state `page_out_at_least` leaves behind: `pageout_all` held, counter = size of the batch, no callback started -/
def start (ths : List Th) : CSt :=
  { count := ths.length, all := true, releases := 0, bad := false, one := none, ths := ths }

theorem get_set (l : List Th) (i j : Nat) (t t' : Th) (h : l[i]? = some t) :
    (l.set i t')[j]? = if i = j then some t' else l[j]? := by
  have hi : i < l.length := (List.getElem?_eq_some_iff.mp h).1
  rw [List.getElem?_set]
  simp [hi]

theorem count_set (l : List Th) (i : Nat) (t t' : Th) (h : l[i]? = some t) :
    (l.set i t').countP Th.pre = (l.countP Th.pre - if t.pre then 1 else 0) + if t'.pre then 1 else 0 := by
  obtain ⟨hi, ht⟩ := List.getElem?_eq_some_iff.mp h
  rw [List.countP_set hi, ht]

theorem count_same (l : List Th) (i : Nat) (t t' : Th) (h : l[i]? = some t) (e : t'.pre = t.pre) :
    (l.set i t').countP Th.pre = l.countP Th.pre := by
  rw [count_set l i t t' h, e]
  cases hp : t.pre with
  | false => simp
  | true =>
    have : 0 < l.countP Th.pre := List.countP_pos_iff.mpr ⟨t, List.mem_iff_getElem?.mpr ⟨i, h⟩, hp⟩
    simp; omega

theorem count_dec (l : List Th) (i : Nat) (t t' : Th) (h : l[i]? = some t) (e1 : t.pre = true) (e2 : t'.pre = false) :
    (l.set i t').countP Th.pre + 1 = l.countP Th.pre := by
  rw [count_set l i t t' h, e1, e2]
  have : 0 < l.countP Th.pre := List.countP_pos_iff.mpr ⟨t, List.mem_iff_getElem?.mpr ⟨i, h⟩, e1⟩
  simp; omega

theorem count_pos (l : List Th) (i : Nat) (t : Th) (h : l[i]? = some t) (hp : t.pre = true) : 0 < l.countP Th.pre :=
  List.countP_pos_iff.mpr ⟨t, List.mem_iff_getElem?.mpr ⟨i, h⟩, hp⟩

structure Inv (s : CSt) : Prop where
  allLock : ∀ (j : Nat) (t : Th), s.ths[j]? = some t → t.locking = true
  cnt : s.count = ((s.ths.countP Th.pre : Nat) : Int)
  holder : ∀ (j : Nat) (t : Th), s.ths[j]? = some t → t.pc ≠ Pc.idle → t.pc ≠ Pc.done → s.one = some j
  fresh : ∀ (j : Nat) (t : Th) (v : Int), s.ths[j]? = some t → t.pc = Pc.loaded v → v = s.count
  good : s.bad = false
  rel : s.releases = if s.all then 0 else 1
  released : s.all = false → ∀ (j : Nat) (t : Th), s.ths[j]? = some t → t.pc = Pc.tested ∨ t.pc = Pc.done
  held : s.all = true → 0 < s.ths.countP Th.pre ∨ ∃ (j : Nat) (t : Th), s.ths[j]? = some t ∧ t.pc = Pc.stored

theorem inv_cstep (s s' : CSt) (i : Nat) (h : Inv s) (hs : cstep s i = some s') : Inv s' := by
  obtain ⟨hl, hc, hh, hf, hg, hr, hrel, hheld⟩ := h
  unfold cstep at hs
  cases hti : s.ths[i]? with
  | none => simp [hti] at hs
  | some t =>
    simp only [hti] at hs
    have hli := hl i t hti
    cases hpc : t.pc with
    | idle =>
      simp only [hpc, hli, ↓reduceIte] at hs
      cases hone : s.one with
      | some o => simp [hone] at hs
      | none =>
        simp only [hone, Option.isSome_none, Bool.false_eq_true, ↓reduceIte, Option.some.injEq] at hs
        subst hs
        have hall : s.all = true := by
          cases ha : s.all with
          | true => rfl
          | false => rcases hrel ha i t hti with h1 | h1 <;> rw [hpc] at h1 <;> cases h1
        have hpre : t.pre = true := by simp [Th.pre, hpc]
        have hpos := count_pos _ _ _ hti hpre
        have hsame : (s.ths.set i { t with pc := Pc.entered }).countP Th.pre = s.ths.countP Th.pre :=
          count_same _ _ _ _ hti (by simp [Th.pre, hpc])
        refine ⟨?_, ?_, ?_, ?_, hg, hr, ?_, ?_⟩
        · intro j tj hj
          simp only [get_set _ _ _ _ _ hti] at hj
          by_cases e : i = j
          · simp only [e, ↓reduceIte, Option.some.injEq] at hj; subst hj; first | exact hli | rfl | simp [hli]
          · simp only [e, ↓reduceIte] at hj; exact hl j tj hj
        · show _ = ((List.countP Th.pre (List.set _ _ _) : Nat) : Int); rw [count_same _ _ _ _ hti] <;> first | exact hc | (rw [hzero]; rfl) | simp [Th.pre, hpc]
        · intro j tj hj h1 h2
          simp only [get_set _ _ _ _ _ hti] at hj
          by_cases e : i = j
          · simp [e]
          · simp only [e, ↓reduceIte] at hj
            have := hh j tj hj h1 h2; rw [hone] at this; cases this
        · intro j tj v hj hv
          simp only [get_set _ _ _ _ _ hti] at hj
          by_cases e : i = j
          · simp only [e, ↓reduceIte, Option.some.injEq] at hj; subst hj; simp at hv
          · simp only [e, ↓reduceIte] at hj; exact hf j tj v hj hv
        · intro ha; simp only [hall] at ha; cases ha
        · intro _
          rcases hheld hall with h1 | ⟨j, tj, hj, hst⟩
          · left; show 0 < List.countP Th.pre (List.set _ _ _); rw [count_same _ _ _ _ hti] <;> first | exact h1 | simp [Th.pre, hpc]
          · right
            refine ⟨j, tj, ?_, hst⟩
            simp only [get_set _ _ _ _ _ hti]
            by_cases e : i = j
            · subst e; rw [hti] at hj; cases hj; rw [hpc] at hst; cases hst
            · simp [e, hj]
    | entered =>
      simp only [hpc, Option.some.injEq] at hs
      subst hs
      have hi := hh i t hti (by rw [hpc]; simp) (by rw [hpc]; simp)
      have hall : s.all = true := by
        cases ha : s.all with
        | true => rfl
        | false => rcases hrel ha i t hti with h1 | h1 <;> rw [hpc] at h1 <;> cases h1
      have hpre : t.pre = true := by simp [Th.pre, hpc]
      have hpos := count_pos _ _ _ hti hpre
      have hsame : (s.ths.set i { t with pc := Pc.loaded s.count }).countP Th.pre = s.ths.countP Th.pre :=
        count_same _ _ _ _ hti (by simp [Th.pre, hpc])
      refine ⟨?_, ?_, ?_, ?_, hg, hr, ?_, ?_⟩
      · intro j tj hj
        simp only [get_set _ _ _ _ _ hti] at hj
        by_cases e : i = j
        · simp only [e, ↓reduceIte, Option.some.injEq] at hj; subst hj; first | exact hli | rfl | simp [hli]
        · simp only [e, ↓reduceIte] at hj; exact hl j tj hj
      · show _ = ((List.countP Th.pre (List.set _ _ _) : Nat) : Int); rw [count_same _ _ _ _ hti] <;> first | exact hc | (rw [hzero]; rfl) | simp [Th.pre, hpc]
      · intro j tj hj h1 h2
        simp only [get_set _ _ _ _ _ hti] at hj
        by_cases e : i = j
        · simp [← e, hi]
        · simp only [e, ↓reduceIte] at hj; exact hh j tj hj h1 h2
      · intro j tj v hj hv
        simp only [get_set _ _ _ _ _ hti] at hj
        by_cases e : i = j
        · simp only [e, ↓reduceIte, Option.some.injEq] at hj; subst hj; simp at hv; exact hv.symm
        · simp only [e, ↓reduceIte] at hj; exact hf j tj v hj hv
      · intro ha; simp only [hall] at ha; cases ha
      · intro _
        rcases hheld hall with h1 | ⟨j, tj, hj, hst⟩
        · left; show 0 < List.countP Th.pre (List.set _ _ _); rw [count_same _ _ _ _ hti] <;> first | exact h1 | simp [Th.pre, hpc]
        · right
          refine ⟨j, tj, ?_, hst⟩
          simp only [get_set _ _ _ _ _ hti]
          by_cases e : i = j
          · subst e; rw [hti] at hj; cases hj; rw [hpc] at hst; cases hst
          · simp [e, hj]
    | loaded v =>
      simp only [hpc, Option.some.injEq] at hs
      subst hs
      have hi := hh i t hti (by rw [hpc]; simp) (by rw [hpc]; simp)
      have hv := hf i t v hti hpc
      have hall : s.all = true := by
        cases ha : s.all with
        | true => rfl
        | false => rcases hrel ha i t hti with h1 | h1 <;> rw [hpc] at h1 <;> cases h1
      have hpre : t.pre = true := by simp [Th.pre, hpc]
      have hpos := count_pos _ _ _ hti hpre
      have hdec : (s.ths.set i { t with pc := Pc.stored }).countP Th.pre + 1 = s.ths.countP Th.pre :=
        count_dec _ _ _ _ hti hpre (by simp [Th.pre])
      refine ⟨?_, ?_, ?_, ?_, hg, hr, ?_, ?_⟩
      · intro j tj hj
        simp only [get_set _ _ _ _ _ hti] at hj
        by_cases e : i = j
        · simp only [e, ↓reduceIte, Option.some.injEq] at hj; subst hj; first | exact hli | rfl | simp [hli]
        · simp only [e, ↓reduceIte] at hj; exact hl j tj hj
      · show (v - 1 : Int) = ((List.countP Th.pre (s.ths.set i { t with pc := Pc.stored }) : Nat) : Int)
        omega
      · intro j tj hj h1 h2
        simp only [get_set _ _ _ _ _ hti] at hj
        by_cases e : i = j
        · simp [← e, hi]
        · simp only [e, ↓reduceIte] at hj; exact hh j tj hj h1 h2
      · intro j tj w hj hw
        simp only [get_set _ _ _ _ _ hti] at hj
        by_cases e : i = j
        · simp only [e, ↓reduceIte, Option.some.injEq] at hj; subst hj; simp at hw
        · simp only [e, ↓reduceIte] at hj
          -- another callback that has read would hold pageout_one too
          have h1 := hh j tj hj (by rw [hw]; simp) (by rw [hw]; simp)
          rw [hi] at h1; exact absurd (Option.some.inj h1) e
      · intro ha; simp only [hall] at ha; cases ha
      · intro _
        right
        refine ⟨i, { t with pc := .stored }, ?_, rfl⟩
        simp [get_set _ _ _ _ _ hti]
    | stored =>
      have hi := hh i t hti (by rw [hpc]; simp) (by rw [hpc]; simp)
      have hpre : t.pre = false := by simp [Th.pre, hpc]
      have hsame : (s.ths.set i { t with pc := Pc.tested }).countP Th.pre = s.ths.countP Th.pre :=
        count_same _ _ _ _ hti (by simp [Th.pre, hpc])
      have hall : s.all = true := by
        cases ha : s.all with
        | true => rfl
        | false => rcases hrel ha i t hti with h1 | h1 <;> rw [hpc] at h1 <;> cases h1
      -- the other callbacks are outside the critical section
      have hother : ∀ j tj, s.ths[j]? = some tj → i ≠ j → tj.pc = .idle ∨ tj.pc = .done := by
        intro j tj hj e
        by_cases h1 : tj.pc = .idle
        · exact Or.inl h1
        · by_cases h2 : tj.pc = .done
          · exact Or.inr h2
          · have := hh j tj hj h1 h2; rw [hi] at this; exact absurd (Option.some.inj this) e
      simp only [hpc, hall, ↓reduceIte] at hs
      by_cases hz : s.count = 0
      · simp only [hz, ↓reduceIte, Option.some.injEq] at hs
        subst hs
        have hzero : s.ths.countP Th.pre = 0 := by rw [hz] at hc; omega
        have hnone := List.countP_eq_zero.mp hzero
        refine ⟨?_, ?_, ?_, ?_, hg, ?_, ?_, ?_⟩
        · intro j tj hj
          simp only [get_set _ _ _ _ _ hti] at hj
          by_cases e : i = j
          · simp only [e, ↓reduceIte, Option.some.injEq] at hj; subst hj; first | exact hli | rfl | simp [hli]
          · simp only [e, ↓reduceIte] at hj; exact hl j tj hj
        · show _ = ((List.countP Th.pre (List.set _ _ _) : Nat) : Int); rw [count_same _ _ _ _ hti] <;> first | exact hc | (rw [hzero]; rfl) | simp [Th.pre, hpc]
        · intro j tj hj h1 h2
          simp only [get_set _ _ _ _ _ hti] at hj
          by_cases e : i = j
          · simp [← e, hi]
          · simp only [e, ↓reduceIte] at hj; exact hh j tj hj h1 h2
        · intro j tj w hj hw
          simp only [get_set _ _ _ _ _ hti] at hj
          by_cases e : i = j
          · simp only [e, ↓reduceIte, Option.some.injEq] at hj; subst hj; simp at hw
          · simp only [e, ↓reduceIte] at hj; first | exact hf j tj w hj hw | (have := hf j tj w hj hw; rw [hz] at this; exact this)
        · simp [hr, hall]
        · intro _ j tj hj
          simp only [get_set _ _ _ _ _ hti] at hj
          by_cases e : i = j
          · simp only [e, ↓reduceIte, Option.some.injEq] at hj; subst hj; exact Or.inl rfl
          · simp only [e, ↓reduceIte] at hj
            rcases hother j tj hj e with h1 | h1
            · exact absurd (by simp [Th.pre, h1]) (hnone tj (List.mem_iff_getElem?.mpr ⟨j, hj⟩))
            · exact Or.inr h1
        · intro ha; cases ha
      · simp only [hz, ↓reduceIte, Option.some.injEq] at hs
        subst hs
        have hpos : 0 < s.ths.countP Th.pre := by rw [hc] at hz; omega
        refine ⟨?_, ?_, ?_, ?_, hg, (by simp [hr, hall]), ?_, ?_⟩
        · intro j tj hj
          simp only [get_set _ _ _ _ _ hti] at hj
          by_cases e : i = j
          · simp only [e, ↓reduceIte, Option.some.injEq] at hj; subst hj; first | exact hli | rfl | simp [hli]
          · simp only [e, ↓reduceIte] at hj; exact hl j tj hj
        · show _ = ((List.countP Th.pre (List.set _ _ _) : Nat) : Int); rw [count_same _ _ _ _ hti] <;> first | exact hc | (rw [hzero]; rfl) | simp [Th.pre, hpc]
        · intro j tj hj h1 h2
          simp only [get_set _ _ _ _ _ hti] at hj
          by_cases e : i = j
          · simp [← e, hi]
          · simp only [e, ↓reduceIte] at hj; exact hh j tj hj h1 h2
        · intro j tj w hj hw
          simp only [get_set _ _ _ _ _ hti] at hj
          by_cases e : i = j
          · simp only [e, ↓reduceIte, Option.some.injEq] at hj; subst hj; simp at hw
          · simp only [e, ↓reduceIte] at hj; first | exact hf j tj w hj hw | (have := hf j tj w hj hw; rw [hz] at this; exact this)
        · intro ha; simp only [hall] at ha; cases ha
        · intro _; left; show 0 < List.countP Th.pre (List.set _ _ _); rw [count_same _ _ _ _ hti] <;> first | exact hpos | simp [Th.pre, hpc]
    | tested =>
      simp only [hpc, hli, ↓reduceIte, Option.some.injEq] at hs
      subst hs
      have hi := hh i t hti (by rw [hpc]; simp) (by rw [hpc]; simp)
      have hpre : t.pre = false := by simp [Th.pre, hpc]
      have hsame : (s.ths.set i { t with pc := Pc.done }).countP Th.pre = s.ths.countP Th.pre :=
        count_same _ _ _ _ hti (by simp [Th.pre, hpc])
      have hother : ∀ j tj, s.ths[j]? = some tj → i ≠ j → tj.pc = .idle ∨ tj.pc = .done := by
        intro j tj hj e
        by_cases h1 : tj.pc = .idle
        · exact Or.inl h1
        · by_cases h2 : tj.pc = .done
          · exact Or.inr h2
          · have := hh j tj hj h1 h2; rw [hi] at this; exact absurd (Option.some.inj this) e
      refine ⟨?_, ?_, ?_, ?_, hg, hr, ?_, ?_⟩
      · intro j tj hj
        simp only [get_set _ _ _ _ _ hti] at hj
        by_cases e : i = j
        · simp only [e, ↓reduceIte, Option.some.injEq] at hj; subst hj; first | exact hli | rfl | simp [hli]
        · simp only [e, ↓reduceIte] at hj; exact hl j tj hj
      · show _ = ((List.countP Th.pre (List.set _ _ _) : Nat) : Int); rw [count_same _ _ _ _ hti] <;> first | exact hc | (rw [hzero]; rfl) | simp [Th.pre, hpc]
      · intro j tj hj h1 h2
        simp only [get_set _ _ _ _ _ hti] at hj
        by_cases e : i = j
        · simp only [e, ↓reduceIte, Option.some.injEq] at hj; subst hj; simp at h2
        · simp only [e, ↓reduceIte] at hj
          rcases hother j tj hj e with h3 | h3
          · exact absurd h3 h1
          · exact absurd h3 h2
      · intro j tj w hj hw
        simp only [get_set _ _ _ _ _ hti] at hj
        by_cases e : i = j
        · simp only [e, ↓reduceIte, Option.some.injEq] at hj; subst hj; simp at hw
        · simp only [e, ↓reduceIte] at hj; first | exact hf j tj w hj hw | (have := hf j tj w hj hw; rw [hz] at this; exact this)
      · intro ha j tj hj
        simp only [get_set _ _ _ _ _ hti] at hj
        by_cases e : i = j
        · simp only [e, ↓reduceIte, Option.some.injEq] at hj; subst hj; exact Or.inr rfl
        · simp only [e, ↓reduceIte] at hj; exact hrel ha j tj hj
      · intro ha
        rcases hheld ha with h1 | ⟨j, tj, hj, hst⟩
        · left; show 0 < List.countP Th.pre (List.set _ _ _); rw [count_same _ _ _ _ hti] <;> first | exact h1 | simp [Th.pre, hpc]
        · right
          refine ⟨j, tj, ?_, hst⟩
          simp only [get_set _ _ _ _ _ hti]
          by_cases e : i = j
          · subst e; rw [hti] at hj; cases hj; rw [hpc] at hst; cases hst
          · simp [e, hj]
    | done => simp [hpc] at hs

theorem inv_crun (sched : List Nat) : ∀ (s : CSt), Inv s → Inv (crun s sched) := by
  induction sched with
  | nil => intro s h; exact h
  | cons i is ih =>
    intro s h
    simp only [crun]
    cases hs : cstep s i with
    | none => simpa using ih s h
    | some s' => simpa using ih s' (inv_cstep s s' i h hs)

theorem inv_start (ths : List Th) (hne : ths ≠ []) (hl : ∀ t ∈ ths, t.locking = true) (hi : ∀ t ∈ ths, t.pc = .idle) :
    Inv (start ths) := by
  have hall : ths.countP Th.pre = ths.length := by
    rw [List.countP_eq_length]
    intro t ht; simp [Th.pre, hi t ht]
  refine ⟨?_, ?_, ?_, ?_, rfl, rfl, ?_, ?_⟩
  · intro j t hj; exact hl t (List.mem_iff_getElem?.mpr ⟨j, hj⟩)
  · simp [start, hall]
  · intro j t hj h1; exact absurd (hi t (List.mem_iff_getElem?.mpr ⟨j, hj⟩)) h1
  · intro j t v hj hv; rw [hi t (List.mem_iff_getElem?.mpr ⟨j, hj⟩)] at hv; cases hv
  · intro ha; simp [start] at ha
  · intro _; left
    show 0 < ths.countP Th.pre
    rw [hall]; exact List.length_pos_iff.mpr hne

/-- **The batch counter and lock under every interleaving, all callbacks locking**: for every non-empty batch and EVERY
interleaving of the micro steps of its callbacks, (1) the counter equals the number of callbacks that have not yet written
their decrement, (2) `pageout_all` is never released while it is not held, (3) it has been released at most once, exactly when it
is no longer held, (4) if it has been released, every callback has written (the counter is 0 and nobody is about to
decrement). -/
theorem locked_batch_exact (ths : List Th) (hne : ths ≠ []) (hl : ∀ t ∈ ths, t.locking = true) (hi : ∀ t ∈ ths, t.pc = .idle)
    (sched : List Nat) :
    let s := crun (start ths) sched
    s.count = ((s.ths.countP Th.pre : Nat) : Int) ∧ s.bad = false ∧ s.releases = (if s.all then 0 else 1) ∧
    (s.all = false → s.count = 0) := by
  have h := inv_crun sched _ (inv_start ths hne hl hi)
  refine ⟨h.cnt, h.good, h.rel, ?_⟩
  intro ha
  have h0 : (crun (start ths) sched).ths.countP Th.pre = 0 := by
    rw [List.countP_eq_zero]
    intro t ht
    obtain ⟨j, hj⟩ := List.mem_iff_getElem?.mp ht
    rcases h.released ha j t hj with h1 | h1 <;> simp [Th.pre, h1]
  rw [h.cnt, h0]; rfl

/-- … and when every callback of the batch has finished, the counter is 0 and `pageout_all` is free again, released once. -/
theorem locked_batch_done (ths : List Th) (hne : ths ≠ []) (hl : ∀ t ∈ ths, t.locking = true) (hi : ∀ t ∈ ths, t.pc = .idle)
    (sched : List Nat) (hd : ∀ t ∈ (crun (start ths) sched).ths, t.pc = .done) :
    (crun (start ths) sched).count = 0 ∧ (crun (start ths) sched).all = false ∧ (crun (start ths) sched).releases = 1 ∧
    (crun (start ths) sched).bad = false := by
  have h := inv_crun sched _ (inv_start ths hne hl hi)
  have h0 : (crun (start ths) sched).ths.countP Th.pre = 0 := by
    rw [List.countP_eq_zero]
    intro t ht; simp [Th.pre, hd t ht]
  have hall : (crun (start ths) sched).all = false := by
    cases ha : (crun (start ths) sched).all with
    | false => rfl
    | true =>
      rcases h.held ha with h1 | ⟨j, t, hj, hst⟩
      · omega
      · rw [hd t (List.mem_iff_getElem?.mpr ⟨j, hj⟩)] at hst; cases hst
  refine ⟨by rw [h.cnt, h0]; rfl, hall, by rw [h.rel, hall]; rfl, h.good⟩

/-- two callbacks of one batch whose decrement is NOT under `pageout_one` (probe P3 of the re-audit) -/
def racyBatch : List Th := [{ locking := false, pc := .idle }, { locking := false, pc := .idle }]

/-- callback 0 enters and reads 2; callback 1 enters, reads 2, writes 1, tests (1 ≠ 0), leaves; callback 0 writes 1, tests, leaves -/
def racySchedule : List Nat := [0, 0, 1, 1, 1, 1, 1, 0, 0, 0]

/-- **A decrement outside the lock can be lost**: both callbacks have finished, the counter is 1 and `pageout_all` is still held;
nobody is left to release it. -/
theorem unlocked_decrement_loses :
    (∀ t ∈ (crun (start racyBatch) racySchedule).ths, t.pc = .done) ∧ (crun (start racyBatch) racySchedule).count = 1 ∧
    (crun (start racyBatch) racySchedule).all = true ∧ (crun (start racyBatch) racySchedule).releases = 0 := by
  decide

/-- the same two callbacks, both locking: the same schedule cannot interleave them; run to the end the batch is released -/
def lockedBatch : List Th := [{ locking := true, pc := .idle }, { locking := true, pc := .idle }]

example : (∀ t ∈ (crun (start lockedBatch) (racySchedule ++ [1, 1, 1, 1, 1])).ths, t.pc = .done) ∧
    (crun (start lockedBatch) (racySchedule ++ [1, 1, 1, 1, 1])).count = 0 ∧
    (crun (start lockedBatch) (racySchedule ++ [1, 1, 1, 1, 1])).all = false ∧
    (crun (start lockedBatch) (racySchedule ++ [1, 1, 1, 1, 1])).releases = 1 := by decide

end EkwVerif.Shm.MicroCount
