/-
Preservation of the extra tier `InvT` (what `Sys.todo` remembers between `assign` and `plan`)
by every step, and its validity in the initial state.
-/
import EkwVerif.Lemmas.CtrlInv4B

set_option linter.unusedVariables false

namespace EkwVerif.Ctrl

theorem iT_nil (j : Job) (s : Sys) (h : s.todo = []) : InvT j s := by
  refine ⟨?_, ?_⟩
  · intro a prep hm; rw [h] at hm; cases hm
  · intro w t hm; simp [Sys.todoPairs, h] at hm

theorem iT_init (j : Job) (cl : Cluster) : InvT j (Sys.init j cl) := iT_nil j _ rfl

theorem iT_eligible (st : Status) (h : st.eligible = true) : st ≠ .missing := by
  intro he; subst he; simp [Status.eligible] at h

/-- `buildPrep` never resets a status to missing, and every element of the returned `prep` is an input
with a status at the worker's host -/
theorem iT_buildPrep (cl : Cluster) (w : Worker) (cands : List (Ds × Host)) (l : List Ds) (c c' : Ctl)
    (p : List (Ds × Host)) (hr : buildPrep cl w cands c l = .ok (c', p)) :
    (∀ h ds, c.hostDs h ds ≠ .missing → c'.hostDs h ds ≠ .missing) ∧
    (∀ q, q ∈ p → c'.hostDs w.host q.1 ≠ .missing ∧ q.1 ∈ l) := by
  induction l generalizing c c' p with
  | nil =>
    simp only [buildPrep, Except.ok.injEq, Prod.mk.injEq] at hr
    obtain ⟨rfl, rfl⟩ := hr
    exact ⟨fun _ _ h => h, by intro q hq; cases hq⟩
  | cons a l ih =>
    unfold buildPrep at hr
    split at hr
    · obtain ⟨m, n⟩ := ih _ _ _ hr
      exact ⟨m, fun q hq => ⟨(n q hq).1, List.mem_cons_of_mem _ (n q hq).2⟩⟩
    · split at hr
      · rename_i helig
        split at hr
        · cases hr
        · rename_i c2 p2 hc2
          cases hr
          obtain ⟨m, n⟩ := ih _ _ _ hc2
          refine ⟨m, ?_⟩
          intro q hq
          rcases List.mem_cons.mp hq with rfl | hq
          · exact ⟨m _ _ (iT_eligible _ helig), List.mem_cons_self⟩
          · exact ⟨(n q hq).1, List.mem_cons_of_mem _ (n q hq).2⟩
      · split at hr
        · split at hr
          · dsimp only at hr
            split at hr
            · cases hr
            · rename_i c2 p2 hc2
              cases hr
              obtain ⟨m, n⟩ := ih _ _ _ hc2
              refine ⟨?_, ?_⟩
              · intro h ds hne
                apply m
                simp only [i4b_upd2]
                split
                · simp
                · exact hne
              · intro q hq
                rcases List.mem_cons.mp hq with rfl | hq
                · refine ⟨m _ _ ?_, List.mem_cons_self⟩
                  simp only [i4b_upd2]
                  simp
                · exact ⟨(n q hq).1, List.mem_cons_of_mem _ (n q hq).2⟩
          · cases hr
        · split at hr <;> cases hr

theorem iT_assignOne (j : Job) (cl : Cluster) (c c' : Ctl) (a : Asg) (p : List (Ds × Host))
    (hr : assignOne j cl c a = .ok (c', p)) :
    (∀ h ds, c.hostDs h ds ≠ .missing → c'.hostDs h ds ≠ .missing) ∧
    (∀ q, q ∈ p → c'.hostDs a.worker.host q.1 ≠ .missing ∧ q.1 ∈ j.inputs a.task) ∧
    c'.announced = c.announced := by
  unfold assignOne at hr
  split at hr; · cases hr
  split at hr; · cases hr
  split at hr; · cases hr
  split at hr; · cases hr
  rename_i c2 prep hb
  simp only [Except.ok.injEq, Prod.mk.injEq] at hr
  obtain ⟨rfl, rfl⟩ := hr
  obtain ⟨m, n⟩ := iT_buildPrep _ _ _ _ _ _ _ hb
  have ha := buildPrep_announced _ _ _ _ _ _ _ hb
  exact ⟨m, n, ha⟩

theorem iT_step (f : Sem) (j : Job) (cl : Cluster) (s s' : Sys) (st : Step) (wf : WF j cl)
    (h1 : Inv1 cl s) (h2 : Inv2 j cl s) (h4 : Inv4 j cl s) (hT : InvT j s)
    (hs : step f j cl s st = some s') : InvT j s' := by
  cases st with
  | enter =>
    simp only [step] at hs
    split at hs; · cases hs
    split at hs
    · cases hs; exact ⟨hT.todo_prep, hT.todo_unannounced⟩
    · cases hs; exact iT_nil _ _ rfl
  | endAssign =>
    simp only [step] at hs
    split at hs; · cases hs
    cases hs; exact ⟨hT.todo_prep, hT.todo_unannounced⟩
  | endPlan =>
    simp only [step] at hs
    split at hs; · cases hs
    cases hs; exact ⟨hT.todo_prep, hT.todo_unannounced⟩
  | endFlushF =>
    simp only [step] at hs
    split at hs; · cases hs
    cases hs; exact ⟨hT.todo_prep, hT.todo_unannounced⟩
  | endFlush =>
    simp only [step] at hs
    split at hs; · cases hs
    cases hs; exact ⟨hT.todo_prep, hT.todo_unannounced⟩
  | endNotify =>
    simp only [step] at hs
    split at hs; · cases hs
    cases hs; exact ⟨hT.todo_prep, hT.todo_unannounced⟩
  | recv evs =>
    simp only [step] at hs
    split at hs; · cases hs
    split at hs
    · cases hs
    · cases hs; exact ⟨hT.todo_prep, hT.todo_unannounced⟩
  | env es =>
    simp only [step] at hs
    split at hs; · cases hs
    rw [envStepP_eq f j s.env es h1.no_trim] at hs
    cases he : envStep f j s.env es with
    | none => simp [he] at hs
    | some e' =>
      simp only [he, Option.map_some, Option.some.injEq] at hs
      subst hs
      exact ⟨hT.todo_prep, hT.todo_unannounced⟩
  | flushF1 =>
    simp only [step] at hs
    split at hs; · cases hs
    rename_i hc
    have hp : s.phase = .flushF := by simpa using hc
    have htodo : s.todo = [] := h1.todo_phase (by simp [hp]) (by simp [hp]) (by simp [hp])
    split at hs
    · cases hs
    · cases hs; exact iT_nil _ _ htodo
  | flushP1 =>
    simp only [step] at hs
    split at hs; · cases hs
    rename_i hc
    have hp : s.phase = .flushP := by simpa using hc
    have htodo : s.todo = [] := h1.todo_phase (by simp [hp]) (by simp [hp]) (by simp [hp])
    split at hs
    · cases hs
    · split at hs
      · cases hs
      · cases hs; exact iT_nil _ _ htodo
      · cases hs; exact iT_nil _ _ htodo
  | notify1 =>
    simp only [step] at hs
    split at hs; · cases hs
    rename_i hc
    have hp : s.phase = .notifying := by simpa using hc
    have htodo : s.todo = [] := h1.todo_phase (by simp [hp]) (by simp [hp]) (by simp [hp])
    split at hs
    · cases hs
    · split at hs
      · cases hs
      · cases hs; exact iT_nil _ _ htodo
      · cases hs; exact iT_nil _ _ htodo
  | plan1 =>
    simp only [step] at hs
    split at hs; · cases hs
    split at hs
    · cases hs
    · rename_i a prep rest htd
      split at hs
      · cases hs
      · cases hs; exact ⟨hT.todo_prep, hT.todo_unannounced⟩
      · rename_i c2 hpl
        cases hs
        obtain ⟨pH, _, _, _, _, pann, _⟩ := i4b_planOne_ok j s.ctl c2 a prep hpl
        refine ⟨?_, ?_⟩
        · intro a' prep' hm p hp
          have := hT.todo_prep a' prep' (by rw [htd]; exact List.mem_cons_of_mem _ hm) p hp
          refine ⟨?_, this.2⟩
          rw [pH]; split
          · simp
          · exact this.1
        · intro w t hm k
          rw [pann]
          refine hT.todo_unannounced w t ?_ k
          simp only [Sys.todoPairs, htd, List.map_cons]
          exact List.mem_cons_of_mem _ hm
  | assign a =>
    simp only [step] at hs
    split at hs; · cases hs
    split at hs
    · cases hs
    · cases hs; exact ⟨hT.todo_prep, hT.todo_unannounced⟩
    · rename_i c2 prep has
      cases hs
      obtain ⟨hmono, hnew, hann⟩ := iT_assignOne j cl s.ctl c2 a prep has
      have hd0 := (once_assignOne j cl s.ctl c2 a prep h1.once has).2.1
      refine ⟨?_, ?_⟩
      · intro a' prep' hm p hp
        rcases List.mem_append.mp hm with hm | hm
        · have := hT.todo_prep a' prep' hm p hp
          exact ⟨hmono _ _ this.1, this.2⟩
        · simp only [List.mem_singleton, Prod.mk.injEq] at hm
          obtain ⟨rfl, rfl⟩ := hm
          exact hnew p hp
      · intro w t hm k
        rw [hann]
        simp only [Sys.todoPairs, List.map_append, List.map_cons, List.map_nil, List.mem_append,
          List.mem_singleton] at hm
        rcases hm with hm | hm
        · exact hT.todo_unannounced w t hm k
        · simp only [Prod.mk.injEq] at hm
          obtain ⟨rfl, rfl⟩ := hm
          cases han : s.ctl.announced ⟨a.task, k⟩ with
          | false => rfl
          | true =>
            exfalso
            have hprod := h2.announced_produced _ han
            have hran := ((h2.produced_iff _).mp hprod).1
            have := (h2.ran_disp _ hran).1
            simp only at this
            omega

end EkwVerif.Ctrl
