/-
Termination of the extended system, part A (audit C01 #1, C03 #2): control-flow facts of `assign()` that Tier S does not
record (`InvE`), the existence of an admissible assignment inside `_assignment_heuristic` — the scan of
`build_assignment` over the hosts holding an input (`scanSource`, `chooseCands`) never makes the model reject the
assignment (`sT_buildPrep_no_oracle`) —, and DEADLOCK FREEDOM: in every reachable state whose phase is not `finished`
some step of the system is enabled (`sT_deadlock_free`); in every phase but `waiting` a CONTROLLER step is enabled
(`sT_ctrl_enabled`).
-/
import EkwVerif.Lemmas.SchedIdle
import EkwVerif.Lemmas.SchedBound
import EkwVerif.Lemmas.CtrlPub

set_option linter.unusedVariables false
set_option linter.unusedSimpArgs false

namespace EkwVerif.Ctrl

/-! ### the scan of `build_assignment` for a transmit source -/

/-- `any(candidate := host for host, status in ds2host[ds].items() if status in {available})`: the first host, in the
order in which the hosts are scanned, that the controller believes `available` -/
def scanSource (order : List Host) (c : Ctl) (ds : Ds) : Option Host :=
  order.find? (fun h => c.dsHost ds h == .available)

/-- the sources the scan yields for the inputs of a task (one entry per input that has an `available` host) -/
def chooseCands (order : List Host) (c : Ctl) (l : List Ds) : List (Ds × Host) :=
  l.filterMap (fun ds => (scanSource order c ds).map (fun h => (ds, h)))

theorem scanSource_available (order : List Host) (c : Ctl) (ds : Ds) (h : Host) (hs : scanSource order c ds = some h) :
    c.dsHost ds h = .available ∧ h ∈ order := by
  unfold scanSource at hs
  have h1 := List.find?_some hs
  exact ⟨by simpa using h1, List.mem_of_find?_eq_some hs⟩

theorem scanSource_none (order : List Host) (c : Ctl) (ds : Ds) (hs : scanSource order c ds = none) :
    ∀ h, h ∈ order → c.dsHost ds h ≠ .available := by
  unfold scanSource at hs
  intro h hm
  have := List.find?_eq_none.mp hs h hm
  simpa using this

theorem chooseCands_find (order : List Host) (c : Ctl) (l : List Ds) (ds : Ds) :
    (∀ d src, (chooseCands order c l).find? (·.1 == ds) = some (d, src) → d = ds ∧ scanSource order c ds = some src) ∧
    ((chooseCands order c l).find? (·.1 == ds) = none → ds ∈ l → scanSource order c ds = none) := by
  induction l with
  | nil => simp [chooseCands]
  | cons a l ih =>
    unfold chooseCands at ih ⊢
    simp only [List.filterMap_cons]
    cases hsa : scanSource order c a with
    | none =>
      simp only [Option.map_none]
      refine ⟨ih.1, ?_⟩
      intro hn hm
      rcases List.mem_cons.mp hm with rfl | hm
      · exact hsa
      · exact ih.2 hn hm
    | some src0 =>
      simp only [Option.map_some, List.find?_cons]
      by_cases hd : a = ds
      · subst hd
        simp only [beq_self_eq_true]
        refine ⟨?_, by intro h; cases h⟩
        intro d src he
        simp only [Option.some.injEq, Prod.mk.injEq] at he
        obtain ⟨rfl, rfl⟩ := he
        exact ⟨rfl, hsa⟩
      · have : (a == ds) = false := by simpa using hd
        simp only [this]
        refine ⟨ih.1, ?_⟩
        intro hn hm
        rcases List.mem_cons.mp hm with rfl | hm
        · exact absurd rfl hd
        · exact ih.2 hn hm

/-- **The scan always yields an admissible choice.** With the sources the scan of `build_assignment` finds (in the
controller state `c0` at the start of the call, over an order that covers the cluster's hosts), the loop of
`build_assignment` never meets an inadmissible oracle value: it returns, or raises "not found in any host". -/
theorem sT_buildPrep_no_oracle (cl : Cluster) (w : Worker) (c0 : Ctl) (L : List Ds) :
    ∀ (l : List Ds) (c : Ctl), (∀ ds, ds ∈ l → ds ∈ L) →
      (∀ ds, (c.hostDs w.host ds).eligible = true ∨ ∀ h, c.dsHost ds h = c0.dsHost ds h) →
      ∀ msg, buildPrep cl w (chooseCands cl.hosts c0 L) c l ≠ .error (.oracle msg) := by
  intro l
  induction l with
  | nil => intro c _ _ msg h; simp [buildPrep] at h
  | cons ds rest ih =>
    intro c hsub hI msg
    have hsub' : ∀ d, d ∈ rest → d ∈ L := fun d hd => hsub d (List.mem_cons_of_mem _ hd)
    unfold buildPrep
    split
    · exact ih c hsub' hI msg
    · split
      · rename_i hne hel
        split
        · rename_i e he
          intro h
          simp only [Except.error.injEq] at h
          subst h
          exact ih c hsub' hI msg he
        · intro h; cases h
      · rename_i hnw hnh
        have hrow : ∀ h, c.dsHost ds h = c0.dsHost ds h := by
          rcases hI ds with h | h
          · exact absurd h hnh
          · exact h
        have hcf := chooseCands_find cl.hosts c0 L ds
        split
        · rename_i d src hfind
          obtain ⟨rfl, hscan⟩ := hcf.1 d src hfind
          have hav := (scanSource_available cl.hosts c0 d src hscan).1
          have : (c.dsHost d src == Status.available) = true := by rw [hrow src, hav]; rfl
          simp only [this, if_true]
          split
          · rename_i e he
            intro h
            simp only [Except.error.injEq] at h
            subst h
            refine ih _ hsub' ?_ msg he
            intro ds'
            by_cases hd : ds' = d
            · subst hd; left; simp [Status.eligible]
            · rcases hI ds' with h | h
              · left
                show (upd c.hostDs w.host (upd (c.hostDs w.host) d Status.preparing) w.host ds').eligible = true
                rw [upd_same, upd_other _ _ _ _ hd]; exact h
              · right
                intro h'
                show upd c.dsHost d (upd (c.dsHost d) w.host Status.preparing) ds' h' = c0.dsHost ds' h'
                rw [upd_other _ _ _ _ hd]; exact h h'
          · intro h; cases h
        · rename_i hfind
          have hnone := hcf.2 hfind (hsub ds (by simp))
          have hno := scanSource_none cl.hosts c0 ds hnone
          have : cl.hosts.any (fun h => c.dsHost ds h == .available) = false := by
            simp only [List.any_eq_false, beq_iff_eq]
            intro h hm
            rw [hrow h]
            exact hno h hm
          simp only [this]
          intro h
          simp at h

/-- for every idle worker and computable task that fit each other's GPU flag there is an assignment the model accepts:
the one whose sources the scan finds -/
theorem sT_assign_exists (j : Job) (cl : Cluster) (c : Ctl) (w : Worker) (t : Task) (hi : w ∈ c.idle)
    (hc : t ∈ c.computable) (hg : j.gpu t = true → cl.hasGpu w = true) :
    ∀ msg, assignOne j cl c ⟨w, t, chooseCands cl.hosts c (j.inputs t)⟩ ≠ .error (.oracle msg) := by
  intro msg
  unfold assignOne
  have h1 : c.idle.contains w = true := by simpa using hi
  have h2 : c.computable.contains t = true := by simpa using hc
  have h3 : (j.gpu t && !(cl.hasGpu w)) = false := by
    cases hgt : j.gpu t with
    | false => simp
    | true => simp [hg hgt]
  simp only [h1, h2, h3, Bool.not_true, Bool.false_eq_true, if_false]
  split
  · rename_i e he
    intro h
    simp only [Except.error.injEq] at h
    subst h
    exact sT_buildPrep_no_oracle cl w c (j.inputs t) (j.inputs t) c (fun _ h => h) (fun _ => Or.inr (fun _ => rfl)) msg he
  · intro h; cases h

/-! ### control-flow facts of `assign()` -/

/-- what the stage of `assign()` guarantees beyond `StageOk` -/
def StageE (j : Job) (x : SysX) : Prop :=
  match x.sch.stage with
  | .off => False
  | .done => True
  | .stepI _ => x.sys.mayAssign = true
  | .stepII comps _ _ => x.sys.mayAssign = true ∧ comps ≠ []
  | .ready _ _ k => x.sys.mayAssign = true ∧ (k = true → x.sch.stepIIcomps ≠ [])
  | .inH _ cls tasks _ _ cpuT _ k => x.sys.mayAssign = true ∧ (k = true → x.sch.stepIIcomps ≠ []) ∧
      (cls = .cpu → ∀ t, t ∈ tasks → j.gpu t = false) ∧ (∀ t, t ∈ cpuT → j.gpu t = false)

theorem stageE_inH {j : Job} {x : SysX} {c : Nat} {cls : Cls} {tasks : List Task} {workers : List Worker} {ph : HPhase}
    {cpuT : List Task} {cpuW : List Worker} {k : Bool} (hst : x.sch.stage = .inH c cls tasks workers ph cpuT cpuW k) :
    StageE j x ↔ (x.sys.mayAssign = true ∧ (k = true → x.sch.stepIIcomps ≠ []) ∧
      (cls = .cpu → ∀ t, t ∈ tasks → j.gpu t = false) ∧ (∀ t, t ∈ cpuT → j.gpu t = false)) := by
  unfold StageE; rw [hst]

theorem stageE_ready {j : Job} {x : SysX} {c : Nat} {ws : List Worker} {k : Bool} (hst : x.sch.stage = .ready c ws k) :
    StageE j x ↔ (x.sys.mayAssign = true ∧ (k = true → x.sch.stepIIcomps ≠ [])) := by
  unfold StageE; rw [hst]

theorem stageE_stepI {j : Job} {x : SysX} {pend : List Nat} (hst : x.sch.stage = .stepI pend) :
    StageE j x ↔ x.sys.mayAssign = true := by
  unfold StageE; rw [hst]

theorem stageE_stepII {j : Job} {x : SysX} {comps : List Nat} {i : Nat} {mig : List Host}
    (hst : x.sch.stage = .stepII comps i mig) : StageE j x ↔ (x.sys.mayAssign = true ∧ comps ≠ []) := by
  unfold StageE; rw [hst]

theorem stageE_done {j : Job} {x : SysX} (hst : x.sch.stage = .done) : StageE j x := by
  unfold StageE; rw [hst]; trivial

theorem stageE_off {j : Job} {x : SysX} (hst : x.sch.stage = .off) : ¬ StageE j x := by
  unfold StageE; rw [hst]; exact fun h => h

/-- inside `assign()` the stage is one of the call tree, entered only when `has_computable` held at the top of the
iteration; step II has a non-empty component list; the CPU call of `assign_within_component` holds no GPU task -/
structure InvE (j : Job) (x : SysX) : Prop where
  asg : x.sys.phase = .assigning → StageE j x

theorem sT_invE_init (j : Job) (cl : Cluster) (cm : Comps) : InvE j (SysX.init j cl cm) :=
  ⟨by intro h; simp [SysX.init, Sys.init] at h⟩

/-- the only base steps that end inside `assign()` -/
theorem sT_post_assigning (f : Sem) (j : Job) (cl : Cluster) (s s' : Sys) (st : Step) (hs : step f j cl s st = some s')
    (hp : s'.phase = .assigning) :
    (st = .enter) ∨ ((∃ a, st = .assign a) ∧ s.phase = .assigning ∧ s'.mayAssign = s.mayAssign) ∨
    ((∃ es, st = .env es) ∧ s.phase = .assigning ∧ s'.mayAssign = s.mayAssign) := by
  cases st with
  | enter => exact Or.inl rfl
  | assign a =>
    refine Or.inr (Or.inl ⟨⟨a, rfl⟩, ?_⟩)
    simp only [step] at hs
    split at hs; · cases hs
    rename_i hc
    have hph : s.phase = .assigning := by
      simp only [bne_iff_ne, ne_eq, Bool.or_eq_true, not_or, Decidable.not_not] at hc; exact hc.1
    split at hs
    · cases hs
    · cases hs; simp [Sys.crash] at hp
    · cases hs; exact ⟨hph, rfl⟩
  | env es =>
    refine Or.inr (Or.inr ⟨⟨es, rfl⟩, ?_⟩)
    obtain ⟨_, _, h3, _, _⟩ := sB_env_step f j cl s s' es hs
    simp only [step] at hs
    split at hs; · cases hs
    cases he : envStepP f j s.env es with
    | none => simp [he] at hs
    | some e => simp only [he, Option.map_some, Option.some.injEq] at hs; subst hs; exact ⟨hp, rfl⟩
  | endAssign => simp only [step] at hs; split at hs; · cases hs
                 cases hs; cases hp
  | plan1 =>
    simp only [step] at hs
    split at hs; · cases hs
    rename_i hc
    have hph : s.phase = .planning := by simpa using hc
    split at hs
    · cases hs
    · split at hs
      · cases hs
      · cases hs; simp [Sys.crash] at hp
      · cases hs; simp [hph] at hp
  | endPlan => simp only [step] at hs; split at hs; · cases hs
               cases hs; cases hp
  | flushF1 =>
    simp only [step] at hs
    split at hs; · cases hs
    rename_i hc
    have hph : s.phase = .flushF := by simpa using hc
    split at hs
    · cases hs
    · cases hs; simp [hph] at hp
  | endFlushF => simp only [step] at hs; split at hs; · cases hs
                 cases hs; cases hp
  | flushP1 =>
    simp only [step] at hs
    split at hs; · cases hs
    rename_i hc
    have hph : s.phase = .flushP := by simpa using hc
    split at hs
    · cases hs
    · split at hs
      · cases hs
      · cases hs; simp [Sys.crash] at hp
      · cases hs; simp [hph] at hp
  | endFlush =>
    simp only [step] at hs; split at hs; · cases hs
    cases hs
    simp only at hp
    split at hp <;> cases hp
  | recv evs =>
    simp only [step] at hs
    split at hs; · cases hs
    split at hs
    · cases hs
    · cases hs; cases hp
  | notify1 =>
    simp only [step] at hs
    split at hs; · cases hs
    rename_i hc
    have hph : s.phase = .notifying := by simpa using hc
    split at hs
    · cases hs
    · split at hs
      · cases hs
      · cases hs; simp [Sys.crash] at hp
      · cases hs; simp [hph] at hp
  | endNotify => simp only [step] at hs; split at hs; · cases hs
                 cases hs; cases hp

/-! ### `InvE` is inductive -/

theorem sT_invE_step (f : Sem) (j : Job) (cl : Cluster) (cm : Comps) (x x' : SysX) (st : StepX) (h : InvE j x)
    (hs : stepX f j cl cm x st = some x') : InvE j x' := by
  refine ⟨fun hp => ?_⟩
  cases st with
  | base bst =>
    have hb := sL_stepX_base f j cl cm x x' bst hs
    rcases sT_post_assigning f j cl x.sys x'.sys bst hb hp with rfl | ⟨⟨a, rfl⟩, hph, hm⟩ | ⟨⟨es, rfl⟩, hph, hm⟩
    · simp only [stepX] at hs
      split at hs; · cases hs
      cases hst : step f j cl x.sys .enter with
      | none => simp [hst] at hs
      | some s' =>
        simp only [hst, Option.map_some, Option.some.injEq] at hs
        split at hs
        · rename_i hc
          subst hs
          simp only [Bool.and_eq_true] at hc
          exact (stageE_stepI rfl).mpr hc.2
        · subst hs; exact stageE_done rfl
    · have hE := h.asg hph
      simp only [stepX] at hs
      split at hs; · cases hs
      split at hs
      · rename_i c cls tasks workers phase cpuT cpuW k hstage
        split at hs; · cases hs
        cases hst : step f j cl x.sys (.assign a) with
        | none => simp [hst] at hs
        | some s' =>
          simp only [hst, Option.map_some, Option.some.injEq] at hs
          rw [hst] at hb
          simp only [Option.some.injEq] at hb
          split at hs
          · rename_i hcr
            subst hs
            simp only at hp
            simp only [beq_iff_eq] at hcr
            rw [hcr] at hp; cases hp
          · subst hs
            obtain ⟨e1, e2, e3, e4⟩ := (stageE_inH hstage).mp hE
            have hm' : s'.mayAssign = x.sys.mayAssign := by simpa using hm
            have e1' : s'.mayAssign = true := by rw [hm']; exact e1
            split <;> (refine (stageE_inH rfl).mpr ?_; exact ⟨e1', e2, fun hc t ht => e3 hc t (List.mem_of_mem_erase ht), e4⟩)
      · cases hs
    · have hE := h.asg hph
      simp only [stepX] at hs
      split at hs; · cases hs
      cases hst : step f j cl x.sys (.env es) with
      | none => simp [hst] at hs
      | some s' =>
        simp only [hst, Option.map_some, Option.some.injEq] at hs
        subst hs
        rw [hst] at hb
        simp only [Option.some.injEq] at hb
        have hm' : s'.mayAssign = x.sys.mayAssign := by simpa using hm
        unfold StageE at hE ⊢
        simp only [hm']
        exact hE
  | awcBegin c =>
    simp only [stepX] at hs
    split at hs; · cases hs
    rename_i hg
    have hph : x.sys.phase = .assigning := by
      simp only [bne_iff_ne, ne_eq, Bool.or_eq_true, not_or, Decidable.not_not] at hg; exact hg.2
    have hE := h.asg hph
    split at hs
    · rename_i pend hstage
      split at hs
      · cases hs
        exact (stageE_ready rfl).mpr ⟨(stageE_stepI hstage).mp hE, fun hk => by cases hk⟩
      · cases hs
    · cases hs
  | awcEnter =>
    simp only [stepX] at hs
    split at hs; · cases hs
    rename_i hg
    have hph : x.sys.phase = .assigning := by
      simp only [bne_iff_ne, ne_eq, Bool.or_eq_true, not_or, Decidable.not_not] at hg; exact hg.2
    split at hs
    · rename_i c ws k hstage
      have hE := (stageE_ready hstage).mp (h.asg hph)
      cases hs
      split <;> (refine (stageE_inH rfl).mpr ?_
                 refine And.intro hE.1 (And.intro hE.2 (And.intro ?_ ?_))
                 · intro hc; cases hc
                 · intro t ht; simpa using (List.mem_filter.mp ht).2)
    · cases hs
  | hPhase2 =>
    simp only [stepX] at hs
    split at hs; · cases hs
    rename_i hg
    have hph : x.sys.phase = .assigning := by
      simp only [bne_iff_ne, ne_eq, Bool.or_eq_true, not_or, Decidable.not_not] at hg; exact hg.2
    split at hs
    · rename_i c cls tasks workers cpuT cpuW k hstage
      have hE := (stageE_inH hstage).mp (h.asg hph)
      cases hs
      split <;> (refine (stageE_inH rfl).mpr ?_; exact hE)
    · cases hs
  | hEnd =>
    simp only [stepX] at hs
    split at hs; · cases hs
    rename_i hg
    have hph : x.sys.phase = .assigning := by
      simp only [bne_iff_ne, ne_eq, Bool.or_eq_true, not_or, Decidable.not_not] at hg; exact hg.2
    split at hs
    · rename_i c cls tasks workers cpuT cpuW k hstage
      split at hs; · cases hs
      obtain ⟨e1, e2, e3, e4⟩ := (stageE_inH hstage).mp (h.asg hph)
      cases cls with
      | gpu =>
        simp only at hs
        cases hs
        split <;> (refine (stageE_inH rfl).mpr ?_; exact ⟨e1, e2, fun _ => e4, fun t ht => by cases ht⟩)
      | cpu =>
        simp only at hs
        split at hs
        · rename_i hk
          cases hs
          exact (stageE_stepII rfl).mpr ⟨e1, e2 hk⟩
        · cases hs
          exact (stageE_stepI rfl).mpr e1
    · cases hs
  | beginStepII =>
    simp only [stepX] at hs
    split at hs; · cases hs
    rename_i hg
    have hph : x.sys.phase = .assigning := by
      simp only [bne_iff_ne, ne_eq, Bool.or_eq_true, not_or, Decidable.not_not] at hg; exact hg.2
    split at hs
    · rename_i hstage
      have hE := (stageE_stepI hstage).mp (h.asg hph)
      split at hs
      · cases hs; exact stageE_done rfl
      · split at hs
        · cases hs; exact stageE_done rfl
        · rename_i hne
          cases hs
          refine (stageE_stepII rfl).mpr ⟨hE, ?_⟩
          intro he
          rw [he] at hne
          simp at hne
    · cases hs
  | migrate hh =>
    simp only [stepX] at hs
    split at hs; · cases hs
    rename_i hg
    have hph : x.sys.phase = .assigning := by
      simp only [bne_iff_ne, ne_eq, Bool.or_eq_true, not_or, Decidable.not_not] at hg; exact hg.2
    split at hs
    · rename_i comps i mig hstage
      have hE := (stageE_stepII hstage).mp (h.asg hph)
      split at hs; · cases hs
      split at hs
      · cases hs
      · cases hs
        exact (stageE_ready rfl).mpr ⟨hE.1, fun _ => hE.2⟩
    · cases hs

theorem sT_invE_reachable (f : Sem) (j : Job) (cl : Cluster) (cm : Comps) (x : SysX) (hr : ReachableX f j cl cm x) :
    InvE j x := by
  induction hr with
  | init => exact sT_invE_init j cl cm
  | step x x' st _ hs ih => exact sT_invE_step f j cl cm x x' st ih hs

end EkwVerif.Ctrl
