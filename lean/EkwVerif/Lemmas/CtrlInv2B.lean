/-
Tier 2 (`Inv2`) preservation, slice B (steps `.enter .endAssign .endPlan .flushF1 .endFlushF .flushP1
.endFlush .recv .notify1 .endNotify`) and the auxiliary invariant `Inv2X` — umbrella import.
  CtrlInv2B1  congruence lemma, frame facts, all steps of the slice except `.notify1`
  CtrlInv2B2  `consider_computable` / completion-loop lemmas, the two stages of a notification
  CtrlInv2B3  `i2b_step_notify1` (needs `Inv2X`)
  CtrlInv2BX  `i2b_inv2x_init`, `i2b_inv2x_step`
-/
import EkwVerif.Lemmas.CtrlInv2B3
import EkwVerif.Lemmas.CtrlInv2BX
